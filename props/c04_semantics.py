"""
C04 — Programs evaluate by the documented context-scoped semantics.

Generated FPy source text (vlib.progen) is loaded through the real `@fp.fpy` decorator/parser and
evaluated by `Function.__call__`; the oracle is vlib.refeval, an evaluator written from the language
documents that walks Python's own `ast` of the same text with exact rational arithmetic and the
independent rounding oracle.
"""

from __future__ import annotations

import hashlib
import signal
import traceback
from fractions import Fraction

import fpy2 as fp

from vlib import progen, refeval
from vlib.denote import deep_den
from vlib.load import load_module, unload
from vlib.runner import Result, h64, jsonable

PROPERTY = 'C04'
LEVEL = 'exploration'
RULE = ('Programs: grammar-based, type-directed generator of FPy source text (0-2 helpers with/without @fpy(ctx=...), nested and '
        'sequential `with` blocks incl. computed constructor arguments and `as` names, loops, branches, early returns, list aliasing/'
        'mutation, comprehensions, zip/enumerate/range, min/max/sum/any/all, chained comparisons), plus hand-parameterised templates '
        'for each clause of the statement; each program runs on several argument tuples (specials, values unrepresentable in the '
        'contexts used) with and without a caller context. Non-trivial = the reference result changes when every `with`/declared '
        'context is ignored (context scoping is observable) or the program exercises a tagged feature (early return inside with/loop, '
        'statement after an inner with, helper without its own context, helper mutating a caller list, computed context arguments); '
        'distinct by (source hash, input, caller context).')
ASSUMPTIONS = [
    'Reference evaluator vlib/refeval.py implements only documented behaviour (semantics.rst, derived-semantics.rst, USAGE.md); '
    'Python-boundary default context is IEEE double (property text).',
    'Cases whose result the documents leave open are skipped and counted: exact-cancellation zero under RTN, overflow under RTO/RTE, '
    'signbit(NaN), zip of unequal lengths, fst/snd of a non-pair.',
    'Negation of an integer literal is exact and of a zero literal is -0 (parser-documented literal folding).',
    'Stuck programs (failed assert, bad index...) only require that no value is returned for index/slice errors; other stuck states are skipped.',
]
EXHAUSTIVE = {'quick': False, 'thorough': False}
FLOORS = {'ctx-sensitive': 0.05, 'returned': 0.3}

TAGGED = {'early-return-inside-with', 'early-return-inside-loop', 'stmt-after-with', 'helper-without-ctx',
          'helper-mutates-list', 'computed-ctx-args', 'nested-with', 'with-inside-loop'}

N_INPUTS = 5


class _Timeout(Exception):
    pass


def _alarm(signum, frame):
    raise _Timeout()


def ctx_obj(text):
    if text is None:
        return None
    return eval(text, {'fp': fp})


_REF_CTX_CACHE = {}


def ref_ctx(text):
    if text is None:
        return None
    if text not in _REF_CTX_CACHE:
        ev = refeval.Evaluator(f'_c = {text}\n')
        _REF_CTX_CACHE[text] = ev.globals['_c']
    return _REF_CTX_CACHE[text]


def run_reference(src, main, args, ctx_text, flatten=False):
    """('value', v) | ('stuck', kind) | ('skip', why)"""
    try:
        ev = refeval.Evaluator(src)
        if flatten:
            ev.fctx = {k: None for k in ev.fctx}
            orig_stmt = ev.stmt
            import ast as _ast

            def stmt(s, env, ctx):
                if isinstance(s, _ast.With):
                    item = s.items[0]
                    c2 = ev.expr(item.context_expr, env, refeval.REAL)
                    if item.optional_vars is not None:
                        env[item.optional_vars.id] = c2
                    ev.block(s.body, env, ctx)
                    return
                return orig_stmt(s, env, ctx)
            ev.stmt = stmt
        rargs = [refeval.to_denotation(a) for a in args]
        v = ev.call_from_python(main, rargs, ref_ctx(ctx_text))
        return ('value', refeval.result_den(v))
    except refeval.Stuck as e:
        return ('stuck', e.kind)
    except refeval.Ambiguous as e:
        return ('skip', 'ambiguous')
    except refeval.Unsupported as e:
        return ('skip', f'unsupported')
    except refeval.Budget:
        return ('skip', 'budget')
    except RecursionError:
        return ('skip', 'recursion')


def run_impl(fn, args, ctx_text):
    """('value', denotation) | ('raise', ExcName, msg) | ('timeout',)"""
    import copy
    a = copy.deepcopy(args)
    old = signal.signal(signal.SIGALRM, _alarm)
    signal.alarm(20)
    try:
        r = fn(*a, ctx=ctx_obj(ctx_text))
        return ('value', deep_den(r))
    except _Timeout:
        return ('timeout',)
    except Exception as e:   # the property is about returned values; exception type is part of the bucket
        return ('raise', type(e).__name__, str(e)[:200])
    finally:
        signal.alarm(0)
        signal.signal(signal.SIGALRM, old)


def check_program(res: Result, src, main, inputs, features, origin):
    """inputs: list of (args, ctx_text)."""
    try:
        mod = load_module(src)
    except Exception as e:
        res.skip(f'rejected:{type(e).__name__}')
        res.count('rejected')
        if res.extra.get('rejected', 0) <= 3:
            res.sample({'rejected': src, 'error': f'{type(e).__name__}: {str(e)[:300]}'})
        return
    try:
        fn = getattr(mod, main)
        res.count('programs')
        sh = hashlib.blake2b(src.encode(), digest_size=8).hexdigest()
        for idx, (args, ctx_text) in enumerate(inputs):
            ref = run_reference(src, main, args, ctx_text)
            res.case()
            if ref[0] == 'skip':
                res.skip(ref[1])
                continue
            got = run_impl(fn, args, ctx_text)
            if got[0] == 'timeout':
                res.skip('timeout-inconclusive')
                continue
            case = {'src': src, 'main': main, 'args': encode_args(args), 'ctx': ctx_text, 'origin': origin}
            if ref[0] == 'stuck':
                res.cls('stuck')
                if ref[1] in ('index', 'slice') and got[0] == 'value':
                    res.fail(f'stuck-{ref[1]}-returned', case, expected='IndexError', got=got[1])
                continue
            res.cls('returned')
            flat = run_reference(src, main, args, ctx_text, flatten=True)
            sensitive = flat[0] != 'value' or flat[1] != ref[1]
            if sensitive:
                res.cls('ctx-sensitive')
            tagged = features & TAGGED
            for f in sorted(features):
                res.cls('f:' + f)
            if sensitive or tagged:
                res.nontrivial((sh, idx))
                res.maybe_sample(case, nt=True)
            if got[0] == 'raise':
                res.fail(f'raises:{got[1]}', case, expected=ref[1], got=f'{got[1]}: {got[2]}')
            elif got[1] != ref[1]:
                res.fail(classify_mismatch(ref[1], got[1], features, sensitive), case, expected=ref[1], got=got[1])
    finally:
        unload(mod)


def classify_mismatch(exp, got, features, sensitive):
    if type(exp) is not type(got) or (isinstance(exp, tuple) and (len(exp) != len(got) or exp[:1] != got[:1])):
        return 'wrong-shape'
    return 'wrong-value' + ('/ctx-sensitive' if sensitive else '')


def encode_args(args):
    def enc(a):
        if isinstance(a, list):
            return {'L': [enc(x) for x in a]}
        if isinstance(a, tuple):
            return {'T': [enc(x) for x in a]}
        if isinstance(a, bool):
            return {'b': a}
        if isinstance(a, Fraction):
            return {'q': f'{a.numerator}/{a.denominator}'}
        if isinstance(a, float):
            return {'f': a.hex() if a == a and a not in (float('inf'), float('-inf')) else repr(a)}
        return {'i': a}
    return [enc(a) for a in args]


def decode_args(enc):
    def dec(a):
        if 'L' in a:
            return [dec(x) for x in a['L']]
        if 'T' in a:
            return tuple(dec(x) for x in a['T'])
        if 'b' in a:
            return a['b']
        if 'q' in a:
            return Fraction(a['q'])
        if 'f' in a:
            s = a['f']
            return float.fromhex(s) if s.startswith(('0x', '-0x')) else float(s)
        return a['i']
    return [dec(a) for a in enc]


# ---------------------------------------------------------------------------
# targeted templates: one per clause of the statement

TEMPLATES = [
    # early return from inside nested with; statement after inner block runs under the outer context
    ('nested-with-early-return', '''
@fp.fpy
def main(a0, a1):
    with fp.MPFloatContext(3, fp.RM.{rm1}):
        t = a0 * a1
        with fp.MPFloatContext(2, fp.RM.{rm2}):
            u = t + a0
            if u > a1:
                return u / 3
        w = u * t + a1
    return w + a0 / 3
''', ['R', 'R']),
    ('with-in-loop-early-return', '''
@fp.fpy
def main(a0, a1):
    acc = a0
    for i in range(4):
        with fp.IEEEContext(3, 6, fp.RM.{rm1}) as c:
            acc = acc * a1 + i
            if acc > 5:
                return acc / 7
        acc = acc / 3
    return acc + a1
''', ['R', 'R']),
    ('callee-without-ctx-three-sites', '''
@fp.fpy
def h0(p0, p1):
    return p0 / p1 + p0

@fp.fpy(ctx=fp.MPFloatContext(2, fp.RM.{rm2}))
def h1(p0):
    return h0(p0, 3) * p0

@fp.fpy
def main(a0, a1):
    x = h0(a0, a1)
    with fp.MPFloatContext(4, fp.RM.{rm1}):
        y = h0(a0, a1)
        with fp.REAL:
            z = h0(a0, 7)
        q = h1(a1)
    return (x, y, z, q, h0(y, 3))
''', ['R', 'R']),
    ('ctor-args-exact', '''
@fp.fpy
def main(a0, a1):
    with fp.MPFloatContext(2, fp.RM.{rm1}):
        e = 3
        with fp.IEEEContext(e + 2, 2 * e + 5 + 0.5 * 2, fp.RM.{rm2}) as c:
            y = a0 / a1
        with fp.MPFloatContext(0.5 * 10) as d:
            z = a0 / a1
        w = a0 / a1
    return (y, z, w)
''', ['R', 'R']),
    ('list-aliasing', '''
@fp.fpy
def h0(p0, p1):
    p0[0] = p0[0] + p1
    return p0[0]

@fp.fpy
def main(a0, a1):
    ys = a0
    t = (a0, a1)
    ys[1] = a1 * 2
    cp = a0[:]
    r = h0(ys, a1)
    cp[0] = 100
    q, _ = t
    zs = [a0, a0]
    zs[0][1] = zs[1][1] + 1
    return (a0[0], a0[1], q[0], cp[0], cp[1], r, [x for x in ys], zs[1][1])
''', ['L2', 'R']),
    ('tuple-holding-list-to-callee', '''
@fp.fpy
def h0(p0, p1):
    buf, k = p0
    buf[k] = buf[k] + p1
    (row, _), w = (p0, p1)
    row[0] = w
    return buf[k]

@fp.fpy
def main(a0, a1):
    t = (a0, 1)
    r = h0(t, a1)
    s = h0((a0[:], 1), a1)
    u = (a0, (a0, a1))
    _, (ys, _) = u
    ys[1] = ys[1] * 2
    return (r, s, a0[0], a0[1], [x for x in a0])
''', ['L2', 'R']),
    ('nested-lists-two-level-store', '''
@fp.fpy
def h0(p0, p1):
    p0[1][0] = p0[1][0] + p1
    return p0[0][0]

@fp.fpy
def main(a0, a1):
    xss = [a0, a0[:], [a1, a1 / 3]]
    xss[0][1] = a1 * 2
    row = xss[1]
    row[0] = 100
    r = h0(xss, a1)
    yss = xss[1:]
    yss[0][1] = 7
    (p, (q, s)) = (a1, (xss[2][1], len(xss)))
    return (a0[0], a0[1], xss[1][0], xss[1][1], xss[2][0], r, q, s, [x for row2 in xss for x in row2])
''', ['L2', 'R']),
    ('ctx-var-reuse-and-helper-chain', '''
@fp.fpy
def h0(p0):
    return p0 / 3

@fp.fpy(ctx=fp.MPFloatContext(2, fp.RM.{rm2}))
def h1(p0):
    return h0(p0) + p0 / 7

@fp.fpy
def h2(p0):
    return h1(p0) + h0(p0)

@fp.fpy
def main(a0, a1):
    with fp.MPFloatContext(4, fp.RM.{rm1}) as c:
        x = h2(a0)
    y = a0 / 3
    with c:
        z = h0(a1) + a1 / 7
    with fp.REAL:
        w = h2(a1)
    return (x, y, z, w, a0 < y <= z != w, 1 < a0 / 3 < 2)
''', ['R', 'R']),
    ('exact-indices-and-lengths-under-narrow-ctx', '''
@fp.fpy
def main(a0, a1):
    with fp.MPFloatContext(2, fp.RM.{rm1}):
        idx = [i for i, _ in enumerate(a0)]
        rng = [i for i in range(len(a0))]
        n = len(a0)
        s = 0
        for i, x in enumerate(a0):
            s = s + i
        t = [i * a1 for i, x in enumerate(a0)]
    return (idx, rng, n, s, t, len(a0) / 3)
''', ['L12', 'R']),
    ('augmented-ops', '''
@fp.fpy
def main(a0, a1):
    with fp.MPFloatContext(4, fp.RM.{rm1}):
        x = a0
        x %= a1
        y = a0 % a1
        z = a0
        z /= a1
        w = a1
        w **= 2
        v = fp.fmod(a0, a1)
    return (x, y, z, w, v, a0 ** 3)
''', ['R', 'R']),
    ('comprehension-sum-under-ctx', '''
@fp.fpy
def main(a0, a1):
    with fp.MPFloatContext(3, fp.RM.{rm1}):
        xs = [x / 3 for x in a0]
        s = sum(xs)
        t = sum([a1])
        u = sum(a0[0:0])
    return (s, t, u, sum(xs), len(xs) / 3, [i * a1 for i, _ in enumerate(a0)], [x + y for x, y in zip(a0, xs)])
''', ['L2', 'R']),
    ('range-zip-enumerate-corners', '''
@fp.fpy
def main(a0, a1):
    r1 = [i for i in range(3)]
    r2 = [i for i in range(1, 4)]
    r3 = [i for i in range(6, 0, -2)]
    r4 = [i for i in range(0)]
    r5 = [i * j for i in range(2) for j in range(1, 3)]
    r6 = [i + v for i, v in enumerate(a0)]
    r7 = [(i, x, y) for i, (x, y) in enumerate(zip(a0, a0))]
    return (r1, r2, r3, r4, r5, r6, r7, len(a0[1:]), a0[:1])
''', ['L2', 'R']),
    ('minmax-rules', '''
@fp.fpy
def main(a0, a1):
    z = -0.0
    p = 0
    return (min(a0, a1), max(a0, a1), min(z, p), min(p, z), max(z, p), max(p, z), min(a0, a1, 1), max([a0, a1, 0]), min([a0]))
''', ['R', 'R']),
    ('compare-chain-shortcircuit', '''
@fp.fpy
def h0(p0):
    assert p0 > 0
    return p0

@fp.fpy
def main(a0, a1):
    xs = [0, 0]
    b1 = a0 < a1 <= 3
    b2 = a0 > 0 and h0(a0) > 0
    b3 = a0 <= 0 or h0(a0) > 0
    b4 = (a0 == a1) != (a0 != a1)
    b5 = 1 < a0 < 2 < 1
    v = a0 if a0 > 0 else a1
    return (b1, b2, b3, b4, b5, v, not b1)
''', ['R', 'R']),
    ('args-never-rounded', '''
@fp.fpy(ctx=fp.MPFloatContext(2, fp.RM.{rm1}))
def main(a0, a1):
    b = a0
    c = fp.round(a0)
    return (a0, b, c, a0 + 0, [a1], max(a0, a1), a0 if a1 > 0 else a1)
''', ['R', 'R']),
    ('augassign-tuple-destructure', '''
@fp.fpy
def main(a0, a1):
    with fp.MPFloatContext(3, fp.RM.{rm1}):
        x = a0
        x += a1
        x *= x
        x -= a0 / 3
        (p, (q, r)) = (x, (a0, a1 / 3))
        t = (q, r)
        u, v = t
    return (x, p, q, r, u + v)
''', ['R', 'R']),
    ('while-counter', '''
@fp.fpy
def main(a0, a1):
    k = 3
    acc = a0
    with fp.IEEEContext(4, 8, fp.RM.{rm1}):
        while k > 0:
            acc = acc * a1 + k
            with fp.MPFloatContext(2, fp.RM.{rm2}):
                acc = acc / 3
            k = k - 1
    return acc
''', ['R', 'R']),
    # fp.empty allocates fresh cells at every level: a store into one row is not seen through another
    ('empty-2d-rows-are-distinct', '''
@fp.fpy
def main(a0, a1):
    t = fp.empty(3, 2)
    for i in range(3):
        for j in range(2):
            with fp.MPFloatContext(3, fp.RM.{rm1}):
                t[i][j] = a0 * i + j
    t[0][1] = a1
    u = fp.empty(2, 2, 2)
    for i in range(2):
        for j in range(2):
            for k in range(2):
                u[i][j][k] = 0
    u[1][0][1] = a0
    with fp.IEEEContext(4, 8, fp.RM.{rm2}):
        s = sum([sum(r) for r in t]) + u[0][0][1] + u[1][1][1]
    return (t, u, s, len(t), len(t[0]))
''', ['R', 'R']),
    ('empty-1d-and-callee-fill', '''
@fp.fpy
def h0(p0, p1):
    for i in range(len(p0)):
        p0[i] = p1 + i
    return len(p0)

@fp.fpy
def main(a0, a1):
    n = 3
    xs = fp.empty(n)
    m = h0(xs, a0)
    g = fp.empty(2, n)
    k = h0(g[0], a1)
    k = h0(g[1], a0)
    g[1][2] = a1 / 3
    return (xs, g, m + k)
''', ['R', 'R']),
    # a constructor argument that is itself a helper call is evaluated exactly (the helper inherits REAL)
    ('ctor-arg-helper-call', '''
@fp.fpy
def h0(p0):
    return p0 + 3

@fp.fpy
def h1(p0, p1):
    return p0 * p1 + 1

@fp.fpy
def main(a0, a1):
    with fp.MPFloatContext(2, fp.RM.{rm1}):
        b = 8
        with fp.MPFloatContext(h0(b), fp.RM.{rm2}):
            y = a0 / a1
        with fp.MPFloatContext(h1(5, 5)):
            z = a0 / a1
        with fp.IEEEContext(h0(2), h0(h1(3, 3)), fp.RM.{rm2}):
            v = a0 / a1
        w = a0 / a1
    return (y, z, v, w)
''', ['R', 'R']),
    # every evaluation of range(...) is a fresh list: a store into one is not seen through another
    ('range-list-fresh', '''
@fp.fpy
def h0(p0):
    rs = range(4)
    rs[2] = rs[2] + p0
    return rs

@fp.fpy
def main(a0, a1):
    xs = range(4)
    xs[1] = xs[1] + a0
    ys = range(4)
    zs = [i for i in range(4)]
    t = 0
    for i in range(4):
        ws = range(1, 5)
        ws[i] = ws[i] * a1
        t = t + sum(ws)
    us = h0(a0)
    vs = h0(a1)
    return (sum(ys), sum(zs), xs[1], ys[1], t, us[2], vs[2], sum(range(4)), sum(range(1, 5)))
''', ['R', 'R']),
]

RM_SAFE = ['RNE', 'RNA', 'RTP', 'RTZ', 'RAZ', 'RTN', 'RTO', 'RTE']


def template_cases(seed, tier):
    ch = progen.RandChooser(h64(seed, 'tmpl'))
    n_var = 24 if tier == 'thorough' else 6
    out = []
    for name, tmpl, tys in TEMPLATES:
        for v in range(n_var):
            src = tmpl.format(rm1=ch.choice(RM_SAFE), rm2=ch.choice(RM_SAFE)).lstrip('\n')
            inputs = []
            for _ in range(8 if tier == 'thorough' else 5):
                args = []
                for t in tys:
                    if t == 'R':
                        args.append(ch.choice(progen.R_POOL))
                    elif t == 'L12':
                        args.append([ch.choice(progen.R_POOL) for _ in range(ch.int(7, 13))])
                    else:
                        args.append([ch.choice(progen.R_POOL) for _ in range(ch.int(2, 4))])
                inputs.append((args, ch.choice(progen.CALLER_CTXS)))
            out.append((name, src, inputs))
    return out


# ---------------------------------------------------------------------------

def shards(tier, seed):
    n_shards = 96 if tier == 'thorough' else 32
    per = 1500 if tier == 'thorough' else 220
    out = [('gen', i, per, seed, tier) for i in range(n_shards)]
    out += [('hyp', i, 150 if tier == 'thorough' else 25, seed, tier) for i in range(16 if tier == 'thorough' else 8)]
    out.append(('tmpl', seed, tier))
    return out


def profile_for(i):
    p = progen.Profile()
    if i % 4 == 1:
        p.max_stmts = 4
        p.expr_depth = 2
    if i % 4 == 2:
        p.lists = False
        p.tuples = False
    return p


def run_shard(shard):
    res = Result()
    kind = shard[0]
    if kind == 'tmpl':
        _, seed, tier = shard
        for name, src, inputs in template_cases(seed, tier):
            check_program(res, src, 'main', inputs, {'template:' + name, 'stmt-after-with'}, 'template:' + name)
        return res
    if kind == 'gen':
        _, i, per, seed, tier = shard
        for j in range(per):
            ch = progen.RandChooser(h64(seed, 'C04', i, j))
            prog = progen.gen_program(ch, profile_for(i))
            inputs = [(progen.gen_inputs(ch, prog), ch.choice(progen.CALLER_CTXS)) for _ in range(N_INPUTS)]
            check_program(res, prog.src, prog.main, inputs, prog.features, f'gen:{seed}:{i}:{j}')
        return res
    if kind == 'hyp':
        import hypothesis
        from hypothesis import HealthCheck, Phase, given, settings
        from hypothesis import strategies as st
        _, i, n, seed, tier = shard

        @st.composite
        def progs(draw):
            ch = progen.HypChooser(draw)
            prog = progen.gen_program(ch, profile_for(i))
            inputs = [(progen.gen_inputs(ch, prog), ch.choice(progen.CALLER_CTXS)) for _ in range(2)]
            return prog, inputs

        @hypothesis.seed(h64(seed, i, 'C04hyp') % (1 << 32))
        @settings(max_examples=n, deadline=None, database=None, derandomize=False, report_multiple_bugs=False,
                  phases=[Phase.generate], suppress_health_check=list(HealthCheck))
        @given(progs())
        def prop(pi):
            prog, inputs = pi
            check_program(res, prog.src, prog.main, inputs, prog.features, f'hyp:{seed}:{i}')
        prop()
        return res
    raise ValueError(shard)


def replay(case):
    res = Result()
    check_program(res, case['src'], case['main'], [(decode_args(case['args']), case['ctx'])], set(), case.get('origin', 'replay'))
    return [f for fl in res.failures.values() for f in fl]


def selftest():
    # the reference evaluator on a hand-computed example: 1/3 under MPFloat(2, RTZ) = 0.25, then + 1 under FP64
    src = '@fp.fpy\ndef main(a0):\n    with fp.MPFloatContext(2, fp.RM.RTZ):\n        t = a0 / 3\n    return t + 1\n'
    r = run_reference(src, 'main', [1], None)
    assert r == ('value', Fraction(5, 4)), r
    r = run_reference(src, 'main', [1], None, flatten=True)
    assert r[0] == 'value' and r[1] != Fraction(5, 4), r
