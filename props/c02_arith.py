"""
C02 -- Arithmetic rounds the exact result exactly once.

Exhaustive layer: for every operation, every operand tuple drawn from a small SOURCE format (all
members of a small IEEE format plus +-0, +-inf, NaN; a few non-dyadic rationals for the exact-rational
engine) x TARGET contexts that are deliberately narrower / wider / fixed-point / bounded than the
source x 8 rounding modes; fma on a cube of a smaller source plus cancellation-directed triples
(a, b, -round(a*b) +- ulp).  fp.REAL: the result must be the exact value itself.
Hypothesis layer: operands of unrelated precisions and exponents in mixed carriers, and
double-rounding-directed operand tuples: pick a breakpoint b of the target (member or midpoint,
overflow threshold, subnormal), solve  a o y = b +- tiny  for y in a much wider format.

Oracle: vlib.oracle_ops (exact rational / algebraic value + IEEE special-value tables) rounded once
by vlib.oracle_round on a Model mirrored from the public constructor parameters.
"""

from __future__ import annotations

from fractions import Fraction

import fpy2 as fp
from fpy2.number import Float

from vlib import formats as F
from vlib import oracle_ops as O
from vlib import refdec
from vlib.denote import NAN, NINF, NZERO, PINF, PZERO, den, pow2, show, to_float_obj
from vlib.oracle_round import MODES, check_outcome, expect, floor_log2, neighbours, round_real
from vlib.runner import Result, h64

PROPERTY = 'C02'
LEVEL = 'exploration'
RULE = ('Exhaustive: op in {add sub mul div fma neg abs copysign fdim mod fmod remainder pow ceil floor trunc roundint '
        'nearbyint sqrt cbrt hypot} x every operand tuple of a small IEEE source format (quick: (es,nbits)=(3,6) or (2,5), '
        'thorough: (3,7); all members, +-0, +-inf, NaN; plus non-dyadic rationals) x 23 target contexts (MPFloat p=1,2,3,6; '
        'MPSFloat; MPBFloat; IEEE; EFloat; MPFixed; MPBFixed; Fixed; SMFixed; Exp) x 8 rounding modes, and fp.REAL; fma on the '
        'cube of the (2,5) source plus cancellation-directed triples (a, b, -round(ab) +- ulp); remainders also with quotients up to 2^90.  Hypothesis: 1..200-bit operands, '
        'mixed carriers (Float/int/float/Fraction incl. non-dyadic), and operand tuples solved so that the exact result is a '
        'target breakpoint +- tiny.  Non-trivial = the exact result is not a member of the target (must be rounded, overflowed '
        'or rejected), or an operand is a signed zero / infinity / NaN, or the context is REAL (result must be exact); distinct '
        'by (op, context, operand denotations, carriers), which the enumeration never repeats (Hypothesis cases de-duplicated by hash).')
ASSUMPTIONS = [
    'Sign of an exactly-zero sum/difference/fma of opposite-signed operands under RTN: either zero accepted (statement leaves it open).',
    'Sign of a zero result of mod: either zero accepted; mod(x, +-inf) with x of the opposite sign: +-inf (Python) or NaN accepted.',
    'copysign(x, NaN): +|x|, -|x| or NaN accepted (denotations carry no NaN sign).',
    'nearbyint is checked as ONE rounding onto the integers representable in the context (round_integer, n=-1), not integer-then-context.',
    'ceil/floor/trunc/roundint: exact integer (IEEE roundToIntegral, zero keeps the operand sign) then one context rounding; inexact flag not checked for this family.',
    'pow follows IEEE 754-2019 9.2.1 incl. pow(x,+-0)=1 and pow(1,y)=1 for NaN; non-integer exponents with positive base are skipped (no exact reference).',
    'NotImplementedError (RuntimeError for nearbyint) under fp.REAL, or for a non-dyadic Fraction operand, means "operation not offered" and is skipped (counted).',
    'Flags: only `inexact` (== result differs from the exact value) and `overflow` of finite-operand cases are checked; invalid/divzero mismatches are only counted.',
    'Overflow under OVERFLOW mode with RTO/RTE may give either infinity or the largest value (as in C01).',
]
EXHAUSTIVE = {'quick': True, 'thorough': True}
FLOORS = {'tie': 0.004, 'dr': 0.03, 'special': 0.03, 'overflow': 0.01, 'real': 2000, 'nondyadic': 2000,
          'dr-directed': 500, 'irrational': 1000, 'subnormal': 0.01}

EXC = (ValueError, OverflowError, TypeError, ZeroDivisionError, ArithmeticError, AssertionError, RuntimeError,
       NotImplementedError, AttributeError, KeyError, IndexError)

HALF = Fraction(1, 2)


# ---------------------------------------------------------------------------
# sources and targets

def src_values(es, nbits):
    """All values of the IEEE-style format (es, nbits): finite members, +-0, +-inf, one NaN."""
    out, seen = [], set()
    for d in refdec.efloat_all(es, nbits, True, refdec.IEEE_754, 0):
        if d not in seen:
            seen.add(d)
            out.append(d)
    return out


NONDYADIC = [Fraction(1, 3), Fraction(-2, 3), Fraction(5, 3), Fraction(-7, 5), Fraction(22, 7)]


def target_specs():
    Fr = Fraction
    return [
        ('mp', (1,), {}), ('mp', (2,), {}), ('mp', (3,), {}), ('mp', (6,), {}),
        ('mps', (2, 0), {}), ('mps', (3, -1), {}), ('mps', (4, -2), {}),
        ('mpb', (3, -1, Fr(7)), {'overflow': 'OVERFLOW'}), ('mpb', (2, 0, Fr(6)), {'overflow': 'SATURATE'}),
        ('ieee', (2, 5), {}), ('ieee', (3, 7), {'overflow': 'SATURATE'}), ('ieee', (4, 8), {}),
        ('efloat', (3, 6, False, 2, 0), {}), ('efloat', (2, 5, True, 1, 0), {}),
        ('mpfixed', (-2,), {}), ('mpfixed', (1,), {'enable_nan': True, 'enable_inf': True}),
        ('mpbfixed', (-2, Fr(15, 2)), {'overflow': 'SATURATE'}), ('mpbfixed', (-1, Fr(12)), {'overflow': 'WRAP'}),
        ('fixed', (True, -2, 6), {'overflow': 'SATURATE'}), ('fixed', (False, 0, 3), {'overflow': 'WRAP'}),
        ('fixed', (True, 1, 4), {'overflow': 'OVERFLOW'}),
        ('smfixed', (-1, 5), {'overflow': 'SATURATE'}),
        ('exp', (4, 0), {}),
    ]


FMA_QUICK_SPECS = (1, 5, 9, 14, 18)       # mp(2), mps(3,-1), ieee(2,5), mpfixed(-2), fixed(True,-2,6)
OP_ORDER = list(O.OPS)


def shards(tier, seed):
    T = tier == 'thorough'
    specs = target_specs()
    out = []
    for op in OP_ORDER:
        ar = O.ARITY[op]
        if ar == 1:
            out.append(('exh', op, None, 0, 1, tier))          # all specs in one shard
        elif ar == 2:
            for si in range(len(specs)):
                nch = 4 if T else 1
                for ch in range(nch):
                    out.append(('exh', op, si, ch, nch, tier))
        else:
            for si in range(len(specs)):
                if not T and si not in FMA_QUICK_SPECS:
                    continue
                nch = 16 if T else 4
                for ch in range(nch):
                    out.append(('exh', op, si, ch, nch, tier))
    for op in OP_ORDER:
        out.append(('real', op, tier))
    for op in OP_ORDER:
        out.append(('nd', op, tier))
    nh = 64 if T else 24
    out += [('hyp', i, tier, seed) for i in range(nh)]
    return out


# ---------------------------------------------------------------------------
# carriers

def is_dyadic(q: Fraction) -> bool:
    d = q.denominator
    return d & (d - 1) == 0


def carriers_for(d):
    """Names of the carriers that can hold denotation d."""
    if d == NAN:
        return ['Float', 'float', 'Float-NaN']
    if d in (PINF, NINF):
        return ['Float', 'float']
    if d == PZERO:
        return ['Float', 'float', 'int', 'Fraction', 'Float*8']
    if d == NZERO:
        return ['Float', 'float', 'Float*8']
    if not is_dyadic(d):
        return ['Fraction']
    out = ['Float', 'Fraction', 'Float*8']
    if d.denominator == 1:
        out.append('int')
    try:
        if Fraction(float(d)) == d:
            out.append('float')
    except OverflowError:
        pass
    return out


def make_obj(d, carrier):
    if carrier == 'Float':
        return to_float_obj(d)
    if carrier == 'Float-NaN':
        return Float(s=True, isnan=True)
    if carrier == 'Float*8':
        f = to_float_obj(d)
        return Float(s=f.s, c=f.c << 3, exp=f.exp - 3)
    if carrier == 'float':
        if d == NAN:
            return float('nan')
        if d == PINF:
            return float('inf')
        if d == NINF:
            return float('-inf')
        if d == PZERO:
            return 0.0
        if d == NZERO:
            return -0.0
        return float(d)
    if carrier == 'int':
        return 0 if d == PZERO else int(d)
    if carrier == 'Fraction':
        return Fraction(0) if d == PZERO else Fraction(d)
    raise ValueError(carrier)


def unshow(v):
    if isinstance(v, str) and v in (NAN, PINF, NINF, PZERO, NZERO):
        return v
    return Fraction(v)


def unshow_cfg(v):
    if isinstance(v, str) and v not in MODES and v not in F.OV and v not in (NAN, PINF, NINF, PZERO, NZERO):
        return Fraction(v)
    return v


def mk_label(spec):
    kind, args, kw = spec
    return [kind, [show(a) if isinstance(a, Fraction) else a for a in args],
            {k: (show(v) if isinstance(v, Fraction) else v) for k, v in kw.items()}]


# ---------------------------------------------------------------------------
# classification of the exact result against the target grid

def classify(m, v):
    """(non-trivial?, classes) for a finite non-zero exact result v (Fraction or Root) under m."""
    cl = []
    if m.kind == 'real':
        return True, cl
    if isinstance(v, O.Root):
        cl.append('irrational')
        p, nmin = (1, None) if m.kind == 'exp' else (m.p, m.nmin)
        v = O.surrogate(v, p, nmin)
    if m.kind == 'exp':
        if v <= 0 or v != pow2(floor_log2(v)):
            cl.append('inexact')
            return True, cl
        return not (m.nmin <= floor_log2(v) <= m.p_emax), cl
    a = abs(v)
    lo, hi = neighbours(a, m.p, m.nmin)
    nt = False
    if lo != hi:
        nt = True
        cl.append('inexact')
        rem = (a - lo) / (hi - lo)
        if rem == HALF:
            cl.append('tie')
        else:
            dist = min(rem, abs(rem - HALF), 1 - rem)
            if dist <= Fraction(1, 8):
                cl.append('dr')           # a (p+2)-digit intermediate without a sticky bit would be wrong
                if dist <= Fraction(1, 64):
                    cl.append('dr-deep')
    if m.pos_max is not None:
        mx = m.pos_max if v > 0 else -m.neg_max
        if hi > mx:
            cl.append('overflow')
            nt = True
    if m.p is not None and m.nmin is not None and a < pow2(m.nmin + m.p):
        cl.append('subnormal')
    return nt, cl


def engine_path(op, m, dens):
    if m.kind == 'real':
        return 'real-ctx'
    if O.OPS[op].family == 'rint':
        return 'rint'
    if any(isinstance(d, Fraction) and not is_dyadic(d) for d in dens):
        return 'rational-operand'
    return 'float-ctx' if m.p is not None else 'fixed-ctx'


# ---------------------------------------------------------------------------
# one evaluation

def evaluate(res: Result, op, ctx, m, label, dens, cars, ex=None, extra_classes=(), nt_key=None, sample_every=9973,
             precl=None, objs=None):
    """Runs fpy2.ops.<op>(*operands, ctx=ctx) and compares with the oracle.  `ex` may carry the
    precomputed O.Exact record for (op, dens, m.rm)."""
    info = O.OPS[op]
    if op == 'nearbyint' or ex is None:
        o = O.expect_op(m, op, dens)
        if o is None:
            res.skip('no exact reference (pow with non-integer exponent)')
            return
    else:
        o = O.round_exact(m, ex)
    exr = o.exact
    if objs is None:
        objs = [make_obj(d, c) for d, c in zip(dens, cars)]
    fn = getattr(fp.ops, info.fpy)
    try:
        r, exc = fn(*objs, ctx=ctx), None
    except EXC as e:
        r, exc = None, type(e).__name__
    nondy = any(isinstance(d, Fraction) and not is_dyadic(d) for d in dens)
    if exc in ('NotImplementedError',) or (exc == 'RuntimeError' and op == 'nearbyint' and m.kind == 'real'):
        if m.kind == 'real':
            res.skip(f'not offered under REAL: {op}')
            return
        if nondy:
            res.skip(f'not offered for a non-dyadic Fraction operand: {op}')
            return
    res.case()
    # ---- classes / non-triviality
    special = any(isinstance(d, str) for d in dens)
    classes = list(extra_classes)
    nt = False
    if special:
        classes.append('special')
        nt = True
    if nondy:
        classes.append('nondyadic')
    if m.kind == 'real':
        classes.append('real')
        nt = True
    if o.open:
        classes.append('open')
        res.count(f'open: {o.open}')
    if o.raises and not o.values:
        classes.append('raises')
    if precl is not None:
        nt2, cl2 = precl
        nt = nt or nt2
        classes += cl2
    elif len(exr.values) == 1 and (isinstance(exr.values[0], (Fraction, O.Root))):
        v = exr.values[0]
        if op == 'nearbyint':
            v = dens[0]
        nt2, cl2 = classify(m, v)
        nt = nt or nt2
        classes += cl2
    for c in classes:
        res.cls(c)
    case = {'op': op, 'ctx': label, 'args': [[c, show(d)] for d, c in zip(dens, cars)]}
    if nt:
        res.nontrivial(nt_key)
        if res.evaluations % sample_every == sample_every // 3:
            res.sample(dict(case, exact=str(exr.values[0]), classes=classes), nt=True)
    elif res.evaluations % sample_every == sample_every // 2:
        res.sample(dict(case, exact=str(exr.values[0]), classes=classes))
    # ---- verdict
    got = None
    if exc is not None:
        why = check_outcome(o, raised=exc)
        got = f'raised {exc}'
    elif isinstance(r, Float):
        gd = den(r)
        chk_flags = info.family != 'rint' or op == 'nearbyint'
        why = check_outcome(o, gd, r.inexact if chk_flags else o.inexact, r.overflow if chk_flags else o.overflow)
        got = {'value': show(gd), 'inexact': r.inexact, 'overflow': r.overflow}
        if why is None:
            # invalid / divzero as documented in ops._normalize: counted, not judged
            if m.kind in ('mp', 'mps') and info.family != 'rint':
                if gd == NAN and bool(r.invalid) != bool(o.op_invalid):
                    res.count(f'note: invalid flag differs from IEEE ({op})')
                if gd in (PINF, NINF) and bool(r.divzero) != bool(o.op_divzero):
                    res.count(f'note: divzero flag differs from IEEE ({op})')
    elif isinstance(r, Fraction) and m.kind == 'real':
        gd = den(r)
        why = check_outcome(o, gd, o.inexact, o.overflow)
        got = {'value': show(gd), 'type': 'Fraction'}
    else:
        why, got = 'result is neither Float nor Fraction', repr(r)
    if why is not None:
        ovm = f':{m.overflow}' if 'overflow' in o.why else ''
        bucket = f'{op}/{engine_path(op, m, dens)}/{exr.kind}->{o.why}{ovm}/{why}'
        res.fail(bucket, case, expected={'values': sorted(show(v) for v in o.values), 'raises': sorted(o.raises),
                                         'inexact': o.inexact, 'overflow': o.overflow,
                                         'exact': [str(v) for v in exr.values]}, got=got)


def pick_carriers(dens, salt):
    out = []
    for i, d in enumerate(dens):
        cs = carriers_for(d)
        out.append(cs[(salt + 3 * i) % len(cs)] if (salt + i) % 3 == 0 else cs[0])
    return out


# ---------------------------------------------------------------------------
# exhaustive layer

def build_modes(spec):
    """[(ctx, model, label)] for the 8 rounding modes (constructor rejections dropped)."""
    kind, args, kw = spec
    out = []
    for rm in MODES:
        s = (kind, args, dict(kw, rm=rm))
        try:
            ctx, m = F.build(s)
        except (ValueError, TypeError):
            continue
        out.append((ctx, m, mk_label(s)))
    return out


def source_for(op, si, tier):
    if tier == 'thorough':
        return src_values(3, 7)
    k = OP_ORDER.index(op)
    return src_values(3, 6) if (si + k) % 3 == 0 else src_values(2, 5)


def fma_triples(tier):
    T = tier == 'thorough'
    B = src_values(2, 5)
    A = src_values(3, 6) if not T else src_values(3, 7)
    out = []
    out += [(a, b, c) for a in B for b in B for c in B]
    seen = set(out)
    fin = [a for a in A if isinstance(a, Fraction)]
    for a in fin:
        for b in fin:
            p = a * b
            cs = set()
            for rm in ('RNE', 'RTZ', 'RAZ'):
                r, _, _ = round_real(p, 3 if not T else 4, None, rm)
                u = pow2(floor_log2(abs(r)) - (2 if not T else 3))
                cs |= {-r, -r + u, -r - u, -r + u / 2}
            cs.add(-p)
            for c in sorted(cs):
                if c != 0 and (a, b, c) not in seen:
                    seen.add((a, b, c))
                    out.append((a, b, c))
    return out


def tuples_for(op, si, tier):
    ar = O.ARITY[op]
    if ar == 3:
        return fma_triples(tier)
    S = source_for(op, si if si is not None else 0, tier)
    if ar == 1:
        return [(a,) for a in (src_values(3, 7) if tier == 'thorough' else src_values(3, 6))]
    out = [(a, b) for a in S for b in S]
    if O.OPS[op].family == 'rem':
        # quotients far beyond the precision of either operand (the integer quotient must be exact)
        fin = [a for a in src_values(2, 5) if isinstance(a, Fraction)]
        out += [(a * k, b) for k in (2049, (1 << 40) + 1, (1 << 90) - 1) for a in fin for b in fin]
    return out


def run_exh(res: Result, op, si, ch, nch, tier):
    specs = target_specs()
    sis = range(len(specs)) if si is None else [si]
    for sj in sis:
        modes = build_modes(specs[sj])
        if not modes:
            res.skip('constructor rejected')
            continue
        res.count('contexts', len(modes))
        tuples = tuples_for(op, sj, tier)
        m0 = modes[0][1]
        for ti, t in enumerate(tuples):
            if ti % nch != ch:
                continue
            ex_any = O.ref(op, t, 'RNE')
            if ex_any is None:
                res.skip('no exact reference (pow with non-integer exponent)', len(modes))
                continue
            ex_rtn = O.ref(op, t, 'RTN')
            cars = pick_carriers(t, ti)
            precl = None
            if op != 'nearbyint' and len(ex_any.values) == 1 and isinstance(ex_any.values[0], (Fraction, O.Root)):
                precl = classify(m0, ex_any.values[0])
            elif op != 'nearbyint':
                precl = (False, [])
            objs = [make_obj(d, c) for d, c in zip(t, cars)]
            for ctx, m, label in modes:
                evaluate(res, op, ctx, m, label, t, cars, ex=ex_rtn if m.rm == 'RTN' else ex_any, precl=precl, objs=objs)


def run_real(res: Result, op, tier):
    ctx, m = F.build(('real', (), {}))
    label = ['real', [], {}]
    ar = O.ARITY[op]
    S = src_values(3, 7) if tier == 'thorough' else src_values(3, 6)
    S = S + NONDYADIC
    if ar == 3:
        B = src_values(2, 5) + NONDYADIC[:2]
        tuples = [(a, b, c) for a in B for b in B for c in B]
    elif ar == 2:
        tuples = [(a, b) for a in S for b in S]
    else:
        tuples = [(a,) for a in S]
    for ti, t in enumerate(tuples):
        evaluate(res, op, ctx, m, label, t, pick_carriers(t, ti), sample_every=997)


DYADIC_FRACTIONS = [Fraction(3, 4), Fraction(-5, 2), Fraction(3), Fraction(0)]


def run_nd(res: Result, op, tier):
    """Operand tuples with at least one `Fraction` carrier (non-dyadic: exact-rational engine; dyadic:
    converted on entry) combined with every member of the small source incl. +-0, +-inf, NaN as
    Float/float operands, in every argument position, under every target."""
    specs = target_specs()
    ar = O.ARITY[op]
    B = src_values(2, 5) if tier != 'thorough' else src_values(3, 6)
    FR = [(q if q != 0 else PZERO, 'Fraction') for q in NONDYADIC + DYADIC_FRACTIONS]
    BA = [(d, ('Float', 'float')[i % 2]) for i, d in enumerate(B)]
    if ar == 1:
        tuples = [(a,) for a in FR]
    elif ar == 2:
        tuples = [(a, b) for a in FR for b in BA] + [(b, a) for a in FR for b in BA] + [(a, b) for a in FR for b in FR]
    else:
        Z = [(d, 'Float') for d in (PZERO, NZERO, PINF, NINF, NAN, Fraction(1), Fraction(-3, 2), Fraction(1, 4), Fraction(-3))]
        F3, F2 = FR[:3] + FR[5:7], FR[:2] + FR[5:6]
        tuples = [(a, b, c) for a in F3 for b in Z + F2 for c in Z + F3]
        tuples += [(b, a, c) for a in F2 for b in Z for c in Z + F2[:1]]
        tuples += [(b, c, a) for a in F2 for b in Z for c in Z]
        tuples += [((a, 'Fraction'), (1 / a, 'Fraction'), (Fraction(-1), 'Float')) for a in NONDYADIC]
        tuples += [((a, 'Fraction'), (Fraction(3), 'Float'), (-3 * a, 'Fraction')) for a in NONDYADIC]
    for sj, spec in enumerate(specs):
        modes = build_modes(spec)
        if not modes:
            continue
        m0 = modes[0][1]
        for ti, tc in enumerate(tuples):
            t = tuple(d for d, _ in tc)
            cars = [c for _, c in tc]
            ex_any = O.ref(op, t, 'RNE')
            if ex_any is None:
                res.skip('no exact reference (pow with non-integer exponent)', len(modes))
                continue
            ex_rtn = O.ref(op, t, 'RTN')
            precl = None
            if op != 'nearbyint':
                precl = (False, [])
                if len(ex_any.values) == 1 and isinstance(ex_any.values[0], (Fraction, O.Root)):
                    precl = classify(m0, ex_any.values[0])
            objs = [make_obj(d, c) for d, c in zip(t, cars)]
            for ctx, m, label in modes:
                evaluate(res, op, ctx, m, label, t, cars, ex=ex_rtn if m.rm == 'RTN' else ex_any, sample_every=1499,
                         extra_classes=('fraction-carrier',), precl=precl, objs=objs)


# ---------------------------------------------------------------------------
# Hypothesis layer

def iroot_frac(v: Fraction, k: int, bits: int) -> Fraction:
    """floor-ish k-th root of v > 0 with ~`bits` significant bits (dyadic)."""
    e = floor_log2(v) // k
    s = bits - e
    t = v * pow2(k * s)
    return Fraction(O.iroot(t.numerator // t.denominator, k)) * pow2(-s)


def round_dyadic(q: Fraction, bits: int) -> Fraction:
    r, _, _ = round_real(q, bits, None, 'RNE')
    return r


def hyp_target(kind, a, b, c, rm, ov):
    """Target spec from drawn integers."""
    if kind == 'mp':
        return ('mp', (1 + a % 120,), dict(rm=rm))
    if kind == 'mps':
        return ('mps', (1 + a % 120, b % 1200 - 1100), dict(rm=rm))
    if kind == 'ieee':
        es = 2 + a % 14
        return ('ieee', (es, es + 2 + b % 120), dict(rm=rm, overflow=ov if ov != 'WRAP' else 'OVERFLOW'))
    if kind == 'std':
        es, nb = [(5, 16), (8, 32), (11, 64), (8, 16), (4, 8), (5, 8), (15, 128)][a % 7]
        return ('ieee', (es, nb), dict(rm=rm))
    if kind == 'mpb':
        p = 1 + a % 60
        emin = b % 400 - 300
        span = c % 200
        sig = ((c >> 8) % (1 << p)) | (1 << (p - 1))
        return ('mpb', (p, emin, Fraction(sig) * pow2(emin + span - p + 1)), dict(rm=rm, overflow=ov if ov != 'WRAP' else 'SATURATE'))
    if kind == 'mpfixed':
        return ('mpfixed', (a % 260 - 200,), dict(rm=rm, enable_nan=bool(b & 1), enable_inf=bool(b & 2)))
    if kind == 'mpbfixed':
        nmin = a % 260 - 200
        return ('mpbfixed', (nmin, (1 + b % (1 << 40)) * pow2(nmin + 1)), dict(rm=rm, overflow=ov))
    if kind == 'fixed':
        return ('fixed', (bool(a & 1), b % 80 - 60, 2 + c % 13), dict(rm=rm, overflow=ov))
    if kind == 'real':
        return ('real', (), {})
    raise ValueError(kind)


def breakpoint_of(m, where, sig, esel, t):
    """A positive value at / next to a breakpoint of the target grid: (value, ulp)."""
    p = m.p
    if p is not None:
        cfull = ((sig % (1 << p)) | (1 << (p - 1))) if p > 1 else 1
        lo_e = (m.nmin + p) if m.nmin is not None else -80
        hi_e = floor_log2(m.pos_max) if m.pos_max else lo_e + 160
        e = lo_e + esel % max(1, hi_e - lo_e + 1)
        ulp = pow2(e - p + 1)
        g = cfull * ulp
        if where.startswith('sub') and m.nmin is not None:
            ulp = pow2(m.nmin + 1)
            g = (sig % (1 << (p - 1)) if p > 1 else 0) * ulp
    else:
        ulp = pow2(m.nmin + 1)
        top = int(m.pos_max / ulp) if m.pos_max else 1 << 50
        g = (sig % (top + 1)) * ulp
    if where.startswith('max') and m.pos_max:
        g = m.pos_max
        if p is not None:
            ulp = pow2(floor_log2(g) - p + 1) if g > 0 else ulp
    tiny = ulp / (1 << t)
    tail = where.split(':')[1]
    v = g + {'grid': 0, 'grid+': tiny, 'grid-': -tiny, 'mid': ulp / 2, 'mid+': ulp / 2 + tiny, 'mid-': ulp / 2 - tiny,
             'third': ulp / 3}[tail]
    if v <= 0:
        v = ulp / 2 + tiny
    return v, ulp


DR_OPS = ['add', 'sub', 'mul', 'div', 'fma', 'fdim', 'sqrt', 'cbrt', 'hypot', 'fmod', 'remainder', 'mod', 'pow', 'neg', 'abs',
          'copysign', 'ceil', 'floor', 'trunc', 'roundint', 'nearbyint']


def solve(op, v, ulp, r1, r2, r3, nd, neg):
    """Operand tuple (denotations) whose exact result is v, or v*(1+delta) with |delta| ~ 2^-220.
    v > 0; may be non-dyadic (the 'third' variant).  Returns None when the construction does not apply."""
    k = 1 + r1 % 190
    a = Fraction((r2 % (1 << k)) | 1) * pow2((r3 % 121) - 60 + floor_log2(v) - k)     # unrelated precision, nearby magnitude
    if nd:
        a = a / 3
    if neg & 1:
        a = -a
    s = -1 if neg & 2 else 1
    vd = is_dyadic(v)
    if op == 'add':
        return (a, s * v - a) if s * v != a else None
    if op == 'sub':
        return (s * v + a, a)
    if op == 'mul':
        y = s * v / a
        if not nd and not is_dyadic(y):
            y = round_dyadic(y, 230)
        return (a, y)
    if op == 'div':
        x = s * v * a
        if r1 & 1 and is_dyadic(x):
            x += pow2(floor_log2(abs(x)) - 240)
        return (x, a)
    if op == 'fma':
        b = Fraction((r3 % (1 << (1 + r2 % 60))) | 1) * pow2(r1 % 41 - 20)
        z = s * v - a * b
        return (a, b, z) if z != 0 else (a, b, PZERO)
    if op == 'fdim':
        return (v + a, a)
    if op == 'sqrt':
        if not vd:
            return None
        x = v * v
        if r1 % 3:
            x += (1 if r1 % 3 == 1 else -1) * pow2(floor_log2(x) - 200 - r2 % 60)
        return (x,)
    if op == 'cbrt':
        if not vd:
            return None
        x = v ** 3
        if r1 % 3:
            x += (1 if r1 % 3 == 1 else -1) * pow2(floor_log2(x) - 200 - r2 % 60)
        return (s * x,)
    if op == 'hypot':
        if not vd:
            return None
        if r1 % 2 == 0 and v.numerator % 5 == 0:
            return (s * 3 * v / 5, -4 * v / 5) if r1 & 4 else (4 * v / 5, s * 3 * v / 5)      # exact: hypot = v
        if r1 % 2 == 0 and v.numerator % 13 == 0:
            return (s * 5 * v / 13, 12 * v / 13)
        y = pow2(floor_log2(v) - 20 - r2 % 80)
        return ((s * v, y) if r1 & 8 else (y, s * v))
    if op in ('fmod', 'remainder', 'mod'):
        if not vd:
            return None
        y = abs(a) + (3 * v if op == 'remainder' else v)
        if not is_dyadic(y):
            return None
        q = r3 % (1 << (r1 % 50))
        if op == 'remainder' and r1 & 1:
            # result on the far side: x = q*y - v  ->  remainder = -v
            return (s * (q * y - v), (-y if neg & 1 else y)) if q > 0 else (s * v, y)
        if op == 'mod':
            return ((q - (r1 & 1) * 2 * q) * y + v, y) if not (neg & 2) else ((q - (r1 & 1) * 2 * q) * (-y) - v, -y)
        return (s * (q * y + v), (-y if neg & 1 else y))
    if op == 'pow':
        n = [2, 3, 4, 5, -1, -2, -3, 6][r1 % 8]
        if n > 0:
            x = iroot_frac(v, n, 230)
        else:
            x = round_dyadic(1 / iroot_frac(v, -n, 230), 230)
        sx = -x if (neg & 2) else x
        return (sx, Fraction(n))
    if op == 'neg':
        return (-s * v,) if vd else None
    if op == 'abs':
        return (s * v,)
    if op == 'copysign':
        return (s * v, Fraction(neg & 1 and -3 or 3))
    if op in ('ceil', 'floor', 'trunc', 'roundint'):
        if v.denominator != 1:
            return None
        f = Fraction((r2 % 1023) + 1, 2048)              # in (0, 1/2)
        if op == 'ceil':
            return (s * v - f,)                 # ceil(v - f) = v ; ceil(-v - f) = -v
        if op == 'floor':
            return (s * v + f,)                 # floor(v + f) = v ; floor(-v + f) = -v
        if op == 'trunc':
            return (s * (v + f),)
        if r1 % 5 == 0:
            return (s * (v - HALF),)            # tie: rounds away from zero to +-v
        return (s * (v + f),) if r1 & 1 else (s * (v - f),)
    if op == 'nearbyint':
        return (s * v,)
    return None


def run_hyp(res: Result, idx, tier, seed):
    import hypothesis
    from hypothesis import HealthCheck, Phase, given, settings
    from hypothesis import strategies as st

    T = tier == 'thorough'
    n_examples = 2000 if T else 600
    big = st.integers(0, (1 << 200) - 1)
    small = st.integers(0, (1 << 30) - 1)

    @st.composite
    def case(draw):
        mode = draw(st.sampled_from(['dr', 'dr', 'wide']))
        kind = draw(st.sampled_from(['mp', 'mps', 'ieee', 'std', 'mpb', 'mpfixed', 'mpbfixed', 'fixed', 'real']))
        rm = draw(st.sampled_from(MODES))
        ov = draw(st.sampled_from(['OVERFLOW', 'SATURATE', 'WRAP']))
        ints = [draw(small) for _ in range(8)]
        bigs = [draw(big) for _ in range(4)]
        if mode == 'dr':
            op = draw(st.sampled_from(DR_OPS))
            where = draw(st.sampled_from(['n', 'n', 'n', 'sub', 'max'])) + ':' + draw(
                st.sampled_from(['grid', 'grid+', 'grid-', 'mid', 'mid+', 'mid-', 'mid+', 'mid-', 'third']))
        else:
            op = draw(st.sampled_from(OP_ORDER))
            where = ''
        return mode, kind, rm, ov, op, where, ints, bigs

    def wide_operand(op, pos, ints, bigs, m):
        """One operand of unrelated precision/exponent; returns a denotation."""
        r = ints[pos] ^ (ints[pos + 3] << 1)
        sel = r % 16
        if sel == 0:
            return [PZERO, NZERO, PINF, NINF, NAN][(r >> 4) % 5]
        k = 1 + (r >> 4) % 200
        c = (bigs[pos] % (1 << k)) | (1 << (k - 1))
        erange = 40 if op in ('pow',) else (1200 if m.kind != 'real' and op in ('add', 'sub', 'mul', 'div', 'fma') else 300)
        e = (r >> 12) % (2 * erange + 1) - erange
        q = Fraction(c) * pow2(e - k + 1)
        if sel == 1:
            q = q / [3, 5, 7, 9, 11][(r >> 5) % 5]
        elif sel == 2:
            q = Fraction(int(q)) if q >= 1 else Fraction(c % 1000 + 1)      # integer
        elif sel == 3:
            q = Fraction(float(Fraction((c % (1 << 53)) | 1) * pow2(e % 600 - 300 - 53)))   # a Python float value
        if (r >> 3) & 1:
            q = -q
        return q

    hres = res

    @hypothesis.seed(h64(seed, idx, 'C02') % (1 << 32))
    @settings(max_examples=n_examples, deadline=None, database=None, derandomize=False,
              report_multiple_bugs=False, phases=[Phase.generate], suppress_health_check=list(HealthCheck))
    @given(case())
    def prop(cs):
        mode, kind, rm, ov, op, where, ints, bigs = cs
        spec = hyp_target(kind, ints[0], ints[1], ints[2], rm, ov)
        try:
            ctx, m = F.build(spec)
        except (ValueError, TypeError):
            hres.skip('constructor rejected (hyp)')
            return
        label = mk_label(spec)
        extra = ['hyp']
        if mode == 'dr' and m.kind != 'real':
            v, ulp = breakpoint_of(m, where, bigs[0], ints[3], 1 + ints[4] % 160)
            nd = (ints[5] % 5 == 0) and op in ('add', 'sub', 'mul', 'div', 'fma')
            dens = solve(op, v, ulp, ints[5], bigs[1], ints[6], nd, ints[7])
            if dens is None:
                hres.skip('dr construction not applicable')
                return
            dens = tuple(PZERO if (isinstance(d, Fraction) and d == 0) else d for d in dens)
            extra.append('dr-directed')
        else:
            dens = tuple(wide_operand(op, i, ints, bigs, m) for i in range(O.ARITY[op]))
            if op == 'pow':
                y = dens[1]
                if isinstance(y, Fraction):
                    n = (ints[6] % 25) - 12
                    dens = (dens[0], Fraction(n) if n else PZERO)
            if op in ('fmod', 'mod', 'remainder') and all(isinstance(d, Fraction) for d in dens):
                if abs(floor_log2(abs(dens[0])) - floor_log2(abs(dens[1]))) > 4000:
                    hres.skip('quotient too large')
                    return
            extra.append('wide')
        cars = pick_carriers(dens, ints[7])
        evaluate(hres, op, ctx, m, label, dens, cars, extra_classes=extra,
                 nt_key=(op, label, [show(d) for d in dens], cars), sample_every=401)

    prop()


# ---------------------------------------------------------------------------

def run_shard(shard):
    res = Result()
    k = shard[0]
    if k == 'exh':
        _, op, si, ch, nch, tier = shard
        run_exh(res, op, si, ch, nch, tier)
    elif k == 'real':
        run_real(res, shard[1], shard[2])
    elif k == 'nd':
        run_nd(res, shard[1], shard[2])
    else:
        _, idx, tier, seed = shard
        run_hyp(res, idx, tier, seed)
    return res


def selftest():
    O.selftest()
    # the mirrored targets are what we think they are
    _, m = F.build(('mps', (3, -1), dict(rm='RNE')))
    assert (m.p, m.nmin) == (3, -4)
    _, m = F.build(('ieee', (2, 5), dict(rm='RNE')))
    assert (m.p, m.nmin, m.pos_max) == (3, -3, Fraction(7, 2)), m
    assert len(src_values(3, 6)) == 59 and len(src_values(3, 7)) == 115 and len(src_values(2, 5)) == 27
    # solve() really produces the requested exact result
    v = Fraction(13, 8)
    for op in ('add', 'sub', 'div', 'fdim', 'fma'):
        t = solve(op, v, Fraction(1, 8), 12345, 987654321, 777, False, 1)
        ex = O.ref(op, t)
        assert abs(abs(ex.value) / v - 1) < pow2(-200), (op, t, ex)
    t = solve('mul', v, Fraction(1, 8), 12345, 987654321, 777, False, 0)
    assert abs(O.ref('mul', t).value / v - 1) < pow2(-200)
    t = solve('pow', v, Fraction(1, 8), 12345, 987654321, 777, False, 0)
    assert abs(O.ref('pow', t).value / v - 1) < pow2(-200), t
    for op in ('fmod', 'remainder', 'mod'):
        t = solve(op, v, Fraction(1, 8), 12346, 987654321, 777, False, 0)
        assert abs(O.ref(op, t).value) == v, (op, t)


def replay(case):
    res = Result()
    kind, args, kw = case['ctx']
    args = tuple(unshow_cfg(a) if isinstance(a, str) else a for a in args)
    kw = {k: unshow_cfg(v) for k, v in kw.items()}
    ctx, m = F.build((kind, args, kw))
    dens = tuple(unshow(d) for _, d in case['args'])
    cars = [c for c, _ in case['args']]
    evaluate(res, case['op'], ctx, m, case['ctx'], dens, cars)
    return [f for fl in res.failures.values() for f in fl]
