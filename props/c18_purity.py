"""
C18 -- Evaluation is pure, isolated from the caller and reentrant.

Three sub-checks (shard kinds):

 (a) 'iso'    ISOLATION.  Generated programs (vlib.c18_gen.IsoGen on top of vlib.progen) take lists, rows
              (list[list[real]]), tuples holding lists and numbers (incl. Float / RealFloat objects), mutate
              them through aliases / destructured tuples / row aliases / helpers, and return parameters,
              aliases, slices and tuples or lists holding the same list twice.  Oracle: a deep snapshot
              (structure, values, object identity of every container and number) of the arguments is the
              same before and after the call; no list object reachable from the result is reachable from
              the arguments; writing to every list of the result afterwards leaves the arguments
              untouched; the result equals the reference evaluator's (vlib.refeval); a second call with
              equal arguments gives the same result.
 (b) 'hist'   HISTORIES.  A Hypothesis RuleBasedStateMachine drives ONE process-wide fpy2 state through
              define-module / evaluate / re-evaluate / transform-and-evaluate / fresh-vs-default interpreter /
              same-named function of another module / noise under stochastic, high-precision and other
              contexts (incl. the caller changing gmpy2's ambient context) / set_default_interpreter /
              caller-mutates-an-old-result.  Model: dict (function, args, ctx) -> result, filled from
              vlib.refeval (history-free by construction), or from the first evaluation where refeval
              declines.  Every evaluation must equal its model entry whatever preceded it; one old triple
              is re-evaluated after every step (invariant).
 (c) 'sched'  SCHEDULES.  2-3 threads run evaluation tasks (same Function objects, different contexts /
              rounding modes / precisions, MPFR-heavy operations at 200+ digits, `with` blocks) under the
              harness-owned line-granular scheduler vlib.c18_sched; each task's result must equal its
              sequential result.  Thorough adds a free-running 16-thread stress layer ('stress').
"""

from __future__ import annotations

import copy
import hashlib
import json
import os
import random
import signal
import subprocess
import sys
from fractions import Fraction

import fpy2 as fp
from fpy2.interpret import BytecodeInterpreter, get_default_interpreter, set_default_interpreter
from fpy2.number import Float, RealFloat

from vlib import c18_gen, progen, refeval
from vlib.c18_sched import Scheduler, SchedulerStall, run_free
from vlib.denote import deep_den
from vlib.load import load_module, unload
from vlib.runner import Result, h64, jsonable

PROPERTY = 'C18'
LEVEL = 'exploration'
RULE = ('(a) isolation: generated programs over list / rows / tuple-holding-list / number arguments that store through '
        'parameters, aliases, row aliases, destructured tuples and helpers and return parameters, aliases, slices, the same '
        'list twice; 3 argument tuples each; non-trivial = the reference run writes to a list reachable from the arguments. '
        '(b) histories: Hypothesis state machine, <= 30 steps over one process-wide state, rules define / evaluate / re-evaluate / '
        'transform (simplify, close, inline, unroll_for, unroll_while, elim_iter, split) / fresh-or-shared-alternate '
        'interpreter / noise (stochastic, 700+ bit, REAL, gmpy2 ambient context) / set_default_interpreter / caller mutates an '
        'old result / the caller writes to every list of a returned value right away / context sweeps (the same function and '
        'arguments under float and fixed-point contexts of several precisions and least digits in a drawn order, then the original '
        'triple again) / direct roundings of non-dyadic rationals under fixed-point contexts; a first evaluation that disagrees with '
        'the reference is re-run in a brand-new process to tell history dependence from a semantic disagreement; programs bind, '
        'store into and return range / zip / enumerate / slice / comprehension / constant-literal lists; '
        'programs from progen with and without captured module-level lists, rows and tuples (read-only and '
        'alias-mutating profiles); non-trivial = history with >= 1 transformation and >= 2 evaluations of one triple separated by '
        'other evaluations. (c) schedules: 2-3 threads x 2-4 tasks on shared Function objects with different contexts, '
        'Hypothesis-drawn quanta of line events (any / hot-code only); non-trivial = >= 3 switches while the pre-empted thread is '
        'inside an fpy2.ops call. Distinct by (program hash, inputs / step list / schedule).')
ASSUMPTIONS = [
    'Reference evaluator vlib/refeval.py (documented semantics, exact rational arithmetic, independent rounding oracle) gives the '
    'history-free value of (function, arguments, context); where it declines (ambiguous / unsupported / stuck) the first '
    'evaluation is the model and only consistency is demanded.',
    'A captured module-level list behaves like the literal that `fp.strategies.close` materialises at function entry: every call '
    'starts from the value the capture had at definition time (each function owns its captures; in the mutating profile only '
    '`main` touches them, so the reading is unambiguous).',
    'Transformed copies are checked for consistency with their own first evaluation (cross-checked between the default and a '
    'fresh interpreter); agreement of a transformed copy with the original is the business of C07-C09 and is only counted.',
    '"Isolated from the caller" is also read as: an evaluation leaves the calling thread\'s ambient gmpy2 context (precision, '
    'rounding, exponent range, traps) as it found it.  The converse -- the Python caller reconfiguring gmpy2 between evaluations -- '
    'is exercised for precision / rounding only; narrowing the ambient exponent range DOES change results (the exact Float -> mpfr '
    'conversion in gmputils.float_to_mpfr reads the ambient emin/emax) but is not an "earlier evaluation or transformation", so '
    'it is outside the quantifier and not drawn.',
    '(c) explores Python-line-granular interleavings only: the scheduler switches threads on line events of traced frames; '
    'C-extension internals (gmpy2 / MPFR calls, dict operations) are atomic to it.  "Every interleaving" is sampled, not exhausted.  '
    'The free-running stress layer (thorough: sys.setswitchinterval(1e-6), 16 threads) is a smoke test: a disagreement is a '
    'violation, its silence proves little.',
    'Sequential result of a task = its outcome when run alone before the threads start (same tree); the tasks\' programs contain '
    'no `while` loops so that termination cannot depend on a leaked context.',
    'A scheduler stall (a thread not handed the baton for 60 s, or threads not joined within the budget) ends the run as a harness '
    'error (exit 2, inconclusive), never as a violation; the SIGALRM guard around evaluations / transformations (the code under '
    'test can hang: DESIGN F17) only ever produces counted skips.',
    'Arguments are Python int / float / Fraction / fpy2 Float / RealFloat, lists and tuples thereof (what to_value accepts as data).',
]
EXHAUSTIVE = {'quick': False, 'thorough': False}
FLOORS = {
    'quick': {'a:writes-param-list': 300, 'b:nontrivial-history': 40, 'c:>=3-switches-in-rounded-op': 100,
              'b:capture-mutating-evals': 50, 'c:switch-inside-mpfr-context-manager': 50},
    'thorough': {'a:writes-param-list': 5000, 'b:nontrivial-history': 500, 'c:>=3-switches-in-rounded-op': 1500,
                 'b:capture-mutating-evals': 500, 'c:switch-inside-mpfr-context-manager': 500, 'c:free-running-stress': 100},
}

N_ISO_INPUTS = 3


# ---------------------------------------------------------------------------
# time guard (the code under test can hang: DESIGN F17); never an oracle

class _Timeout(Exception):
    pass


def _alarm(signum, frame):
    raise _Timeout()


class guard:
    def __init__(self, seconds=20):
        self.seconds = seconds

    def __enter__(self):
        self.old = signal.signal(signal.SIGALRM, _alarm)
        signal.alarm(self.seconds)

    def __exit__(self, *exc):
        signal.alarm(0)
        signal.signal(signal.SIGALRM, self.old)
        return False


# ---------------------------------------------------------------------------
# argument encoding: plain JSON <-> fresh Python objects

def _fenc(v: float):
    return v.hex() if v == v and v not in (float('inf'), float('-inf')) else repr(v)


def _fdec(s: str):
    return float.fromhex(s) if s.startswith(('0x', '-0x')) else float(s)


def enc_arg(a):
    if isinstance(a, list):
        return {'L': [enc_arg(x) for x in a]}
    if isinstance(a, tuple):
        if len(a) == 2 and isinstance(a[0], str) and a[0] in ('F', 'RF'):
            return {a[0]: _fenc(float(a[1]))}
        return {'T': [enc_arg(x) for x in a]}
    if isinstance(a, bool):
        return {'b': a}
    if isinstance(a, Fraction):
        return {'q': f'{a.numerator}/{a.denominator}'}
    if isinstance(a, float):
        return {'f': _fenc(a)}
    if isinstance(a, int):
        return {'i': a}
    raise TypeError(a)


def enc_args(args):
    return [enc_arg(a) for a in args]


def dec_arg(a):
    """A FRESH Python object (new containers, new number objects) for the encoded argument."""
    if 'L' in a:
        return [dec_arg(x) for x in a['L']]
    if 'T' in a:
        return tuple(dec_arg(x) for x in a['T'])
    if 'b' in a:
        return a['b']
    if 'q' in a:
        return Fraction(a['q'])
    if 'f' in a:
        return _fdec(a['f'])
    if 'F' in a:
        return Float.from_float(_fdec(a['F']))
    if 'RF' in a:
        return Float.from_float(_fdec(a['RF'])).as_real()
    return a['i']


def dec_args(enc):
    return [dec_arg(a) for a in enc]


def ref_arg(a):
    """Denotation structure (for refeval) of an encoded argument."""
    from vlib.denote import den
    if 'L' in a:
        return [ref_arg(x) for x in a['L']]
    if 'T' in a:
        return tuple(ref_arg(x) for x in a['T'])
    if 'b' in a:
        return a['b']
    if 'q' in a:
        return den(Fraction(a['q']))
    if 'f' in a:
        return den(_fdec(a['f']))
    if 'F' in a:
        return den(_fdec(a['F']))
    if 'RF' in a:
        return den(_fdec(a['RF']))
    return den(a['i'])


def ctx_obj(text):
    return None if text is None else eval(text, {'fp': fp})


_REF_CTX = {}


def ref_ctx(text):
    if text is None:
        return None
    if text not in _REF_CTX:
        _REF_CTX[text] = refeval.Evaluator(f'_c = {text}\n').globals['_c']
    return _REF_CTX[text]


def run_reference(src, main, args_enc, ctx_text):
    """('value', den, wrote_params) | ('stuck', kind) | ('skip', why).  A new Evaluator per call: history-free."""
    try:
        ev = refeval.Evaluator(src)
        rargs = [ref_arg(a) for a in args_enc]
        before = copy.deepcopy(rargs)
        c = ref_ctx(ctx_text)
        v = ev.call(main, rargs, c if c is not None else refeval.fp64())
        return ('value', refeval.result_den(v), rargs != before)
    except refeval.Stuck as e:
        return ('stuck', e.kind)
    except refeval.Ambiguous:
        return ('skip', 'ambiguous')
    except refeval.Unsupported:
        return ('skip', 'unsupported')
    except refeval.Budget:
        return ('skip', 'budget')
    except RecursionError:
        return ('skip', 'recursion')


def src_hash(src):
    return hashlib.blake2b(src.encode(), digest_size=8).hexdigest()


def gmp_state():
    """The calling thread's ambient gmpy2 context, as the Python caller sees it."""
    import gmpy2
    g = gmpy2.get_context()
    return (g.precision, g.round, g.emin, g.emax, g.subnormalize, g.trap_inexact, g.trap_underflow, g.trap_overflow, g.trap_divzero)


def call_impl(fn, args, ctx_text, seconds=10):
    """('value', den, raw_result, leak) | ('raise', TypeName, msg, leak) | ('timeout',)
    leak: None, or (before, after) when the call changed the caller's ambient gmpy2 context."""
    g0 = gmp_state()
    try:
        with guard(seconds):
            r = fn(*args, ctx=ctx_obj(ctx_text))
        out = ('value', deep_den(r), r)
    except _Timeout:
        return ('timeout',)
    except Exception as e:      # outcome of the evaluation; compared with the model / part of the bucket
        out = ('raise', type(e).__name__, str(e)[:200])
    g1 = gmp_state()
    return out + ((None if g1 == g0 else (g0, g1)),)


def pristine_eval(src, main, args_enc, ctx_text, timeout=240):
    """Outcome of ONE evaluation in a brand-new Python process (no history at all), as repr text of ('value', den) /
    ('raise', TypeName); None when the subprocess could not answer (inconclusive)."""
    req = json.dumps({'src': src, 'main': main, 'args': args_enc, 'ctx': ctx_text})
    try:
        p = subprocess.run([sys.executable, '-c', 'from props.c18_purity import pristine_main; pristine_main()'],
                           input=req, capture_output=True, text=True, timeout=timeout,
                           cwd=os.path.dirname(os.path.dirname(os.path.abspath(__file__))))
    except (subprocess.TimeoutExpired, OSError):
        return None
    for line in p.stdout.splitlines():
        if line.startswith('C18-PRISTINE '):
            return line[len('C18-PRISTINE '):]
    return None


def pristine_main():
    req = json.loads(sys.stdin.read())
    mod = load_module(req['src'])
    got = call_impl(getattr(mod, req['main']), dec_args(req['args']), req['ctx'], seconds=120)
    print('C18-PRISTINE ' + (repr(got[:2]) if got[0] != 'timeout' else 'timeout'))


# ---------------------------------------------------------------------------
# (a) isolation

def snapshot(x):
    """Structure, values and object identity of everything reachable from an argument."""
    if isinstance(x, list):
        return ('L', id(x), tuple(snapshot(e) for e in x))
    if isinstance(x, tuple):
        return ('T', id(x), tuple(snapshot(e) for e in x))
    if isinstance(x, (Float, RealFloat)):
        st = (deep_den(x), repr(x))
    elif isinstance(x, float):
        st = _fenc(x)
    else:
        st = repr(x)
    return ('N', type(x).__name__, id(x), st)


def list_ids(x, out=None):
    if out is None:
        out = {}
    if isinstance(x, list):
        out[id(x)] = x
        for e in x:
            list_ids(e, out)
    elif isinstance(x, tuple):
        for e in x:
            list_ids(e, out)
    return out


def scribble(x):
    """Caller writes to every list of a returned value."""
    if isinstance(x, list):
        for e in x:
            scribble(e)
        for i in range(len(x)):
            if not isinstance(x[i], (list, tuple)):
                x[i] = Float.from_float(-12345.5)
        x.append(Float.from_float(777.0))
    elif isinstance(x, tuple):
        for e in x:
            scribble(e)


def check_iso(res: Result, src, main, inputs, features, origin):
    """inputs: list of (args_enc, ctx_text)"""
    try:
        mod = load_module(src)
    except Exception as e:
        res.skip(f'a:rejected:{type(e).__name__}')
        res.count('a:rejected')
        if res.extra.get('a:rejected', 0) <= 2:
            res.sample({'rejected': src, 'error': f'{type(e).__name__}: {str(e)[:300]}'})
        return
    try:
        fn = getattr(mod, main)
        res.count('a:programs')
        sh = src_hash(src)
        for idx, (args_enc, ctx_text) in enumerate(inputs):
            res.case()
            res.cls('a:evaluations')
            case = {'kind': 'iso', 'src': src, 'main': main, 'args': args_enc, 'ctx': ctx_text, 'origin': origin}
            ref = run_reference(src, main, args_enc, ctx_text)
            args = dec_args(args_enc)
            before = snapshot(args)
            arg_lists = list_ids(args)
            got = call_impl(fn, args, ctx_text)
            if got[0] == 'timeout':
                res.skip('a:timeout-inconclusive')
                continue
            after = snapshot(args)
            if got[3] is not None:
                res.fail('caller/gmpy2-context-modified', case, expected=repr(got[3][0]), got=repr(got[3][1]))
            wrote = ref[0] == 'value' and ref[2]
            if wrote:
                res.cls('a:writes-param-list')
                res.nontrivial(('a', sh, idx))
            for f in ('returns-same-list-twice', 'returns-list-var', 'returns-rows', 'returns-tuple-param', 'returns-slice',
                      'nested-store', 'row-replaced-by-alias', 'tuple-holding-list-destructured', 'helper-mutates-list'):
                if f in features:
                    res.cls('a:f:' + f)
            res.maybe_sample(case, nt=bool(wrote))
            # 1. the arguments are untouched (also when the call raised)
            if after != before:
                res.fail('args/modified' + ('/on-raise' if got[0] == 'raise' else ''), case,
                         expected=jsonable(dec_args(args_enc)), got=jsonable(args))
            if got[0] == 'raise':
                if ref[0] == 'value':
                    res.fail(f'a:raises:{got[1]}', case, expected=ref[1], got=f'{got[1]}: {got[2]}')
                else:
                    res.cls('a:stuck-or-undecided')
                continue
            # 2. the result shares no list with the arguments
            shared = set(list_ids(got[2])) & set(arg_lists)
            if shared:
                res.fail('args/aliased-result', case, expected='no list object of the result is reachable from the arguments',
                         got=f'{len(shared)} shared list object(s); result={jsonable(got[1])}')
            # 3. writing to the result does not reach the arguments
            scribble(got[2])
            if snapshot(args) != before:
                res.fail('args/aliased-result', case, expected='arguments unchanged after the caller writes to the result',
                         got=jsonable(args))
            # 4. the value
            if ref[0] == 'value':
                res.cls('a:returned')
                if got[1] != ref[1]:
                    res.fail('a:wrong-value' + ('/after-param-write' if wrote else ''), case, expected=ref[1], got=got[1])
            elif ref[0] == 'stuck':
                res.cls('a:stuck-or-undecided')
                if ref[1] in ('index', 'slice'):
                    res.fail(f'a:stuck-{ref[1]}-returned', case, expected='IndexError', got=got[1])
            else:
                res.skip('a:' + ref[1])
            # 5. same arguments again: same result
            again = call_impl(fn, dec_args(args_enc), ctx_text)
            if again[0] == 'timeout':
                res.skip('a:timeout-inconclusive')
            elif again[:2] != got[:2]:
                res.fail('a:second-call-differs', case, expected=got[1], got=again[1:2] if again[0] == 'value' else again[1:])
    finally:
        unload(mod)


ISO_TEMPLATES = [
    ('return-param', '@fp.fpy\ndef main(a0, a1):\n    a0[0] = a0[0] + a1\n    return a0\n', ['L', 'R']),
    ('return-alias-twice', '@fp.fpy\ndef main(a0, a1):\n    ys = a0\n    ys[1] = a1\n    return (ys, a0, [a0, ys])\n', ['L', 'R']),
    ('rows', '@fp.fpy\ndef main(a0, a1):\n    r = a0[0]\n    r[0] = a1\n    a0[1] = r\n    a0[1][0] = a0[1][0] * 2\n    return (a0, r, a0[1])\n', ['M', 'R']),
    ('tuple-holding-list', '@fp.fpy\ndef main(a0, a1):\n    p, q = a0\n    p[0] = q + a1\n    return (a0, p, (p, p))\n', ['P', 'R']),
    ('tuple-of-lists', '@fp.fpy\ndef main(a0, a1):\n    p, q = a0\n    p[0] = q[0]\n    q[0] = a1\n    t = (q, p)\n    return (t, a0)\n', ['Q', 'R']),
    ('helper-mutates', '@fp.fpy\ndef h0(p0, p1):\n    p0[0] = p0[0] * p1\n    return p0\n\n@fp.fpy\ndef main(a0, a1):\n    zs = h0(a0, a1)\n    zs[1] = 0\n    return (zs, h0(a0[:], 2), a0)\n', ['L', 'R']),
    ('slice-then-store', '@fp.fpy\ndef main(a0, a1):\n    zs = a0[1:]\n    zs[0] = a1\n    a0[0] = zs[0]\n    return (zs, a0[0:1], a0)\n', ['L', 'R']),
    ('raise-after-write', '@fp.fpy\ndef main(a0, a1):\n    a0[0] = a1\n    a0[1] = a0[7]\n    return a0\n', ['L', 'R']),
    ('number-objects', '@fp.fpy\ndef main(a0, a1):\n    a0[0] = a1\n    return (a1, a0[1], [a1, a1], a0)\n', ['L', 'R']),
    ('comprehension-over-param', '@fp.fpy\ndef main(a0, a1):\n    zs = [r for r in a0]\n    zs[0][0] = a1\n    return (zs, [r[:] for r in a0])\n', ['M', 'R']),
]


def template_iso_cases(seed, tier):
    ch = progen.RandChooser(h64(seed, 'C18', 'iso-tmpl'))
    out = []
    for name, src, kinds in ISO_TEMPLATES:
        params = [(f'a{i}', k) for i, k in enumerate(kinds)]
        shape = {}
        for n, k in params:
            shape[n] = {'L': 2, 'M': (2, 1), 'P': 2, 'Q': (1, 1)}.get(k)
        prog = c18_gen.IsoProgram(src=src, main='main', params=params, shape=shape)
        inputs = [(enc_args(c18_gen.gen_iso_inputs(ch, prog)), ch.choice(progen.CALLER_CTXS))
                  for _ in range(12 if tier == 'thorough' else 4)]
        out.append((name, src, inputs))
    return out


# ---------------------------------------------------------------------------
# (b) histories

STRATEGIES = ['simplify', 'close', 'inline', 'unroll_for', 'unroll_while', 'elim_iter', 'split', 'simplify-nofold', 'close>simplify']


def apply_strategy(f, name):
    S = fp.strategies
    if name == 'simplify':
        return S.simplify(f)
    if name == 'simplify-nofold':
        return S.simplify(f, enable_const_fold=False)
    if name == 'close':
        return S.close(f)
    if name == 'inline':
        return S.inline(f)
    if name == 'unroll_for':
        return S.unroll_for(f, None, 2)
    if name == 'unroll_while':
        return S.unroll_while(f, None, 1)
    if name == 'elim_iter':
        return S.elim_iter(f)
    if name == 'split':
        return S.split(f, 2)
    if name == 'close>simplify':
        return S.simplify(S.close(f))
    raise ValueError(name)


PRISTINE_BUDGET = 2

NOISE_KINDS = ['stochastic-ops', 'hiprec-ops', 'real-ops', 'gmpy2-ambient', 'fpy-under-stochastic', 'tiny-ctx-ops',
               'round-rationals-fixed', 'round-rationals-fixed']
# 'gmpy2-ambient-narrow' (the Python caller narrows gmpy2's ambient exponent range) is executable but NOT drawn: fpy2's
# exact Float -> mpfr conversion reads the ambient emin/emax, so results do change -- but a caller reconfiguring gmpy2 is
# not an "earlier evaluation or transformation", i.e. outside the property's quantifier (reported as an observation only).


class History:
    """Executes explicit steps against the process-wide fpy2 state, checking every evaluation against the model.
    Used by the state machine (which draws the steps) and by replay (which re-executes recorded steps)."""

    def __init__(self, res: Result, count=True):
        self.res = res
        self.count = count
        self.steps = []
        self.modules = []       # dict(src, mod, variants=[(label, Function)], features, tainted)
        self.model = {}         # (mi, vi, args_json, ctx) -> dict(expected, source, evals=[step idx], sep)
        self.triples = []       # keys in creation order
        self.old_results = []   # (mi, raw result) kept alive
        self.n_transforms = 0
        self.n_evals = 0
        self.nt_reeval = False
        self.same_name_pairs = False
        self.alt_rt = BytecodeInterpreter()
        self.failed_buckets = set()
        self.pristine_left = PRISTINE_BUDGET
        self.diagnosed = {}     # (mi, vi) -> bucket of its first disagreement
        import gmpy2
        self._gmp_saved = gmpy2.get_context().copy()
        # step 0 of every history: a fresh default interpreter (the history quantified over starts here)
        set_default_interpreter(BytecodeInterpreter())

    # -- bookkeeping -----------------------------------------------------------
    def close(self):
        import gmpy2
        gmpy2.set_context(self._gmp_saved)
        for m in self.modules:
            unload(m['mod'])
        set_default_interpreter(BytecodeInterpreter())

    def fail(self, bucket, expected, got, note=None):
        self.failed_buckets.add(bucket)
        self.res.fail(bucket, {'kind': 'history', 'steps': copy.deepcopy(self.steps)}, expected=expected, got=got, note=note)

    # -- steps -------------------------------------------------------------------
    def define(self, src, params, min_len, features):
        self.steps.append({'op': 'define', 'src': src, 'params': [list(p) for p in params], 'min_len': dict(min_len),
                           'features': sorted(features)})
        try:
            mod = load_module(src)
        except Exception as e:
            self.res.skip(f'b:rejected:{type(e).__name__}')
            self.steps.pop()
            return None
        self.modules.append({'src': src, 'mod': mod, 'variants': [('orig', mod.main)], 'features': set(features),
                             'params': params, 'min_len': min_len, 'tainted': False})
        if self.count:
            self.res.count('b:modules')
        return len(self.modules) - 1

    def _fn(self, mi, vi, interp):
        f = self.modules[mi]['variants'][vi][1]
        if interp == 'fresh':
            return f.with_rt(BytecodeInterpreter())
        if interp == 'alt':
            return f.with_rt(self.alt_rt)
        return f

    def evaluate(self, mi, vi, args_enc, ctx_text, interp='default', why='eval', scr=False):
        """scr: the Python caller writes to every list of the returned value as soon as it has it."""
        m = self.modules[mi]
        step = {'op': 'eval', 'mod': mi, 'variant': vi, 'args': args_enc, 'ctx': ctx_text, 'interp': interp, 'scr': bool(scr)}
        self.steps.append(step)
        si = len(self.steps) - 1
        key = (mi, vi, repr(args_enc), ctx_text)
        res = self.res
        if self.count:
            res.case()
            res.cls('b:evaluations')
            res.cls('b:interp:' + interp)
        entry = self.model.get(key)
        got = call_impl(self._fn(mi, vi, interp), dec_args(args_enc), ctx_text)
        if got[0] == 'timeout':
            # inconclusive (time is never an oracle); the triple leaves the rotation so that it costs one guard interval only
            res.skip('b:timeout-inconclusive')
            self.triples = [t for t in self.triples if t[:4] != key]
            return
        self.n_evals += 1
        outcome = got[:2]
        if got[3] is not None:
            self.fail('caller/gmpy2-context-modified', expected=repr(got[3][0]), got=repr(got[3][1]))
        if got[0] == 'value':
            self.old_results.append((mi, got[2]))
            if len(self.old_results) > 24:
                self.old_results.pop(0)
            if scr and list_ids(got[2]):
                m['tainted'] = True
                scribble(got[2])
                if self.count:
                    res.cls('b:caller-wrote-to-returned-list')
        if 'capture-mutating-profile' in m['features'] and self.count:
            res.cls('b:capture-mutating-evals')
        if entry is None:
            # first evaluation of this triple: fill the model
            if vi == 0:
                ref = run_reference(m['src'], 'main', args_enc, ctx_text)
            else:
                ref = ('skip', 'derivative')
            if ref[0] == 'value':
                entry = {'expected': ('value', ref[1]), 'source': 'refeval'}
            else:
                entry = {'expected': outcome, 'source': 'first-eval:' + (ref[1] if ref[0] != 'stuck' else 'stuck')}
                if self.count:
                    res.skip('b:model-from-first-eval:' + ('stuck' if ref[0] == 'stuck' else ref[1]))
            entry['evals'] = []
            entry['others_since'] = 0
            self.model[key] = entry
            self.triples.append(key + (args_enc,))
            first = True
        else:
            first = False
            if entry['evals'] and self.n_evals - 1 > entry['evals'][-1] + 1:
                self.nt_reeval = True           # re-evaluation separated from the previous one by other evaluations
                if self.count:
                    res.cls('b:separated-re-evaluations')
        # names: another module evaluated before under the same function name?
        if mi > 0 or len(self.modules) > 1:
            self.same_name_pairs = True
        entry['evals'].append(self.n_evals - 1)
        if outcome != entry['expected']:
            known = self.diagnosed.get((mi, vi))
            if known is not None and not first:
                # same function disagreeing again in this history: same root cause, no second diagnosis
                self.fail(known, expected=entry['expected'], got=outcome, note='(bucket of the first disagreement of this function)')
            else:
                self.diagnose(mi, vi, args_enc, ctx_text, interp, entry, outcome, first)

    def diagnose(self, mi, vi, args_enc, ctx_text, interp, entry, outcome, first):
        """Root-cause bucket of a disagreement with the model."""
        m = self.modules[mi]
        exp = entry['expected']
        if outcome[0] == 'raise' and exp[0] == 'value':
            kind = f'raises:{outcome[1]}'
        elif outcome[0] == 'value' and exp[0] == 'raise':
            kind = f'returns-instead-of:{exp[1]}'
        else:
            kind = 'wrong-value'
        f = self.modules[mi]['variants'][vi][1].with_rt(BytecodeInterpreter())
        fresh = call_impl(f, dec_args(args_enc), ctx_text)
        if fresh[0] == 'timeout':
            self.res.skip('b:timeout-inconclusive')
            return
        fresh_ok = fresh[:2] == exp
        # does the function's own cache entry accumulate state from call to call?  (a few calls: one step of
        # accumulation can be invisible after rounding)
        accumulates = False
        for _ in range(5):
            again = call_impl(f, dec_args(args_enc), ctx_text)
            if fresh[0] == 'timeout' or again[0] == 'timeout':
                break
            if again[:2] != fresh[:2]:
                accumulates = True
                break
        captures = 'captures' in m['features']
        if captures and accumulates:
            bucket = 'capture/mutated-in-cache'
        elif captures and m['tainted'] and not entry['source'].startswith('refeval'):
            # the model itself came from an evaluation: it may already hold what the caller wrote into an earlier result
            bucket = 'capture/result-aliases-cache'
        elif fresh_ok and interp != 'fresh':
            # the default (or shared alternate) interpreter's cached state is what differs
            if captures and m['tainted']:
                bucket = 'capture/result-aliases-cache'
            elif 'capture-mutating-profile' in m['features']:
                bucket = 'capture/mutated-in-cache'
            else:
                bucket = f'cache/stale-or-foreign-entry/{kind}'
        elif accumulates:
            bucket = f'history/accumulates-per-call/{kind}'
        elif first and entry['source'] == 'refeval' and fresh[:2] == outcome:
            # the very first evaluation of the triple disagrees with the reference, and so does (identically) a fresh
            # interpreter: a semantic disagreement (C04's business), not a dependence on history.  From now on the
            # triple is held to its first evaluation.
            # at most PRISTINE_BUDGET brand-new processes per history (a count, not a time limit)
            if vi != 0:
                pristine = repr(outcome)
            elif self.pristine_left > 0:
                self.pristine_left -= 1
                pristine = pristine_eval(m['src'], 'main', args_enc, ctx_text)
            else:
                pristine = None
            if pristine == repr(exp) and pristine != repr(outcome):
                # a brand-new process agrees with the reference: what this process evaluated before is what differs
                self.fail(f'process-state/first-eval-differs-from-pristine-process/{kind}', expected=exp, got=outcome,
                          note='the reference and a brand-new process agree; this process (default AND a fresh BytecodeInterpreter) '
                               'gives something else: module-level state left by earlier evaluations')
                entry['expected'] = outcome
                entry['source'] = 'first-eval:polluted'
                return
            entry['expected'] = outcome
            entry['source'] = 'first-eval:differs-from-reference'
            if pristine == repr(outcome):
                self.res.skip(f'b:first-eval-differs-from-reference(C04-domain):{kind}')
            else:
                self.res.skip('b:first-eval-differs-from-reference:pristine-process-inconclusive')
            return
        elif first and entry['source'] == 'refeval':
            bucket = f'first-eval/differs-from-reference/{kind}'
        else:
            bucket = f'history/re-evaluation-differs/{kind}'
        self.diagnosed.setdefault((mi, vi), bucket)
        self.fail(bucket, expected=exp, got=outcome,
                  note=f'model source={entry["source"]}; interp={interp}; fresh interpreter gives the model value: {fresh_ok}; '
                       f'evaluations of this triple before: {len(entry["evals"]) - 1}')

    def transform(self, mi, vi, strategy):
        m = self.modules[mi]
        self.steps.append({'op': 'transform', 'mod': mi, 'variant': vi, 'strategy': strategy})
        f = m['variants'][vi][1]
        try:
            with guard(20):
                g = apply_strategy(f, strategy)
        except _Timeout:
            self.res.skip('b:transform-timeout-inconclusive')
            return None
        except Exception as e:      # transformation failures are C07-C09's business
            self.res.skip(f'b:transform-declined:{strategy}:{type(e).__name__}')
            return None
        m['variants'].append((f'{m["variants"][vi][0]}>{strategy}', g))
        self.n_transforms += 1
        if self.count:
            self.res.cls('b:transform:' + strategy)
        return len(m['variants']) - 1

    def check_derivative(self, mi, vi, args_enc, ctx_text):
        """First evaluation of a derivative under the default and a fresh interpreter must agree; agreement with
        the original is counted only."""
        self.evaluate(mi, vi, args_enc, ctx_text, 'default')
        self.evaluate(mi, vi, args_enc, ctx_text, 'fresh')
        k0 = (mi, 0, repr(args_enc), ctx_text)
        k1 = (mi, vi, repr(args_enc), ctx_text)
        if k0 in self.model and k1 in self.model and self.count:
            same = self.model[k0]['expected'] == self.model[k1]['expected']
            self.res.count('b:derivative-agrees-with-original' if same else 'b:derivative-differs-from-original(C07-C09)')

    def sweep(self, k, seed, n=None):
        """Evaluation steps only (each is recorded as an ordinary 'eval' step, so replay needs nothing new)."""
        mi, vi, _, ctx_text, args_enc = self.triples[k % len(self.triples)]
        r = random.Random(seed)
        ctxs = list(SWEEP_CTXS)
        r.shuffle(ctxs)
        if 'while' in self.modules[mi]['features']:
            ctxs = [c for c in ctxs if c not in COUNTER_UNSAFE]
        if self.count:
            self.res.cls('b:context-sweeps')
        for c in ctxs[:n or r.choice([3, 5, 7])]:
            self.evaluate(mi, vi, args_enc, c, 'default', scr=r.random() < 0.5)
        self.evaluate(mi, vi, args_enc, ctx_text, 'default')

    def noise(self, kind, seed):
        self.steps.append({'op': 'noise', 'kind': kind, 'seed': seed})
        r = random.Random(seed)
        if self.count:
            self.res.cls('b:noise:' + kind)
        vals = [0.1, 1.5, -2.25, 3.0, 1e10, 1e-8, 7.0, 0.3]
        x, y = r.choice(vals), r.choice(vals)
        import gmpy2
        try:
            with guard(20):
                if kind == 'stochastic-ops':
                    c = fp.MPFloatContext(r.choice([3, 5, 11]), r.choice(list(fp.RM)[:6]), r.choice([1, 2, 4]), rng=random.Random(seed))
                    for op in (fp.ops.add, fp.ops.mul, fp.ops.div):
                        op(x, y, ctx=c)
                    fp.ops.sqrt(abs(x), ctx=c)
                    fp.ops.exp(y / 1e10 if abs(y) > 100 else y, ctx=c)
                elif kind == 'hiprec-ops':
                    c = fp.MPFloatContext(r.choice([700, 1000, 2000]), r.choice(list(fp.RM)[:6]))
                    fp.ops.div(x, y, ctx=c)
                    fp.ops.exp(x if abs(x) < 50 else 1.0, ctx=c)
                    fp.ops.log(abs(y), ctx=c)
                    fp.ops.sin(x, ctx=c)
                elif kind == 'real-ops':
                    fp.ops.add(Fraction(1, 3), x, ctx=fp.REAL)
                    fp.ops.mul(x, y, ctx=fp.REAL)
                elif kind == 'tiny-ctx-ops':
                    c = fp.MPFixedContext(r.choice([-1, 3, 8]), r.choice(list(fp.RM)[:6]))
                    fp.ops.add(x, y, ctx=c)
                    fp.ops.div(x, y, ctx=fp.IEEEContext(2, 4, fp.RM.RTZ))
                elif kind == 'round-rationals-fixed':
                    # direct roundings / operations on common non-dyadic rationals under fixed-point contexts of
                    # several least digits, in a drawn order (coarse-before-fine and fine-before-coarse both occur)
                    ns = [-1, -2, -4, -5, -9, -12, -30, 2]
                    r.shuffle(ns)
                    for q in (Fraction(1, 10), Fraction(3, 10), Fraction(7, 10), Fraction(1, 3), Fraction(1, 1000), Fraction(13, 10)):
                        for nmin in ns[:r.choice([2, 3])]:
                            c = fp.MPFixedContext(nmin, r.choice(list(fp.RM)[:6]))
                            c.round(q)
                            fp.ops.add(q, 1, ctx=c)
                        fp.FixedContext(True, r.choice([-2, -6]), 16, fp.RM.RNE, fp.OV.SATURATE).round(q)
                elif kind == 'gmpy2-ambient':
                    # the Python caller uses gmpy2 with its own settings in between
                    g = gmpy2.get_context()
                    g.precision = r.choice([2, 11, 24, 400])
                    g.round = r.choice([gmpy2.RoundUp, gmpy2.RoundDown, gmpy2.RoundToZero, gmpy2.RoundAwayZero])
                    gmpy2.exp(gmpy2.mpfr(x))
                elif kind == 'gmpy2-ambient-narrow':
                    g = gmpy2.get_context()
                    g.emax = r.choice([64, 1024])
                    g.emin = r.choice([-64, -1022])
                    g.subnormalize = r.choice([True, False])
                    gmpy2.sqrt(gmpy2.mpfr(abs(x)))
                elif kind == 'fpy-under-stochastic':
                    if self.triples:
                        mi, vi, _, _, args_enc = self.triples[r.randrange(len(self.triples))]
                        c = fp.MPFloatContext(5, fp.RM.RNE, 2, rng=random.Random(seed))
                        try:
                            self._fn(mi, vi, 'default')(*dec_args(args_enc), ctx=c)
                        except _Timeout:
                            raise
                        except Exception:     # noise: its own outcome is irrelevant, only its after-effects are checked
                            pass
        except _Timeout:
            self.res.skip('b:noise-timeout-inconclusive')

    def set_default(self):
        self.steps.append({'op': 'set_default'})
        set_default_interpreter(BytecodeInterpreter())
        if self.count:
            self.res.cls('b:set_default_interpreter')

    def mutate_old(self, k):
        """The Python caller writes to every list of a result it got earlier."""
        if not self.old_results:
            return
        self.steps.append({'op': 'mutate_old', 'k': k})
        mi, r = self.old_results[k % len(self.old_results)]
        if list_ids(r):
            self.modules[mi]['tainted'] = True
            if self.count:
                self.res.cls('b:caller-mutated-old-result')
        scribble(r)

    # -- replay ----------------------------------------------------------------
    def run_steps(self, steps):
        for s in steps:
            op = s['op']
            if op == 'define':
                self.define(s['src'], [tuple(p) for p in s['params']], s['min_len'], set(s['features']))
            elif op == 'eval':
                self.evaluate(s['mod'], s['variant'], s['args'], s['ctx'], s['interp'], scr=s.get('scr', False))
            elif op == 'transform':
                self.transform(s['mod'], s['variant'], s['strategy'])
            elif op == 'noise':
                self.noise(s['kind'], s['seed'])
            elif op == 'set_default':
                self.set_default()
            elif op == 'mutate_old':
                self.mutate_old(s['k'])
            else:
                raise ValueError(op)

    def finish(self):
        """Class bookkeeping of one finished history."""
        res = self.res
        res.cls('b:histories')
        if self.n_transforms >= 1 and self.nt_reeval:
            res.cls('b:nontrivial-history')
            res.nontrivial(('b', h64(repr(self.steps))))
        if self.same_name_pairs:
            res.cls('b:same-named-functions-of-several-modules')


HIST_TEMPLATES = [
    # F7 shape: write through an alias of a captured list
    ('capture-alias-write', 'TABLE = [1.0, 2.0]\n\n@fp.fpy\ndef main(a0):\n    ys = TABLE\n    ys[0] = ys[0] + 1\n    return ys[0] + a0\n', [('a0', 'R')]),
    ('capture-returned', 'TABLE = [1.0, 2.0, 0.5]\n\n@fp.fpy\ndef main(a0):\n    return (TABLE, a0)\n', [('a0', 'R')]),
    ('capture-tuple-holding-list', 'PAIR = ([1.0, 2.0], 3.0)\n\n@fp.fpy\ndef main(a0):\n    p, q = PAIR\n    p[1] = p[1] * a0 + q\n    return p\n', [('a0', 'R')]),
    ('capture-rows', 'ROWS = [[1.0], [2.0, 3.0]]\n\n@fp.fpy\ndef main(a0):\n    r = ROWS[1]\n    r[0] = r[0] * 2\n    return [ROWS[1][0] + a0 for _ in range(2)]\n', [('a0', 'R')]),
    ('capture-helper-reads', 'K = [0.5, 1.5]\n\n@fp.fpy\ndef h0(p0):\n    return p0 * K[1]\n\n@fp.fpy\ndef main(a0):\n    return h0(a0) + sum(K)\n', [('a0', 'R')]),
    ('same-text-different-capture', 'K = [{k}]\n\n@fp.fpy\ndef main(a0):\n    return a0 * K[0]\n', [('a0', 'R')]),
    ('range-bound-and-stored', '@fp.fpy\ndef main(a0):\n    xs = range(4)\n    xs[0] = a0\n    ys = range(1, 4)\n    ys[2] = xs[1] + a0\n    return (xs, ys)\n', [('a0', 'R')]),
    ('range-consumer', '@fp.fpy\ndef main(a0):\n    s = a0\n    for i in range(4):\n        s = s + i\n    for j in range(1, 4):\n        s = s * j\n    return (s, sum([e for e in range(3)]))\n', [('a0', 'R')]),
    ('range-returned', '@fp.fpy\ndef main(a0):\n    return (range(4), range(1, 4), [a0, 1, 2], range(3))\n', [('a0', 'R')]),
    ('pairs-bound-and-stored', '@fp.fpy\ndef main(a0):\n    zs = zip(range(3), range(3))\n    zs[0] = (a0, a0)\n    es = enumerate(range(4))\n    es[1] = (a0, 7)\n    ks = [1, 2, 3]\n    ks[0] = a0\n    return (zs, es, ks, [i + j for i, j in zip(range(3), range(3))])\n', [('a0', 'R')]),
    ('literals-under-caller-ctx', '@fp.fpy\ndef main(a0):\n    return (fp.round(0.3), 0.7 + a0, fp.round(0.1) * 3, a0 / 3, fp.round(1e-3))\n', [('a0', 'R')]),
    ('literals-under-own-fixed-ctx', '@fp.fpy\ndef main(a0):\n    with fp.MPFixedContext({n}, fp.RM.RNE):\n        t = fp.round(0.3) + fp.round(0.7)\n        u = 0.1 + a0\n    return (t, u)\n', [('a0', 'R')]),
    ('ctx-declared', '@fp.fpy(ctx=fp.MPFloatContext(3, fp.RM.RTZ))\ndef main(a0):\n    return a0 / 3\n', [('a0', 'R')]),
    ('ctx-inherited-helper', '@fp.fpy\ndef h0(p0):\n    return p0 / 3\n\n@fp.fpy\ndef main(a0):\n    x = h0(a0)\n    with fp.MPFloatContext(2, fp.RM.RAZ):\n        y = h0(a0)\n    return (x, y, h0(y))\n', [('a0', 'R')]),
]


def hist_program(ch, kind):
    """(src, params, min_len, features); params of an 'iso' program are IsoGen kinds, min_len holds its shape table"""
    if kind == 'iso':
        p = c18_gen.gen_iso_program(ch)
        return p.src, p.params, {'__iso_shape__': p.shape}, set(p.features) | {'iso-program'}
    if kind == 'general':
        p = progen.gen_program(ch, c18_gen.base_profile())
        return p.src, p.params, p.min_len, p.features
    if kind == 'small':
        pr = c18_gen.base_profile()
        pr.max_stmts = 4
        pr.expr_depth = 2
        p = progen.gen_program(ch, pr)
        return p.src, p.params, p.min_len, p.features
    if kind in ('cap-read', 'cap-mutate'):
        pr = c18_gen.base_profile()
        pr.max_stmts = 5
        pr.expr_depth = 2
        p = c18_gen.gen_cap_program(ch, 'read' if kind == 'cap-read' else 'mutate', pr)
        return p.src, p.params, p.min_len, p.features
    if kind == 'template':
        name, src, params = ch.choice(HIST_TEMPLATES)
        src = src.replace('{k}', ch.choice(['2.0', '3.0', '0.5'])).replace('{n}', ch.choice(['-1', '-3', '-7', '-12', '-20']))
        feats = {'template:' + name}
        if 'capture' in name:
            feats |= {'captures', 'capture-mutating-profile'}
        return src, params, {}, feats
    raise ValueError(kind)


SWEEP_CTXS = [
    'fp.MPFixedContext(-1, fp.RM.RNE)', 'fp.MPFixedContext(-4, fp.RM.RTZ)', 'fp.MPFixedContext(-9, fp.RM.RNE)',
    'fp.MPFixedContext(-30, fp.RM.RAZ)', 'fp.MPFixedContext(2, fp.RM.RTP)', 'fp.MPFixedContext(-2, fp.RM.RNA)',
    'fp.FixedContext(True, -2, 12, fp.RM.RNE, fp.OV.SATURATE)', 'fp.FixedContext(True, -6, 16, fp.RM.RTZ, fp.OV.SATURATE)',
    'fp.MPFloatContext(2, fp.RM.RTZ)', 'fp.MPFloatContext(11, fp.RM.RNE)', 'fp.MPFloatContext(200, fp.RM.RAZ)',
    'fp.IEEEContext(5, 16, fp.RM.RNE)', 'fp.FP32', 'fp.MPSFloatContext(8, -10, fp.RM.RNE)', 'fp.INTEGER', 'fp.REAL', None,
]
# contexts in which small loop counters are not exact: never used for programs with a `while` loop (progen guarantees
# termination only under counter-safe caller contexts)
COUNTER_UNSAFE = {'fp.MPFixedContext(2, fp.RM.RTP)', 'fp.MPFloatContext(2, fp.RM.RTZ)'}
HIST_CTXS = list(progen.CALLER_CTXS) + [c for c in SWEEP_CTXS if c is not None and 'Fixed' in c and c not in COUNTER_UNSAFE]

HIST_KINDS = ['general', 'small', 'cap-read', 'cap-mutate', 'template', 'template', 'iso', 'iso']


def hist_inputs(ch, params, min_len):
    if '__iso_shape__' in min_len:
        shape = {k: (tuple(v) if isinstance(v, list) else v) for k, v in min_len['__iso_shape__'].items()}
        prog = c18_gen.IsoProgram(src='', main='main', params=[tuple(p) for p in params], shape=shape)
        return enc_args(c18_gen.gen_iso_inputs(ch, prog))
    prog = progen.Program(src='', main='main', params=params, min_len=min_len, features=set(), helpers=[])
    return enc_args(progen.gen_inputs(ch, prog))


def run_history_machines(res: Result, seed32, n_machines, n_steps):
    import hypothesis
    from hypothesis import HealthCheck, Phase, settings
    from hypothesis import strategies as st
    from hypothesis.stateful import RuleBasedStateMachine, initialize, invariant, precondition, rule, run_state_machine_as_test

    seeds = st.integers(0, (1 << 32) - 1)

    # named predicates (Hypothesis inspects the source text of lambdas)
    def _has_modules(self):
        return bool(self.h.modules)

    def _has_triples(self):
        return bool(self.h.triples)

    def _has_two_modules(self):
        return len(self.h.modules) >= 2 and bool(self.h.triples)

    def _has_old_results(self):
        return bool(self.h.old_results)

    class Machine(RuleBasedStateMachine):
        def __init__(self):
            super().__init__()
            self.h = History(res)

        def teardown(self):
            self.h.finish()
            self.h.close()

        @initialize(s=seeds, kind=st.sampled_from(HIST_KINDS))
        def init(self, s, kind):
            self._define(s, kind)

        def _define(self, s, kind):
            ch = progen.RandChooser(s)
            src, params, min_len, feats = hist_program(ch, kind)
            mi = self.h.define(src, params, min_len, feats)
            if mi is not None:
                res.cls('b:module:' + kind)
                # every new module is evaluated once right away
                self.h.evaluate(mi, 0, hist_inputs(ch, params, min_len), ch.choice(HIST_CTXS), scr=ch.bool(0.5))

        @rule(s=seeds, kind=st.sampled_from(HIST_KINDS))
        def define_module(self, s, kind):
            if len(self.h.modules) < 6:
                self._define(s, kind)

        @precondition(_has_modules)
        @rule(s=seeds, interp=st.sampled_from(['default', 'default', 'default', 'fresh', 'alt']))
        def eval_new(self, s, interp):
            ch = progen.RandChooser(s)
            mi = ch.int(0, len(self.h.modules) - 1)
            m = self.h.modules[mi]
            vi = ch.int(0, len(m['variants']) - 1) if ch.bool(0.3) else 0
            self.h.evaluate(mi, vi, hist_inputs(ch, m['params'], m['min_len']), ch.choice(HIST_CTXS), interp, scr=ch.bool(0.5))

        @precondition(_has_triples)
        @rule(k=st.integers(0, 1 << 16), interp=st.sampled_from(['default', 'default', 'default', 'fresh', 'alt']))
        def re_evaluate(self, k, interp):
            mi, vi, _, ctx_text, args_enc = self.h.triples[k % len(self.h.triples)]
            self.h.evaluate(mi, vi, args_enc, ctx_text, interp, scr=bool(k & 1))

        @precondition(_has_triples)
        @rule(k=st.integers(0, 1 << 16), s=seeds)
        def sweep_contexts(self, k, s):
            # the SAME function on the SAME arguments under contexts of every family (float / fixed, several precisions
            # and least digits) in a drawn order, then the original triple again: a cache keyed too coarsely shows here
            self.h.sweep(k, s)

        @precondition(_has_triples)
        @rule(k=st.integers(0, 1 << 16), strategy=st.sampled_from(STRATEGIES))
        def transform_and_evaluate(self, k, strategy):
            mi, vi, _, ctx_text, args_enc = self.h.triples[k % len(self.h.triples)]
            if len(self.h.modules[mi]['variants']) >= 5:
                vi = 0
            nv = self.h.transform(mi, vi, strategy)
            if nv is not None:
                self.h.check_derivative(mi, nv, args_enc, ctx_text)
            # the original, again
            self.h.evaluate(mi, vi, args_enc, ctx_text, 'default')

        @precondition(_has_two_modules)
        @rule(k=st.integers(0, 1 << 16), j=st.integers(0, 1 << 16))
        def same_name_other_module(self, k, j):
            # `main` of module A, then `main` of module B on the same arguments where the signatures allow it, then A again
            mi, vi, _, ctx_text, args_enc = self.h.triples[k % len(self.h.triples)]
            mj = j % len(self.h.modules)
            if mj == mi:
                mj = (mi + 1) % len(self.h.modules)
            a, b = self.h.modules[mi], self.h.modules[mj]
            self.h.evaluate(mi, vi, args_enc, ctx_text, 'default')
            if [t for _, t in a['params']] == [t for _, t in b['params']]:
                res.cls('b:same-name-same-args')
                self.h.evaluate(mj, 0, args_enc, ctx_text, 'default')
            else:
                ch = progen.RandChooser(k * 65537 + j)
                self.h.evaluate(mj, 0, hist_inputs(ch, b['params'], b['min_len']), ctx_text, 'default')
            self.h.evaluate(mi, vi, args_enc, ctx_text, 'default')

        @rule(kind=st.sampled_from(NOISE_KINDS), s=seeds)
        def noise(self, kind, s):
            self.h.noise(kind, s)

        @rule(k=st.integers(0, 5))
        def set_default(self, k):
            if k == 0:
                self.h.set_default()

        @precondition(_has_old_results)
        @rule(k=st.integers(0, 1 << 16))
        def caller_mutates_old_result(self, k):
            self.h.mutate_old(k)

        @invariant()
        def oldest_triples_still_evaluate_to_their_model(self):
            h = self.h
            if h.triples:
                # rotate through the triples: one re-evaluation after every step
                mi, vi, _, ctx_text, args_enc = h.triples[len(h.steps) % len(h.triples)]
                h.evaluate(mi, vi, args_enc, ctx_text, 'default', why='invariant', scr=True)

    Machine.TestCase.settings = settings(max_examples=n_machines, stateful_step_count=n_steps, deadline=None, database=None,
                                         derandomize=False, report_multiple_bugs=False, phases=[Phase.generate],
                                         suppress_health_check=list(HealthCheck))
    run_state_machine_as_test(hypothesis.seed(seed32)(Machine), settings=Machine.TestCase.settings)


def template_histories(res: Result):
    """Deterministic short histories over the templates (regression-style; also the F7 witness shape)."""
    for name, src, params in HIST_TEMPLATES:
        for k in ('2.0', '3.0'):
            h = History(res)
            try:
                s = src.replace('{k}', k).replace('{n}', '-3' if k == '2.0' else '-12')
                feats = {'template:' + name} | ({'captures', 'capture-mutating-profile'} if 'capture' in name else set())
                mi = h.define(s, params, {}, feats)
                if mi is None:
                    continue
                a1, a2 = enc_args([1.5]), enc_args([0.1])
                h.evaluate(mi, 0, a1, None, scr=True)
                h.evaluate(mi, 0, a2, 'fp.MPFloatContext(5, fp.RM.RTZ)', scr=True)
                h.evaluate(mi, 0, a1, None)
                fixed = [c for c in SWEEP_CTXS if c is not None and 'MPFixed' in c]      # listed coarse .. fine .. coarse
                for c in (fixed if k == '2.0' else fixed[::-1]):
                    h.evaluate(mi, 0, a2, c, scr=True)
                    h.evaluate(mi, 0, enc_args([Fraction(1, 3)]), c)
                h.sweep(0, 17 if k == '2.0' else 18, n=len(SWEEP_CTXS))
                mj = h.define(src.replace('{k}', '0.5').replace('{n}', '-12' if k == '2.0' else '-3'), params, {}, feats)
                h.evaluate(mj, 0, a1, None)
                h.evaluate(mi, 0, a1, None)
                nv = h.transform(mi, 0, 'simplify')
                if nv is not None:
                    h.check_derivative(mi, nv, a1, None)
                h.mutate_old(0)
                h.mutate_old(1)
                h.evaluate(mi, 0, a1, None)
                h.evaluate(mj, 0, a1, None)
                h.evaluate(mi, 0, a2, 'fp.MPFloatContext(5, fp.RM.RTZ)', 'alt')
                h.evaluate(mi, 0, a2, 'fp.MPFloatContext(5, fp.RM.RTZ)', 'alt')
                h.finish()
            finally:
                h.close()


# ---------------------------------------------------------------------------
# (c) schedules

SCHED_TEMPLATES = [
    ('exp-sin-log-loop', '''@fp.fpy
def main(x, y):
    acc = x
    for i in range(2):
        with fp.MPFloatContext({p1}, fp.RM.{rm1}):
            acc = fp.exp(acc / 3) + fp.sin(acc)
        with fp.MPFloatContext({p2}, fp.RM.{rm2}):
            acc = fp.log(abs(acc) + 1) / (7 + y)
    return acc
'''),
    ('caller-ctx-only', '''@fp.fpy
def main(x, y):
    t = fp.exp(x) / fp.log(abs(y) + 2)
    u = fp.sin(x * y) + t / 3
    return (t, u, u / 7)
'''),
    ('helper-inherits', '''@fp.fpy
def h0(p0, p1):
    return p0 / p1 + fp.sqrt(abs(p0))

@fp.fpy
def main(x, y):
    a = h0(x, 3)
    with fp.MPFloatContext({p1}, fp.RM.{rm1}) as c:
        b = h0(x, 3)
        with fp.IEEEContext(5, 16, fp.RM.{rm2}):
            d = h0(b, 7)
        e = h0(d, 3)
    return (a, b, d, e, h0(e, y + 9))
'''),
    ('list-sum', '''@fp.fpy
def main(x, y):
    xs = [x / (i + 1) for i in range(4)]
    with fp.MPFloatContext({p1}, fp.RM.{rm1}):
        s = sum(xs)
        zs = [fp.sqrt(abs(e)) for e in xs]
    zs[0] = s / 3
    return (s, zs, sum(zs) * y)
'''),
    ('declared-ctx', '''@fp.fpy(ctx=fp.MPFloatContext({p1}, fp.RM.{rm1}))
def main(x, y):
    t = x / 3
    with fp.MPFloatContext({p2}, fp.RM.{rm2}):
        t = t * fp.exp(y / 16)
    return t / 7
'''),
    ('early-return-in-with', '''@fp.fpy
def main(x, y):
    for i in range(3):
        with fp.MPFloatContext({p1}, fp.RM.{rm1}):
            x = x / 3 + i
            if x > y:
                return x / 7
    return x * y / 3
'''),
]

SCHED_PRECS = [2, 3, 5, 11, 24, 53, 113, 700, 1000]
SCHED_RMS = ['RNE', 'RNA', 'RTP', 'RTN', 'RTZ', 'RAZ']
SCHED_OPS = ['exp', 'log', 'sin', 'div', 'sqrt', 'add', 'mul', 'cos', 'atan']
SCHED_VALS = [0.1, 1.5, 2.25, 3.0, 0.3, 7.0, 1e-3, 12345.678, 0.5, 100.0]


def sched_ctx_text(ch):
    k = ch.int(0, 9)
    rm = ch.choice(SCHED_RMS)
    if k <= 5:
        return f'fp.MPFloatContext({ch.choice(SCHED_PRECS)}, fp.RM.{rm})'
    if k == 6:
        return f'fp.IEEEContext({ch.choice([4, 5, 8, 11])}, {ch.choice([16, 32, 64])}, fp.RM.{rm})'.replace('(4, 64', '(4, 16').replace('(5, 64', '(5, 32')
    if k == 7:
        return f'fp.MPFixedContext({ch.choice([-700, -30, -5, 0])}, fp.RM.{rm})'
    if k == 8:
        return f'fp.MPSFloatContext({ch.choice([5, 24, 700])}, -20, fp.RM.{rm})'
    return None


def decode_schedule(raw, nthreads):
    """[(offset, kind, count)] -> explicit [[thread, kind, count]]: every quantum names a thread other than the previous one,
    so each entry is a real switch while both threads live."""
    t, out = 0, []
    for off, k, c in raw:
        t = (t + 1 + (off % max(1, nthreads - 1))) % nthreads
        out.append([t, k, c])
    return out


def gen_sched_case(ch, mode_free=False):
    """Plain-data description of one schedule case."""
    nprog = ch.int(1, 3)
    programs = []
    for _ in range(nprog):
        if ch.bool(0.75):
            name, tmpl = ch.choice(SCHED_TEMPLATES)
            src = tmpl.format(p1=ch.choice(SCHED_PRECS), p2=ch.choice(SCHED_PRECS), rm1=ch.choice(SCHED_RMS), rm2=ch.choice(SCHED_RMS))
            programs.append({'src': src, 'params': [['x', 'R'], ['y', 'R']], 'min_len': {}, 'origin': name})
        else:
            pr = c18_gen.base_profile()
            pr.max_stmts = 4
            pr.expr_depth = 2
            pr.asserts = False
            # termination must not depend on the context a task happens to run under (a leaked context could otherwise
            # turn a counter loop into an endless one): only range / list loops
            pr.while_loops = False
            p = progen.gen_program(ch, pr)
            programs.append({'src': p.src, 'params': [list(q) for q in p.params], 'min_len': dict(p.min_len), 'origin': 'progen'})
    nthreads = ch.int(2, 3) if not mode_free else 16
    threads = []
    for t in range(nthreads):
        tasks = []
        for _ in range(ch.int(2, 4) if not mode_free else 6):
            if ch.bool(0.8):
                pi = ch.int(0, nprog - 1)
                P = programs[pi]
                if P['origin'] == 'progen':
                    prog = progen.Program(src='', main='main', params=[tuple(q) for q in P['params']], min_len=P['min_len'],
                                          features=set(), helpers=[])
                    args = enc_args(progen.gen_inputs(ch, prog, specials=False))
                else:
                    args = enc_args([ch.choice(SCHED_VALS), ch.choice(SCHED_VALS)])
                tasks.append({'kind': 'prog', 'prog': pi, 'args': args, 'ctx': sched_ctx_text(ch)})
            else:
                op = ch.choice(SCHED_OPS)
                n = 2 if op in ('div', 'add', 'mul') else 1
                tasks.append({'kind': 'op', 'op': op, 'args': enc_args([ch.choice(SCHED_VALS) for _ in range(n)]),
                              'ctx': sched_ctx_text(ch) or 'fp.FP64'})
        threads.append(tasks)
    nq = ch.int(4, 40)
    raw = []
    for _ in range(nq):
        kind = 'h' if ch.bool(0.5) else 'n'
        cnt = ch.weighted([(6, 1), (5, 2), (4, 3), (3, 5), (3, 8), (2, 20), (1, 60), (1, 300)])
        raw.append((ch.int(0, 1), kind, cnt))
    schedule = decode_schedule(raw, nthreads)
    return {'kind': 'sched', 'programs': programs, 'threads': threads, 'schedule': schedule,
            'cold': ch.bool(0.5)}


def build_tasks(case, mods):
    """Zero-argument callables (returning denotations) for every task of a case."""
    def mk(task):
        ctx = ctx_obj(task['ctx'])
        if task['kind'] == 'prog':
            f = mods[task['prog']].main
            enc = task['args']
            return lambda: deep_den(f(*dec_args(enc), ctx=ctx))
        op = getattr(fp.ops, task['op'])
        enc = task['args']
        return lambda: deep_den(op(*dec_args(enc), ctx=ctx))
    return [[mk(t) for t in tl] for tl in case['threads']]


def run_outcome(task):
    try:
        return ('ok', task())
    except Exception as e:      # the task's outcome; compared between sequential and concurrent runs
        return ('raise', type(e).__name__, str(e)[:200])


def classify_thread_failure(case, mods, ti, ki, seq, got):
    """Root-cause bucket for a task whose concurrent outcome differs from its sequential one."""
    if got is None:
        return 'thread/task-did-not-run'
    if got[0] == 'raise' and seq[0] == 'ok':
        return f'thread/raises:{got[1]}'
    if got[0] == 'ok' and seq[0] == 'raise':
        return 'thread/returns-instead-of-raising'
    task = case['threads'][ti][ki]
    # would the value be explained by another thread's context?
    others = {t['ctx'] for tl in case['threads'] for t in tl} - {task['ctx']}
    for oc in sorted(others, key=repr):
        alt = dict(task, ctx=oc if (oc is not None or task['kind'] == 'prog') else 'fp.FP64')
        try:
            single = build_tasks({'threads': [[alt]]}, mods)[0][0]
            if run_outcome(single) == got:
                return 'thread/ctx-leak'
        except Exception:
            pass
    return 'thread/wrong-value'


def check_sched(res: Result, case, free=False):
    mods = []
    try:
        for P in case['programs']:
            mods.append(load_module(P['src']))
    except Exception as e:
        for m in mods:
            unload(m)
        res.skip(f'c:rejected:{type(e).__name__}')
        return
    saved = get_default_interpreter()
    try:
        res.case()
        tasks = build_tasks(case, mods)
        # sequential outcomes (also warms every lazy import)
        seq = [[run_outcome(t) for t in tl] for tl in tasks]
        if case.get('cold'):
            # compile inside the schedule: a fresh default interpreter with an empty function cache
            set_default_interpreter(BytecodeInterpreter())
            res.cls('c:cold-cache')
        if free:
            got = run_free(tasks)
            res.cls('c:free-running-stress')
            stats = None
        else:
            s = Scheduler(tasks, case['schedule'], stall_s=60.0, join_s=180.0)
            got = s.run()          # SchedulerStall propagates: inconclusive (harness error), never a violation
            stats = s.stats()
            res.cls('c:schedules')
            res.count('c:switches', stats['switches'])
            res.count('c:switches-in-rounded-op', stats['in_rounded'])
            res.count('c:switches-in-mpfr-context-manager', stats['in_mpfr_ctx'])
            res.count('c:switches-in-compiled-fpy-code', stats['in_fpy_code'])
            res.count('c:switches-in-interpreter-eval', stats['in_eval'])
            if stats['in_rounded'] >= 3:
                res.cls('c:>=3-switches-in-rounded-op')
                res.nontrivial(('c', h64(repr(case))))
            if stats['in_mpfr_ctx'] >= 1:
                res.cls('c:switch-inside-mpfr-context-manager')
            if stats['in_fpy_code'] >= 1:
                res.cls('c:switch-inside-compiled-fpy-code')
            if stats['switches'] == 0:
                res.cls('c:no-switch')
        ntasks = sum(len(tl) for tl in tasks)
        res.count('c:tasks', ntasks)
        if True:
            res.maybe_sample({'kind': 'sched', 'threads': case['threads'], 'schedule': case['schedule'][:8], 'stats': stats,
                        'origins': [P['origin'] for P in case['programs']]}, nt=bool(stats and stats['in_rounded'] >= 3))
        for ti, tl in enumerate(seq):
            for ki, exp in enumerate(tl):
                if got[ti][ki] != exp:
                    set_default_interpreter(saved)
                    bucket = classify_thread_failure(case, mods, ti, ki, exp, got[ti][ki])
                    if free:
                        bucket += '/free-running'
                    res.fail(bucket, dict(case, free=free), expected=exp, got=got[ti][ki], note=f'thread {ti} task {ki}')
    finally:
        set_default_interpreter(saved)
        for m in mods:
            unload(m)


# ---------------------------------------------------------------------------
# shards

def shards(tier, seed):
    th = tier == 'thorough'
    out = [('iso', i, 150 if th else 36, seed, tier) for i in range(96 if th else 32)]
    out.append(('iso-tmpl', seed, tier))
    out += [('hist', i, 25 if th else 10, 30, seed, tier) for i in range(96 if th else 16)]
    out.append(('hist-tmpl', seed, tier))
    out += [('sched', i, 40 if th else 10, seed, tier) for i in range(96 if th else 32)]
    if th:
        out += [('stress', i, 25, seed, tier) for i in range(16)]
    only = os.environ.get('VERIF_C18_ONLY')        # development aid (e.g. "iso,hist"): run a subset of the shard kinds
    if only:
        keep = set(only.split(','))
        out = [s for s in out if s[0].split('-')[0] in keep]
    return out


def run_shard(shard):
    res = Result()
    kind = shard[0]
    if kind == 'iso':
        _, i, n, seed, tier = shard
        for j in range(n):
            ch = progen.RandChooser(h64(seed, 'C18', 'iso', i, j))
            prog = c18_gen.gen_iso_program(ch)
            inputs = [(enc_args(c18_gen.gen_iso_inputs(ch, prog)), ch.choice(progen.CALLER_CTXS)) for _ in range(N_ISO_INPUTS)]
            check_iso(res, prog.src, prog.main, inputs, prog.features, f'iso:{seed}:{i}:{j}')
        return res
    if kind == 'iso-tmpl':
        _, seed, tier = shard
        for name, src, inputs in template_iso_cases(seed, tier):
            check_iso(res, src, 'main', inputs, {'template:' + name}, 'iso-template:' + name)
        return res
    if kind == 'hist':
        _, i, n, steps, seed, tier = shard
        run_history_machines(res, h64(seed, i, 'C18hist') % (1 << 32), n, steps)
        return res
    if kind == 'hist-tmpl':
        template_histories(res)
        return res
    if kind == 'sched':
        import hypothesis
        from hypothesis import HealthCheck, Phase, given, settings
        from hypothesis import strategies as st
        _, i, n, seed, tier = shard

        @hypothesis.seed(h64(seed, i, 'C18sched') % (1 << 32))
        @settings(max_examples=n, deadline=None, database=None, derandomize=False, report_multiple_bugs=False,
                  phases=[Phase.generate], suppress_health_check=list(HealthCheck))
        @given(st.integers(0, (1 << 32) - 1),
               st.lists(st.tuples(st.integers(0, 1), st.sampled_from('nh'), st.sampled_from([1, 1, 2, 2, 3, 5, 8, 13, 20, 60, 300])),
                        min_size=4, max_size=40))
        def prop(s, raw):
            case = gen_sched_case(progen.RandChooser(s))
            case['schedule'] = decode_schedule(raw, len(case['threads']))      # the schedule itself is Hypothesis-drawn
            check_sched(res, case)
        prop()
        return res
    if kind == 'stress':
        _, i, n, seed, tier = shard
        for j in range(n):
            case = gen_sched_case(progen.RandChooser(h64(seed, 'C18', 'stress', i, j)), mode_free=True)
            check_sched(res, case, free=True)
        return res
    raise ValueError(shard)


# ---------------------------------------------------------------------------

def replay(case):
    res = Result()
    k = case.get('kind')
    if k == 'iso':
        check_iso(res, case['src'], case['main'], [(case['args'], case['ctx'])], set(), case.get('origin', 'replay'))
    elif k == 'history':
        h = History(res, count=False)
        try:
            h.run_steps(case['steps'])
        finally:
            h.close()
    elif k == 'sched':
        check_sched(res, case, free=bool(case.get('free')))
    else:
        raise ValueError(f'unknown case kind {k!r}')
    return [f for fl in res.failures.values() for f in fl]


def selftest():
    # reference evaluator: captured list is per-evaluator (history-free); write through an alias is visible in-call
    src = 'TABLE = [1.0, 2.0]\n\n@fp.fpy\ndef main(a0):\n    ys = TABLE\n    ys[0] = ys[0] + 1\n    return ys[0] + a0\n'
    for _ in range(2):
        r = run_reference(src, 'main', enc_args([1.5]), None)
        assert r[:2] == ('value', Fraction(7, 2)), r
    # param-write detection
    r = run_reference('@fp.fpy\ndef main(a0):\n    a0[0] = 5\n    return a0[0]\n', 'main', enc_args([[1.0]]), None)
    assert r == ('value', Fraction(5), True), r
    r = run_reference('@fp.fpy\ndef main(a0):\n    ys = a0[:]\n    ys[0] = 5\n    return a0[0]\n', 'main', enc_args([[1.0]]), None)
    assert r == ('value', Fraction(1), False), r
    # snapshot sees identity and value changes
    xs = [1.0, [2.0]]
    s0 = snapshot(xs)
    xs[1][0] = 3.0
    assert snapshot(xs) != s0
    xs[1][0] = 2.0
    assert snapshot(xs) == s0
    xs[1] = [2.0]
    assert snapshot(xs) != s0
    # the scheduler really interleaves and is deterministic
    log = []

    def mk(tag):
        def t():
            for k in range(5):
                log.append((tag, k))
            return tag
        return t
    a = Scheduler([[mk('a')], [mk('b')]], [(0, 'n', 2), (1, 'n', 2)], stall_s=5, join_s=10)
    out = a.run()
    assert out == [[('ok', 'a')], [('ok', 'b')]], out
    tags = [t for t, _ in log]
    assert tags != sorted(tags) and a.switches >= 3, (tags, a.switches)
    first = list(log)
    del log[:]
    Scheduler([[mk('a')], [mk('b')]], [(0, 'n', 2), (1, 'n', 2)], stall_s=5, join_s=10).run()
    assert log == first, 'scheduler not deterministic'
