"""
C13 — Static analysis facts hold on every execution.

Generated FPy source text (vlib.progen general profile with typed signatures, vlib.c13_gen merge/alias/
value-class/constant productions, and parameterised scenario templates) is loaded through the real
`@fp.fpy` decorator.  Every function of the module is analysed the way the analyses' users do
(`TypeInfer.check(f.ast)`, `ArraySizeInfer.analyze(f.ast)`, `ValueClassInfer.analyze(f.ast)`,
`PartialEval.apply(f.ast)`, `DefineUse.analyze(f.ast)`, `Alias.analyze(f.ast)`) and then run on several inputs
under a tracing subclass of the bytecode interpreter (vlib.c13_trace); vlib.c13_oracle holds one soundness
relation per analysis: what the analysis REPORTS must be true of what was OBSERVED.
"""

from __future__ import annotations

import hashlib
import os
import signal
from fractions import Fraction

import fpy2 as fp
from fpy2.function import Function

from vlib import c13_gen, progen
from vlib.c13_oracle import Facts, check_run
from vlib.c13_trace import TracingInterpreter13
from vlib.load import load_module, unload
from vlib.runner import Result, h64

PROPERTY = 'C13'
LEVEL = 'exploration'
RULE = ('Programs: FPy source text from (a) vlib.progen general profile with typed signatures, (b) vlib.c13_gen, which adds '
        'list[list[Real]] values, aliases through binding/indexing/slicing/construction/tuple packing/iteration/comprehension '
        'variables/zip/enumerate, row replacement through aliases, value-class arithmetic (x/0, inf-inf, 0*x, abs, class tests '
        'refining a branch), constants under `with` contexts and redefined in loops, loop variables rebinding existing names, '
        'strict zips in conditionally evaluated positions, and (c) scenario templates with random '
        'parameters; every function of a module is analysed and traced on inputs typed to its signature (specials, +-0, '
        'empty/singleton lists).  A case = (function, input) that ran to completion.  Non-trivial = the function has a loop-header '
        'or branch phi whose value-class/size/constant fact is strictly weaker than on one incoming edge, or the run created an '
        'alias through indexing/slicing/construction/tuple packing/iteration; distinct by (source hash, function, input).')
ASSUMPTIONS = [
    'The tracing subclass of BytecodeCompiler (vlib/trace.py, vlib/c13_trace.py) only wraps compiled expressions/statements in '
    'identity hooks; observed values are those of the real interpreter.',
    'Only completed runs are judged (value_class.py soundness assumption; array_size strict zip/assert reasoning).',
    'Size variables are minted for parameters/captured values only (array_size._fresh_size), so one variable must denote one '
    'length for the whole call.',
    'Aliases whose shared list was returned by a call are out of scope (alias.py: may_alias is sound only for the listed routes); counted.',
    'An analysis raising TypeInferError/FPySyntaxError/CallGraphError/NotImplementedError = not accepted; any other exception is '
    'the visible class analysis-crash:<Analysis>:<Exc> (not a violation).',
]
EXHAUSTIVE = {'quick': False, 'thorough': False}
FLOORS = {'completed': 0.3, 'prog:phi:loop': 50, 'prog:phi:branch': 50,
          'prog:merge-weaker:value_class:loop': 30, 'prog:merge-weaker:value_class:branch': 30,
          'prog:merge-weaker:size:loop': 15, 'prog:merge-weaker:size:branch': 15,
          'prog:merge-weaker:const:loop': 30, 'prog:merge-weaker:const:branch': 30,
          'alias-pair:binding:names': 50, 'alias-pair:indexing:names': 20, 'alias-pair:slicing:rows': 20,
          'alias-pair:construction:rows': 20, 'alias-pair:iteration:names': 20, 'alias-pair:comprehension-var:rows': 20,
          'alias-pair:tuple-unpack/tuple-packing:names': 20, 'alias-pair:iteration-zip:names': 10,
          'alias-pair:iteration-enumerate:names': 10}

N_INPUTS = 5
MAXTASKS = 6          # recycle workers: fpy2's per-process caches grow with every loaded module
CHECKED = ('TypeInfer', 'ArraySizeInfer', 'ValueClassInfer', 'PartialEval', 'DefineUse', 'Alias')
UNCHECKED = ('ContextUse', 'Purity', 'LiveVars', 'Escape')
NT_ROUTES = ('indexing', 'slicing', 'construction', 'tuple-packing', 'iteration', 'comprehension', 'tuple-unpack', 'element-store',
             'projection', 'if-expr')


class _Timeout(BaseException):
    pass


def _alarm(signum, frame):
    raise _Timeout()


def ctx_obj(text):
    if text is None:
        return None
    return eval(text, {'fp': fp})


# ---------------------------------------------------------------------------
# argument encoding (replay)

def encode_args(args):
    def enc(a):
        if isinstance(a, list):
            return {'L': [enc(x) for x in a]}
        if isinstance(a, tuple):
            return {'T': [enc(x) for x in a]}
        if isinstance(a, bool):
            return {'b': a}
        if isinstance(a, Fraction):
            return {'q': f'{a.numerator}/{a.denominator}'}
        if isinstance(a, float):
            return {'f': a.hex() if a == a and a not in (float('inf'), float('-inf')) else repr(a)}
        return {'i': a}
    return [enc(a) for a in args]


def decode_args(enc):
    def dec(a):
        if 'L' in a:
            return [dec(x) for x in a['L']]
        if 'T' in a:
            return tuple(dec(x) for x in a['T'])
        if 'b' in a:
            return a['b']
        if 'q' in a:
            return Fraction(a['q'])
        if 'f' in a:
            s = a['f']
            return float.fromhex(s) if s.startswith(('0x', '-0x')) else float(s)
        return a['i']
    return [dec(a) for a in enc]


# ---------------------------------------------------------------------------

def run_traced(rt, fn, args, ctx_text):
    """('value', v) | ('raise', ExcName) | ('timeout',)"""
    import copy
    a = copy.deepcopy(args)
    old = signal.signal(signal.SIGALRM, _alarm)
    signal.alarm(20)
    try:
        r = rt.eval(fn, a, ctx_obj(ctx_text))
        return ('value', r)
    except _Timeout:
        return ('timeout',)
    except RecursionError:
        return ('raise', 'RecursionError')
    except Exception as e:    # a run that raises has no result: the analyses describe completed runs only
        return ('raise', type(e).__name__)
    finally:
        signal.alarm(0)
        signal.signal(signal.SIGALRM, old)


def check_module(res: Result, src, funcs, origin, rows=True):
    """funcs: list of (function name, [(args, ctx_text), ...])."""
    try:
        mod = load_module(src)
    except Exception as e:
        res.skip(f'rejected-by-frontend:{type(e).__name__}')
        res.count('modules-rejected')
        if res.extra.get('modules-rejected', 0) <= 2:
            res.sample({'rejected': src, 'error': f'{type(e).__name__}: {str(e)[:300]}'})
        return
    try:
        res.count('modules')
        sh = hashlib.blake2b(src.encode(), digest_size=8).hexdigest()
        for fname, inputs in funcs:
            fn = getattr(mod, fname, None)
            if not isinstance(fn, Function):
                continue
            check_function(res, src, sh, fname, fn, inputs, origin, rows)
    finally:
        unload(mod)


def check_function(res: Result, src, sh, fname, fn, inputs, origin, rows=True):
    res.count('functions')
    old = signal.signal(signal.SIGALRM, _alarm)
    signal.alarm(60)
    try:
        facts = Facts(fn.ast, only=CHECKED)
    except _Timeout:          # an analysis that does not terminate: visible class, the function is skipped
        res.cls('analysis-crash:some-analysis:no-termination-within-60s')
        res.skip('analysis-crash:some-analysis:no-termination-within-60s')
        res.sample({'analysis_crash': 'no-termination-within-60s', 'func': fname, 'src': src})
        return
    finally:
        signal.alarm(0)
        signal.signal(signal.SIGALRM, old)
    # analyses whose facts the property does not list run for crash detection only; one that hangs must not
    # hide what the checked analyses report
    old = signal.signal(signal.SIGALRM, _alarm)
    signal.alarm(30)
    try:
        extra = Facts(fn.ast, only=UNCHECKED)
        seen = {facts.errors.get(n): n for n, st in facts.status.items() if st.startswith('crash:')}
        for n, st in extra.status.items():
            if st.startswith('crash:') and extra.errors.get(n) in seen:
                st = f'blocked:{seen[extra.errors.get(n)]}'
            facts.status[n] = st
        facts.errors.update(extra.errors)
    except _Timeout:
        res.cls('analysis-crash:unchecked-analysis:no-termination-within-30s')
        res.skip('analysis-crash:unchecked-analysis:no-termination-within-30s')
        res.sample({'analysis_crash': 'unchecked analysis: no-termination-within-30s', 'func': fname, 'src': src})
    finally:
        signal.alarm(0)
        signal.signal(signal.SIGALRM, old)
    for name, st in facts.status.items():
        if st == 'ok':
            res.cls(f'accepted:{name}')
        elif st.startswith('reject:'):
            res.skip(f'not-accepted:{name}:{st[7:]}')
        elif st.startswith('blocked:'):
            res.skip(f'blocked-by-crash-of:{st[8:]}:{name}')
        else:
            key = f'analysis-crash:{name}:{st[6:]}'
            res.cls(key)
            res.skip(key)
            if res.classes[key] <= 1:
                res.sample({'analysis_crash': key, 'error': facts.errors.get(name), 'func': fname, 'src': src})
    tags = facts.merge_stats()
    for t in tags:
        res.cls('prog:' + t)
    weaker = any(t.startswith('merge-weaker') for t in tags)
    rt = TracingInterpreter13()
    for k, (args, ctx_text) in enumerate(inputs):
        res.case()
        got = run_traced(rt, fn, args, ctx_text)
        rec = rt.recs.get(id(fn.ast))
        if got[0] == 'timeout':
            res.skip('timeout-inconclusive')
        elif got[0] == 'raise':
            res.skip(f'run-raised:{got[1]}')
        else:
            res.cls('completed')
            stats = {}
            viol = check_run(facts, rec, got[1], stats, rows=rows)
            for s, n in stats.items():
                if s.startswith('alias-pair:'):
                    res.cls(s, n)
                else:
                    res.count(s, n)
            routes = {s.split(':')[1] for s in stats if s.startswith('alias-pair:')}
            nt_alias = any(r.split('/')[-1] in NT_ROUTES or r.startswith('iteration') or r.startswith('tuple-unpack')
                           for r in routes)
            if weaker:
                res.cls('nt:weaker-merge')
            if nt_alias:
                res.cls('nt:alias-route')
            if weaker or nt_alias:
                res.nontrivial((sh, fname, k))
            case = {'src': src, 'func': fname, 'args': encode_args(args), 'ctx': ctx_text, 'origin': origin}
            res.maybe_sample(case, nt=bool(weaker or nt_alias))
            seen = set()
            for bucket, exp, g, detail in viol:
                if bucket in seen:
                    continue
                seen.add(bucket)
                res.fail(bucket, case, expected=exp, got=g, note=str(detail)[:300])
        if rec is not None:
            rec.reset()


# ---------------------------------------------------------------------------

def shards(tier, seed):
    thorough = tier == 'thorough'
    out = []
    n_gen, per_gen = (96, 300) if thorough else (32, 36)
    n_x, per_x = (160, 300) if thorough else (48, 56)
    out += [('progen', i, per_gen, seed, tier) for i in range(n_gen)]
    out += [('c13gen', i, per_x, seed, tier) for i in range(n_x)]
    out += [('tmpl', i, seed, tier) for i in range(16 if thorough else 8)]
    only = os.environ.get('VERIF_C13_KINDS')      # development aid: run a subset of the shard kinds
    if only:
        out = [s for s in out if s[0] in only.split(',')]
    return out


def profile_for(i):
    p = progen.Profile(typed_signature=True)
    if i % 4 == 1:
        p.max_stmts = 4
        p.expr_depth = 2
    if i % 4 == 2:
        p.max_stmts = 8
    return p


def run_shard(shard):
    res = Result()
    kind = shard[0]
    if kind == 'progen':
        _, i, per, seed, tier = shard
        for j in range(per):
            ch = progen.RandChooser(h64(seed, 'C13', i, j))
            prog = progen.gen_program(ch, profile_for(i))
            inputs = [(progen.gen_inputs(ch, prog), ch.choice(progen.CALLER_CTXS)) for _ in range(N_INPUTS)]
            check_module(res, prog.src, [(prog.main, inputs)], f'progen:{seed}:{i}:{j}')
        return res
    if kind == 'c13gen':
        _, i, per, seed, tier = shard
        for j in range(per):
            ch = progen.RandChooser(h64(seed, 'C13x', i, j))
            mod = c13_gen.gen_module(ch, i)
            funcs = [(f.name, [(c13_gen.gen_inputs(ch, f), ch.choice(progen.CALLER_CTXS)) for _ in range(N_INPUTS)])
                     for f in mod.funcs]
            check_module(res, mod.src, funcs, f'c13gen:{seed}:{i}:{j}')
        return res
    if kind == 'tmpl':
        _, i, seed, tier = shard
        ch = progen.RandChooser(h64(seed, 'C13t', i))
        for name, src, funcs in c13_gen.template_cases(ch, i, 6 if tier == 'thorough' else 2):
            check_module(res, src, funcs, f'tmpl:{name}')
        return res
    raise ValueError(shard)


def replay(case):
    res = Result()
    check_module(res, case['src'], [(case['func'], [(decode_args(case['args']), case['ctx'])])], case.get('origin', 'replay'))
    return [f for fl in res.failures.values() for f in fl]


def selftest():
    """Each oracle must notice a reported fact that is false of a run: corrupt one fact at a time."""
    from fpy2.analysis import ValueClass
    from fpy2.analysis.array_size import ListSize
    from fpy2.types import BoolType
    src = ('@fp.fpy(ctx=fp.REAL)\ndef f(a: fp.Real, xs: list[fp.Real]) -> fp.Real:\n    ks = [1, 2]\n    ys = xs\n    c = 2 * 3\n'
           '    if a > 0:\n        c = c + a\n    z = 0 * 1\n    return c + len(ys) + ks[0] + z\n')
    m = load_module(src)
    try:
        facts = Facts(m.f.ast)
        assert all(st == 'ok' for st in facts.status.values()), facts.status
        rt = TracingInterpreter13()
        r = rt.eval(m.f, [3.0, [1.0]])
        rec = rt.recs[id(m.f.ast)]
        st = {}
        assert check_run(facts, rec, r, st) == [], check_run(facts, rec, r, {})
        assert st['facts:const'] > 5 and st['facts:alias'] >= 1 and st['facts:reach'] >= 6 and st['facts:size'] >= 4, st
        assert st['facts:value_class-nontop'] >= 4 and st['facts:reach-through-phi'] >= 1, st

        def find(table, text):
            return [e for e in table if e.format() == text]
        pe, sz, vc, ti, du, al = (facts.get(n) for n in ('PartialEval', 'ArraySizeInfer', 'ValueClassInfer', 'TypeInfer',
                                                         'DefineUse', 'Alias'))
        pe.by_expr[find(pe.by_expr, '(2 * 3)')[0]] = Fraction(7)
        sz.by_expr[find(sz.by_expr, '[1, 2]')[0]] = ListSize(None, 5)
        vc.by_expr[find(vc.by_expr, '(0 * 1)')[0]] = ValueClass.FINITE
        ti.by_expr[find(ti.by_expr, 'a')[0]] = BoolType()
        al.may_alias = lambda a, b: False
        bad = {b.split('/')[0] for b, *_ in check_run(facts, rec, r, {})}
        assert bad == {'const', 'size', 'value_class', 'type', 'alias'}, bad
        cuse = [e for e in du.use_to_def if e.format() == 'c'][-1]
        du.use_to_def[cuse] = facts.entry_defs['a']
        bad = {b.split('/')[0] for b, *_ in check_run(facts, rec, r, {})}
        assert 'reach' in bad, bad
    finally:
        unload(m)
