"""
C19 -- Sites, indices and cursors name exactly what they say.

Programs are generated as *watermarked* source text (vlib/c19_gen.py): every statement binds a
program-unique name, so which original statement a statement descends from is decided by the names bound
inside it, independently of paths.  Two drivers:

* single-step contract, per (program, strategy, parameters): listing vs my own candidate scan; `where=j`
  rewrites exactly the statement site j names (structural diff along that path + watermarks + the reported
  edit + forwarding of *every* statement of the program); bad indices are rejected; `where=None` and
  `where=cursor` equal the corresponding index-wise compositions;
* histories: a Hypothesis RuleBasedStateMachine taking cursors, applying aimed / unaimed / non-reporting
  passes, forwarding and re-aiming old cursors; invariant on watermarks.
"""

from __future__ import annotations

import hashlib
import traceback

import fpy2 as fp
from fpy2.ast import fpyast as A
from fpy2.function import Function
from fpy2.utils import NamedId
import fpy2.strategies as S
from fpy2.strategies import (BlockCursor, ExprCursor, StmtCursor, TransformDeclined, TransformError,
                             TransformReferenceError)
from fpy2.transform import ForUnrollStrategy, SplitLoopStrategy
from fpy2.rewrite import Rewrite, find_all
from fpy2.types import ListType, RealType

from vlib import progen
from vlib import c19_gen as G
from vlib import c19_model as M
from vlib.load import load_module, unload
from vlib.runner import Result, h64

PROPERTY = 'C19'
LEVEL = 'exploration'
RULE = ('Programs: own generator of watermarked FPy source (each statement binds a program-unique name; nested for/while/if/with '
        'blocks, helper calls incl. nested ones, in loop iterables, if- and while-conditions, asserts, indexed assignments and '
        'expression statements; rounding blocks over 16 contexts incl. bound, cast, non-variable, mixed and returned bodies), 7 foci; '
        'plus a bounded enumeration of every arrangement of sites / refusals / other statements (<= 2 top-level items, nesting <= 2; '
        '2068 shapes, all in thorough, a seed-rotated third of the for-loop shapes and all others in quick).  Single-step: every '
        'aimable strategy (unroll_for, unroll_while, split, inline, unfold_special/neg_zero/overflow, float_to_fixed, rescale_fixed, '
        'insert_round, Rewrite with an expression, a one-statement and a two-statement rule) with its parameters; for every site '
        'index j: structural diff along the path of site j, watermark set, reported edit, forwarding of every statement vs a '
        'reference model; out-of-range and non-index `where`; where=None, where=cursor, where=statement-of-an-expression-site and '
        'where=region vs index-wise composition; cursors naming no site; `within`; listing vs own candidate scan.  Histories: '
        'RuleBasedStateMachine (take cursor on a statement / site / region / call expression; aim by index, by old cursor, at '
        'nothing; shift-then-re-aim; reporting and non-reporting unaimed passes; advance a cursor mid-chain; cursors of unrelated '
        'programs) and, for each enumerated shape, every history of <= 2 aimed steps with cursors held on all statements.  '
        'Invariant: a held cursor raises TransformReferenceError or resolves to statements whose watermarks are a non-empty subset '
        'of the origin statement\'s, and exactly where the reference model replayed over every edit log says.  '
        'Non-trivial = (program, strategy) with >= 2 sites in one block, nested sites or a refusal between two sites, or a history '
        'with >= 2 edits before the block of a held cursor; distinct by (source hash, strategy parameters / step list).')
ASSUMPTIONS = [
    'Statement descent is decided by watermarks: names bound by exactly one statement of the origin program and never produced by '
    'fpy2 (no generated name ends in a non-digit suffix `x`).',
    'A statement cursor or region used as `where` selects every site at or beneath it (fpy2/strategies/__init__.py docstring), so '
    'where=cursor_j is compared with the composition of all sites at or beneath site j, and with where=j only when there is one.',
    'A pass whose EditLog has exprs_preserved=False (lift_context) may rewrite expressions of statements it does not report '
    '(EditLog docstring); for those, untouched statements are compared modulo expressions.',
    'Statements one edit consumed together (a multi-statement rewrite window) share their image (EditLog._forward_region), so '
    'their watermarks are legitimate company for a cursor on one of them.',
    'unroll_for and split drop a loop whose iterable is statically empty, leaving only `t = <iterable>` (their docstrings); a site '
    'or a held cursor may then lose all watermarks (counted as statically-empty-loop-dropped).',
    'Forwarding semantics taken from the docstrings of Edit / EditLog.forward / Function.forward: later siblings shift by '
    'inserted - removed, a replaced statement forwards to its region, a statement inside a replaced one or a deleted one does '
    'not forward, a pass that reports nothing stops the walk; fpy2 is required to agree with this model, not merely to raise.',
    'where=None is compared with applying the sites one by one in reverse listing order, name-blind (shape of statements and '
    'expressions, multiset of bound watermarks, evaluation on 2 inputs); skipped for one-level inlining of a '
    'helper that itself calls helpers (new sites appear before the remaining ones).',
    'Non-integer `where` (True, 0.0, "0") must be rejected by TypeError or a TransformError; out-of-range integers by TransformReferenceError.',
]
EXHAUSTIVE = {'quick': False, 'thorough': False}
FLOORS = {'if-expression-with-candidates-in-condition-and-arm': 30, 'two-sites-one-block': 50, 'nested-sites': 50, 'refusal-between-sites': 20,
          'hist:>=2-edits-before-cursor-block': 10, 'hist:cursor-resolved': 100, 'hist:cursor-raised': 100,
          'hist:resolved-across>=2-steps': 50, 'hist:aimed-with-old-cursor-that-moved': 10,
          'hist:held-across-a-pass-that-reports-nothing': 50}


# ---------------------------------------------------------------------------
# rewrite rules (patterns need source text, so they live in a synthetic module)

_PAT_SRC = '''
@fp.pattern
def fma_l(a, b, c):
    a * b + c

@fp.pattern
def fma_r(a, b, c):
    fp.fma(a, b, c)

@fp.pattern
def swap_l(a, b):
    y = a * b

@fp.pattern
def swap_r(a, b):
    y = fp.fma(a, b, 0)

@fp.pattern
def pair_l(a, b, c, d):
    y = a * b
    z = c + d

@fp.pattern
def pair_r(a, b, c, d):
    y = a * b
    z = c + d
    z = z + y
'''
_PATS = None


def pats():
    global _PATS
    if _PATS is None:
        m = load_module(_PAT_SRC, name='_c19_patterns')
        _PATS = {'fma': (m.fma_l, Rewrite(m.fma_l, m.fma_r)), 'swap': (m.swap_l, Rewrite(m.swap_l, m.swap_r)),
                 'pair': (m.pair_l, Rewrite(m.pair_l, m.pair_r))}
    return _PATS


# ---------------------------------------------------------------------------
# strategy configurations

ROUNDERS = {'unfold_special': True, 'unfold_neg_zero': False, 'unfold_overflow': False,
            'float_to_fixed': False, 'rescale_fixed': True}        # name -> does a `fp.cast` block count
CTXS = {'FP64': fp.FP64, 'FP32': fp.FP32, 'FP16': fp.FP16}


def cfg_name(d):
    return ','.join(f'{k}={d[k]}' for k in sorted(d))


class Cfg:
    """One strategy with fixed parameters: how to apply, list, and scan candidates independently."""

    def __init__(self, desc, mod):
        self.desc = dict(desc)
        self.name = cfg_name(desc)
        self.s = desc['s']
        self.mod = mod
        self.kind = 'expr' if self.s in ('inline', 'insert_round') or (self.s == 'rewrite' and desc['rule'] == 'fma') else 'stmt'
        # does the statement holding the site survive the rewrite (with spliced statements ahead of it)?
        self.survives = self.s == 'inline' or (self.s == 'rewrite' and desc['rule'] == 'fma')
        self.funcs = None
        if self.s == 'inline' and desc.get('funcs'):
            self.funcs = [getattr(mod, h) for h in desc['funcs']]

    # -- fpy2 entry points ---------------------------------------------------
    def apply(self, f, where):
        d = self.desc
        s = self.s
        if s == 'unroll_for':
            return S.unroll_for(f, where, d['times'],
                                strategy=ForUnrollStrategy.STRICT if d['strict'] else ForUnrollStrategy.PEEL)
        if s == 'unroll_while':
            return S.unroll_while(f, where, d['times'])
        if s == 'split':
            return S.split(f, d['factor'], where,
                           strategy=SplitLoopStrategy.STRICT if d['strict'] else SplitLoopStrategy.PEEL)
        if s == 'inline':
            return S.inline(f, where, funcs=self.funcs, recursive=d['recursive'])
        if s in ROUNDERS:
            return getattr(S, s)(f, where=where)
        if s == 'insert_round':
            return S.insert_round(f, CTXS[d['ctx']], where=where)
        if s == 'rewrite':
            return pats()[d['rule']][1].apply(f, where)
        raise ValueError(s)

    def _kw(self):
        d = self.desc
        s = self.s
        if s == 'unroll_for':
            return {'times': d['times'], 'strategy': ForUnrollStrategy.STRICT if d['strict'] else ForUnrollStrategy.PEEL}
        if s == 'split':
            return {'factor': A.Integer(d['factor'], None),
                    'strategy': SplitLoopStrategy.STRICT if d['strict'] else SplitLoopStrategy.PEEL}
        if s == 'inline':
            return {'funcs': self.funcs}
        if s == 'insert_round':
            return {'ctx': CTXS[d['ctx']]}
        return {}

    def sites(self, f, within=None):
        if self.s == 'rewrite':
            return find_all(pats()[self.desc['rule']][0], f, within)
        return S.sites(getattr(S, self.s), f, within=within, **self._kw())

    def refusals(self, f):
        if self.s == 'rewrite':
            return []
        return S.refusals(getattr(S, self.s), f, **self._kw())

    # -- my own candidate scan ----------------------------------------------
    def candidates(self, f_ast):
        """[(stmt_path, node)] in visit order: every point of the kind the strategy considers."""
        s = self.s
        out = []
        if s in ('unroll_for', 'split'):
            return [(p, st) for p, st in M.walk(f_ast) if isinstance(st, A.ForStmt)]
        if s == 'unroll_while':
            return [(p, st) for p, st in M.walk(f_ast) if isinstance(st, A.WhileStmt)]
        if s == 'inline':
            for p, st, e in M.all_exprs(f_ast):
                if isinstance(e, A.Call) and isinstance(e.fn, Function):
                    if self.funcs is None or any(e.fn is h for h in self.funcs):
                        out.append((p, e))
            return out
        if s in ROUNDERS:
            casts = ROUNDERS[s]
            for p, st in M.walk(f_ast):
                if isinstance(st, A.ContextStmt) and is_rounding_block(st, casts):
                    out.append((p, st))
            return out
        if s == 'insert_round':
            return exact_ops(f_ast)
        if s == 'rewrite':
            if self.desc['rule'] == 'fma':
                for p, st, e in M.all_exprs(f_ast):
                    if type(e) is A.Add and type(e.args[0]) is A.Mul:
                        out.append((p, e))
                return out
            def is_mul(st):
                return isinstance(st, A.Assign) and isinstance(st.target, NamedId) and type(st.expr) is A.Mul
            if self.desc['rule'] == 'swap':
                return [(p, st) for p, st in M.walk(f_ast) if is_mul(st)]
            # 'pair': a window of two consecutive statements `y = a * b; z = c + d` of one block
            for p, st in M.walk(f_ast):
                blk = M.get_block(f_ast, p[:-1]).stmts
                if is_mul(st) and p[-1] + 1 < len(blk):
                    nx = blk[p[-1] + 1]
                    if isinstance(nx, A.Assign) and isinstance(nx.target, NamedId) and type(nx.expr) is A.Add:
                        out.append((p, st))
            return out
        raise ValueError(s)


def is_rounding_block(st, casts):
    """`with C:` (no `as`) whose every statement is `x = fp.round(v)` / `return fp.round(v)` of a variable
    (fp.cast too where the strategy's docstring says so); unannotated."""
    if isinstance(st.target, NamedId):
        return False
    if not st.body.stmts:
        return False
    for b in st.body.stmts:
        if isinstance(b, A.Assign):
            if not isinstance(b.target, NamedId) or b.type is not None:
                return False
        elif not isinstance(b, A.ReturnStmt):
            return False
        e = b.expr
        ok = type(e) is A.Round or (casts and type(e) is A.Cast)
        if not ok or type(e.args[0]) is not A.Var:
            return False
    return True


def _is_real_ctx(e):
    if isinstance(e, A.ForeignVal):
        return e.val is fp.REAL
    try:
        return e.format() == 'fp.REAL'
    except Exception:
        return False


def exact_ops(f_ast):
    """Roundable operations (+ - * abs neg round cast) whose innermost enclosing scope is `fp.REAL`
    (a `with fp.REAL:` block, or the function's pinned context when no `with` encloses them)."""
    ROUNDABLE = (A.Add, A.Sub, A.Mul, A.Abs, A.Neg, A.Round, A.Cast)
    out = []

    def go(block, prefix, exact):
        for i, st in enumerate(block.stmts):
            here = prefix + (i,)
            # a `with`'s own context expression is evaluated under the enclosing scope
            for top in M.stmt_own_exprs(st):
                for e in M.expr_preorder(top):
                    if isinstance(e, ROUNDABLE) and exact:
                        out.append((here, e))
            inner = exact
            if isinstance(st, A.ContextStmt):
                inner = _is_real_ctx(st.ctx)
            for field, sub in M.blocks_of(st):
                go(sub, here + (field,), inner)
    go(f_ast.body, (), f_ast.ctx is fp.REAL)
    return out


def cfg_space(focus):
    out = []
    if focus in ('for', 'mixed'):
        for times in (1, 2, 3):
            for strict in (False, True):
                out.append({'s': 'unroll_for', 'times': times, 'strict': strict})
        for factor in (2, 3):
            for strict in (False, True):
                out.append({'s': 'split', 'factor': factor, 'strict': strict})
    if focus in ('while', 'mixed'):
        out += [{'s': 'unroll_while', 'times': 1}, {'s': 'unroll_while', 'times': 2}]
    if focus in ('call', 'mixed'):
        out += [{'s': 'inline', 'funcs': None, 'recursive': True}, {'s': 'inline', 'funcs': None, 'recursive': False},
                {'s': 'inline', 'funcs': ['h0'], 'recursive': True}, {'s': 'inline', 'funcs': ['h1', 'h3'], 'recursive': False}]
    if focus in ('round', 'mixed'):
        out += [{'s': r} for r in ROUNDERS]
    if focus == 'insert':
        out += [{'s': 'insert_round', 'ctx': c} for c in ('FP64', 'FP64', 'FP32', 'FP16')]
    if focus in ('rewrite', 'mixed'):
        out += [{'s': 'rewrite', 'rule': 'fma'}, {'s': 'rewrite', 'rule': 'swap'}, {'s': 'rewrite', 'rule': 'pair'}]
    return out


ALL_CFGS = []
for _f in ('for', 'while', 'call', 'round', 'insert', 'rewrite'):
    for _d in cfg_space(_f):
        if _d not in ALL_CFGS:
            ALL_CFGS.append(_d)


# ---------------------------------------------------------------------------
# loading

class Prog:
    def __init__(self, src, focus):
        self.src = src
        self.focus = focus
        self.mod = load_module(src)
        f = self.mod.main
        if focus == 'insert':
            # pin argument formats so that format inference can bound the exact operations
            f = S.monomorphize(f, fp.FP64, [RealType(fp.FP32), RealType(fp.FP32), ListType(RealType(fp.FP32))])
        self.f = f
        self.universe = frozenset(n for p, st in M.walk(f.ast) for n in M.bound_names(st) if n.endswith('x'))
        self.sh = hashlib.blake2b(src.encode(), digest_size=8).hexdigest()

    def close(self):
        unload(self.mod)


def evaluate(fn, n=2):
    out = []
    for args in G.INPUTS[:n]:
        try:
            a = (args[0], args[1], list(args[2]))
            out.append(repr(fn(*a)))
        except Exception as e:       # evaluation is a secondary comparison: the same failure is "equal"
            out.append(f'raise {type(e).__name__}')
    return out


def cursor_region(c):
    """(block_path_tuple, start, stop) a statement cursor / region / expression cursor sits at."""
    if isinstance(c, BlockCursor):
        return M.tuple_of_path(c.block_path), c.span.start, c.span.stop
    if isinstance(c, ExprCursor):
        p = M.expr_stmt_tuple(c.path)
    else:
        p = M.tuple_of_path(c.path)
    return p[:-1], p[-1], p[-1] + 1


def norm_cursor(c):
    """fpy2 cursor -> ('stmt', path) | ('region', block, start, stop)"""
    if isinstance(c, BlockCursor):
        return ('region', M.tuple_of_path(c.block_path), c.span.start, c.span.stop)
    if isinstance(c, StmtCursor):
        return ('stmt', M.tuple_of_path(c.path))
    raise TypeError(c)


def fwd(g, cursor):
    """g.forward(cursor) normalised; only the documented exception is caught."""
    try:
        return norm_cursor(g.forward(cursor))
    except TransformReferenceError as e:
        return ('raise', str(e)[:80])


def resolve_norm(g_ast, r):
    if r[0] == 'stmt':
        return [M.get_stmt(g_ast, r[1])]
    blk = M.get_block(g_ast, r[1])
    return blk.stmts[r[2]:r[3]]


# ---------------------------------------------------------------------------
# checks shared by the single-step contract and the histories

def check_step_log(res, f, g, case, tag):
    """One reporting step f -> g: statements the log does not touch are unchanged where the reference model
    puts them, and fpy2's forwarding agrees with the model on every statement of f."""
    log = M.Log(g.edits)
    ok = True
    for p, st in M.walk(f.ast):
        kind = M.touched_kind(log, p)
        exp = M.model_forward(log, p)
        got = fwd(g, StmtCursor(f.ast, M.path_of_tuple(p)))
        if kind is None or kind == 'ancestor' or kind == 'dirty':
            # must forward, to a statement of the same kind
            if exp[0] != 'stmt':
                res.fail(f'{tag}editlog/untouched-statement-has-no-image', case, expected='an image', got=[list(p), exp])
                ok = False
                continue
            try:
                img = M.get_stmt(g.ast, exp[1])
            except (IndexError, KeyError):
                res.fail(f'{tag}editlog/image-path-does-not-exist', case, expected=list(p), got=list(exp[1]))
                ok = False
                continue
            if kind is None:
                same = M.same_stmt(st, img, log.exprs_preserved)
            else:
                same = type(st) is type(img) and (not log.exprs_preserved or kind == 'dirty' or M.header_equiv(st, img))
                if kind == 'dirty' and not M.blocks_of(st):
                    same = type(st) is type(img)
            if not same:
                res.fail(f'{tag}editlog/unreported-change', case,
                         expected=f'statement {list(p)} unchanged at {list(exp[1])}: {st.format()[:120]}',
                         got=img.format()[:160])
                ok = False
                continue
        if got[0] == 'raise':
            if exp[0] != 'raise':
                res.fail(f'forward/raises-for-forwardable-statement/{relation(log, p)}', case,
                         expected=[list(p), exp], got=got)
                ok = False
        elif exp[0] == 'raise':
            res.fail(f'forward/resolves-{exp[1]}-statement', case, expected=[list(p), exp], got=got)
            ok = False
        elif got != exp:
            res.fail(f'forward/wrong-image/{relation(log, p)}', case, expected=[list(p), exp], got=got)
            ok = False
    return ok


def relation(log, p):
    """Where `p` sits relative to the edits (root-cause part of a forwarding bucket)."""
    rel = set()
    for (b, idx, rem, ins) in log.edits:
        q = b + (idx,)
        if p[:-1] == b:
            if p[-1] >= idx + rem:
                rel.add('later-sibling')
            elif p[-1] >= idx:
                rel.add('site')
            else:
                rel.add('earlier-sibling')
        elif len(p) > len(b) and p[:len(b)] == b:
            i = p[len(b)]
            if i >= idx + rem:
                rel.add('under-later-sibling')
            elif i >= idx:
                rel.add('inside-site')
            else:
                rel.add('under-earlier-sibling')
        elif len(b) > len(p) and b[:len(p)] == p:
            rel.add('ancestor')
    if not rel:
        return 'unrelated-block'
    # one label: the relation that moves the statement, if any
    for r in ('site', 'inside-site', 'later-sibling', 'under-later-sibling', 'ancestor', 'earlier-sibling', 'under-earlier-sibling'):
        if r in rel:
            return r
    return 'unrelated-block'


def _unordered(sh):
    """shape with every block's statements as a multiset (inlining two calls of one statement in another order
    emits the same statements in another order)"""
    name, exprs, blocks = sh
    return (name, exprs, tuple((f, tuple(sorted((_unordered(x) for x in stmts), key=repr))) for f, stmts in blocks))


def _first_diff(a_stmts, b_stmts):
    for x, y in zip(a_stmts, b_stmts):
        if M.shape(x) != M.shape(y):
            bx, by = M.blocks_of(x), M.blocks_of(y)
            if type(x) is type(y) and bx and len(bx) == len(by) and \
                    tuple(M.expr_shape(e) for e in M.stmt_own_exprs(x)) == tuple(M.expr_shape(e) for e in M.stmt_own_exprs(y)):
                for (_, p), (_, q) in zip(bx, by):
                    d = _first_diff(p.stmts, q.stmts)
                    if d is not None:
                        return d
            return (x.format()[:700], y.format()[:700])
    if len(a_stmts) != len(b_stmts):
        longer = a_stmts if len(a_stmts) > len(b_stmts) else b_stmts
        return (f'{len(a_stmts)} statements', f'{len(b_stmts)} statements; extra: ' + longer[min(len(a_stmts), len(b_stmts))].format()[:300])
    return None


def same_program_blind(res, a, b, cfg, prog, case, bucket, note):
    """Two derivations that should be the same program up to fresh names."""
    sa = tuple(M.shape(s) for s in a.ast.body.stmts)
    sb = tuple(M.shape(s) for s in b.ast.body.stmts)
    if cfg.kind == 'expr':
        sa = tuple(sorted((_unordered(x) for x in sa), key=repr))
        sb = tuple(sorted((_unordered(x) for x in sb), key=repr))
    ma = {k: v for k, v in M.bound_multiset(a.ast.body.stmts).items() if k in prog.universe}
    mb = {k: v for k, v in M.bound_multiset(b.ast.body.stmts).items() if k in prog.universe}
    if ma != mb:
        diff = sorted(k for k in set(ma) | set(mb) if ma.get(k) != mb.get(k))
        res.fail(f'{bucket}/watermarked-statements-differ', case, expected=f'{note}: {[(k, mb.get(k, 0)) for k in diff[:6]]}',
                 got=[(k, ma.get(k, 0)) for k in diff[:6]])
        return False
    if sa != sb:
        d = _first_diff(a.ast.body.stmts, b.ast.body.stmts) or ('?', '?')
        res.fail(f'{bucket}/shape-differs', case, expected=note + ':\n' + d[1], got=d[0])
        return False
    ea, eb = evaluate(a), evaluate(b)
    if ea != eb:
        res.fail(f'{bucket}/evaluation-differs', case, expected=eb, got=ea)
        return False
    return True


def growth(cfg, f_ast):
    """Upper bound on how many statements rewriting *every* loop of `f_ast` makes (loops multiply their bodies)."""
    if cfg.s == 'unroll_for':
        kind, mult = A.ForStmt, cfg.desc['times'] + 2
    elif cfg.s == 'unroll_while':
        kind, mult = A.WhileStmt, cfg.desc['times'] + 1
    elif cfg.s == 'split':
        kind, mult = A.ForStmt, 3
    else:
        return sum(1 for _ in M.walk(f_ast))

    def size(block):
        n = 0
        for st in block.stmts:
            inner = sum(size(b) for _, b in M.blocks_of(st))
            n += (1 + inner) * mult + 3 if isinstance(st, kind) else 1 + inner
        return n
    return size(f_ast.body)


def compose(cfg, f, idxs):
    """Rewrite the listed sites `idxs` one at a time, last first (earlier indices keep their meaning)."""
    g = f
    for j in sorted(idxs, reverse=True):
        g = cfg.apply(g, j)
    return g


def check_rewrote_site(res, universe, f, g, j, regions, ref_regions, site_pos, ref_pos, cj, tag, site_node=None):
    """`g = strategy(f, where=j)`: exactly the run of statements site j names was rewritten (structural diff along
    its path), it kept its watermarks, the reported edit describes that rewrite, and every statement of `f`
    forwards as the reference model says."""
    k = len(regions)
    bpath, start, stop = regions[j]
    spath = bpath + (start,)
    length = stop - start
    reason, X, n = M.locate_change(f.ast, g.ast, spath, length)
    if reason is not None:
        # which candidate *was* rewritten, if any: tells an index miscount from a stray rewrite
        bucket = 'where-index/did-not-rewrite-exactly-site-j'
        for i in range(k):
            if i != j and M.locate_change(f.ast, g.ast, regions[i][0] + (regions[i][1],), regions[i][2] - regions[i][1])[0] is None:
                lim = max(site_pos[i], site_pos[j]) if site_pos else -1
                bucket = ('sites/index-shift-after-refusal' if any(r < lim for r in ref_pos)
                          else 'where-index/rewrote-another-listed-site')
                reason = f'site {i} at {list(regions[i][0] + (regions[i][1],))} was rewritten instead; ' + reason
                break
        else:
            for rb, r0, r1 in ref_regions:
                if M.locate_change(f.ast, g.ast, rb + (r0,), r1 - r0)[0] is None:
                    bucket = 'sites/index-shift-after-refusal'
                    reason = f'the refused candidate at {list(rb + (r0,))} was rewritten instead; ' + reason
                    break
        res.fail(f'{tag}{bucket}', cj,
                 expected=f'only site {j} at {list(spath)} rewritten', got=reason + '\n' + g.format()[:1200])
        return False
    orig = M.get_block(f.ast, bpath).stmts[start:stop]
    if isinstance(site_node, A.Expr) and length == 1 and type(X[-1]) is type(orig[0]):
        # an expression site: *which* expression of the statement went away.  The statement that held it comes last
        # in X; the only sub-expression it does not reproduce must be the one the listed cursor names.
        ea, eb = M.stmt_own_exprs(orig[0]), M.stmt_own_exprs(X[-1])
        gone = [r for x, y in zip(ea, eb) for r in M.diff_roots(x, y)] if len(ea) == len(eb) else None
        if gone is None or len(gone) != 1 or gone[0] is not site_node:
            res.fail(f'{tag}where-index/rewrote-another-expression-of-the-statement', cj,
                     expected=f'only site {j}, `{site_node.format()[:120]}`, replaced in `{orig[0].format()[:200]}`',
                     got=(['?'] if gone is None else [x.format()[:120] for x in gone]) + [X[-1].format()[:300]])
            return False
    m_s, m_x = M.marks_of(orig, universe), M.marks_of(X, universe)
    if m_s != m_x:
        # a loop whose iterable is statically empty is dropped: only `t = <iterable>` is left (split: "empty
        # regions are dropped entirely"; unroll_for: no main loop and no peeled copies for a known length 0)
        dropped = (tag.startswith(('unroll_for', 'split')) and not m_x and len(X) == 1 and length == 1
                   and isinstance(orig[0], A.ForStmt) and isinstance(X[0], A.Assign) and X[0].expr.is_equiv(orig[0].iterable))
        if dropped:
            res.cls('statically-empty-loop-dropped')
        else:
            res.fail(f'{tag}where-index/watermarks-of-site-changed', cj, expected=sorted(m_s), got=sorted(m_x))
    # the reported edit
    if g.edits is None:
        res.fail(f'{tag}editlog/aimed-strategy-reports-nothing', cj, expected='an edit log', got=None)
        return False
    log = M.Log(g.edits)
    # either description is truthful: the run was replaced by n statements, or (where the last statement of X
    # is the original one with its expressions rewritten) n - 1 statements were spliced ahead of it
    desc_a = ([(bpath, start, length, n)], set())
    desc_b = ([(bpath, start, 0, n - 1)] if n > 1 else [], {spath})
    have = (sorted(log.edits), log.dirty)
    ok_b = length == 1 and type(X[-1]) is type(orig[0]) and have == (sorted(desc_b[0]), desc_b[1])
    if have != (sorted(desc_a[0]), desc_a[1]) and not ok_b:
        res.fail(f'{tag}editlog/edit-does-not-describe-the-rewrite', cj,
                 expected={'either': [desc_a[0], 'or', desc_b[0], sorted(desc_b[1])]}, got=log.describe())
        return False
    return check_step_log(res, f, g, cj, tag)


# ---------------------------------------------------------------------------
# the single-step contract

MAX_J = 7


def check_single(res: Result, prog: Prog, desc, rnd=None):
    cfg = Cfg(desc, prog.mod)
    f = prog.f
    # every sampling decision below is a function of (source, configuration), so a replay repeats it exactly
    rnd = progen.RandChooser(h64('C19single', prog.sh, cfg_name(desc)))
    case = {'kind': 'single', 'src': prog.src, 'focus': prog.focus, 'cfg': desc}
    tag = f'{cfg.s}: '
    try:
        sites = cfg.sites(f)
        refs = cfg.refusals(f)
    except Exception as e:
        res.case()
        res.fail(f'{tag}sites/listing-raises:{type(e).__name__}', case, expected='a listing', got=traceback.format_exc()[-600:])
        return
    k = len(sites)
    cand = cfg.candidates(f.ast)
    res.count('configs')

    # ---- accounting: sites + refusals = candidates ---------------------------
    def nodes_of(c):
        r = c.resolve()
        return r if isinstance(r, list) else [r]
    site_nodes = [nodes_of(c)[0] for c in sites]
    ref_nodes = [nodes_of(c)[0] for c, _ in refs]
    cand_ids = {id(n): i for i, (_, n) in enumerate(cand)}
    sid = {id(n) for n in site_nodes}
    rid = {id(n) for n in ref_nodes}
    res.case()
    if sid & rid:
        res.fail(f'{tag}sites/point-is-both-site-and-refusal', case, expected='disjoint', got=len(sid & rid))
    missing = [i for nid, i in cand_ids.items() if nid not in sid and nid not in rid]
    if missing:
        p, n = cand[missing[0]]
        res.fail(f'{tag}sites/candidate-neither-listed-nor-refused', case, expected=f'{list(p)}: {n.format()[:100]}',
                 got=f'{k} sites, {len(refs)} refusals')
    extra_s = [n for n in site_nodes if id(n) not in cand_ids]
    if extra_s:
        res.fail(f'{tag}sites/listed-site-is-no-candidate', case, expected='a candidate', got=extra_s[0].format()[:200])
    extra_r = [n for n in ref_nodes if id(n) not in cand_ids]
    if extra_r:
        res.fail(f'{tag}refusals/refused-point-is-no-candidate', case, expected='a candidate', got=extra_r[0].format()[:200])
    order = [cand_ids[id(n)] for n in site_nodes if id(n) in cand_ids]
    # a statement rule lists block by block ("outermost-first"); everything else lists in visit order
    stmt_rule = cfg.s == 'rewrite' and cfg.kind == 'stmt'
    if (order != sorted(order) and not stmt_rule) or len(set(order)) != len(order):
        res.fail(f'{tag}sites/not-in-visit-order', case, expected=sorted(order), got=order)
    r_order = [cand_ids[id(n)] for n in ref_nodes if id(n) in cand_ids]
    if r_order != sorted(r_order):
        res.fail(f'{tag}refusals/not-in-visit-order', case, expected=sorted(r_order), got=r_order)
    if any(not isinstance(why, str) or not why for _, why in refs):
        res.fail(f'{tag}refusals/no-reason', case, expected='a reason', got=[w for _, w in refs][:3])

    # ---- class histogram -----------------------------------------------------
    regions = [cursor_region(c) for c in sites]
    spaths = [b + (s,) for b, s, _ in regions]
    two = any(regions[i][0] == regions[j][0] and regions[i][1] != regions[j][1]
              for i in range(k) for j in range(i + 1, k))
    nested = any(M.is_under(spaths[i], spaths[j]) for i in range(k) for j in range(k) if i != j)
    pos_s = sorted(cand_ids[id(n)] for n in site_nodes if id(n) in cand_ids)
    pos_r = [cand_ids[id(n)] for n in ref_nodes if id(n) in cand_ids]
    between = bool(pos_s) and any(pos_s[0] < r < pos_s[-1] for r in pos_r)
    res.cls(f'k={min(k, 5)}{"+" if k >= 5 else ""}')
    if refs:
        res.cls('has-refusals')
    nt = False
    for flag, name in ((two, 'two-sites-one-block'), (nested, 'nested-sites'), (between, 'refusal-between-sites')):
        if flag:
            res.cls(name)
            nt = True
    if nt:
        res.nontrivial((prog.sh, cfg.name))
        if rnd.int(0, 199) == 0:
            res.sample({'src': prog.src, 'cfg': desc, 'k': k, 'refusals': len(refs)}, nt=True)
    res.cls('strategy:' + cfg.s)
    if cfg.kind == 'expr' and k >= 2:
        # several sites inside one expression whose visit order is not source order
        for _, _, e in M.all_exprs(f.ast):
            if isinstance(e, A.IfExpr):
                in_cond = any(id(x) in sid for x in M.expr_preorder(e.cond))
                in_arm = any(id(x) in sid for x in M.expr_preorder(e.ift)) or any(id(x) in sid for x in M.expr_preorder(e.iff))
                if in_cond and in_arm:
                    res.cls('if-expression-with-sites-in-condition-and-arm')
                    break
        for _, _, e in M.all_exprs(f.ast):
            # the same with candidates (sites or refusals): independent of what the tree refuses inside an arm
            if isinstance(e, A.IfExpr) and any(id(x) in cand_ids for x in M.expr_preorder(e.cond)) and (
                    any(id(x) in cand_ids for x in M.expr_preorder(e.ift)) or any(id(x) in cand_ids for x in M.expr_preorder(e.iff))):
                res.cls('if-expression-with-candidates-in-condition-and-arm')
                break
        for _, _, e in M.all_exprs(f.ast):
            if isinstance(e, (A.Compare, A.And, A.Or, A.ListComp)) and sum(
                    1 for c in M.expr_children(e) if any(id(x) in sid for x in M.expr_preorder(c))) >= 2:
                res.cls('several-sites-under-one-comparison-or-connective')
                break
    if rnd.int(0, 399) == 0:
        res.sample({'src': prog.src, 'cfg': desc, 'k': k, 'refusals': len(refs)})

    # ---- bad indices ---------------------------------------------------------
    for w in (k, k + 3, -1):
        res.case()
        try:
            cfg.apply(f, w)
            res.fail(f'{tag}where-index/out-of-range-index-accepted', dict(case, where=w), expected='TransformReferenceError',
                     got=f'rewrote with k={k}')
        except TransformReferenceError:
            pass
        except Exception as e:
            res.fail(f'{tag}where-index/out-of-range-index-raises:{type(e).__name__}', dict(case, where=w),
                     expected='TransformReferenceError', got=f'{type(e).__name__}: {str(e)[:200]}')
    for w in (True, 0.0, '0'):
        res.case()
        try:
            cfg.apply(f, w)
            res.fail(f'{tag}where-index/non-index-accepted', dict(case, where=repr(w)), expected='rejected', got=f'rewrote with k={k}')
        except (TypeError, TransformError):
            pass
        except Exception as e:
            res.fail(f'{tag}where-index/non-index-raises:{type(e).__name__}', dict(case, where=repr(w)),
                     expected='TypeError or TransformError', got=f'{type(e).__name__}: {str(e)[:200]}')

    # ---- where = j ----------------------------------------------------------
    js = list(range(k))
    if k > MAX_J:
        js = sorted({0, k - 1} | {rnd.int(0, k - 1) for _ in range(MAX_J - 2)})
    by_index = {}
    for j in js:
        res.case()
        cj = dict(case, where=j)
        try:
            g = cfg.apply(f, j)
        except Exception as e:
            res.fail(f'{tag}where-index/listed-index-raises:{type(e).__name__}', cj, expected=f'site {j} of {k} rewritten',
                     got=f'{type(e).__name__}: {str(e)[:300]}')
            continue
        by_index[j] = g
        check_rewrote_site(res, prog.universe, f, g, j, regions, [cursor_region(c) for c, _ in refs],
                           [cand_ids.get(id(n), -1) for n in site_nodes], pos_r, cj, tag,
                           site_node=site_nodes[j] if cfg.kind == 'expr' else None)

    # ---- where = None -------------------------------------------------------
    res.case()
    cn = dict(case, where=None)
    g_all = None
    try:
        if growth(cfg, f.ast) <= 4000:
            g_all = cfg.apply(f, None)
        else:
            res.skip('where-none:growth-bound-not-applied')
    except TransformReferenceError as e:
        if not (cfg.s == 'rewrite' and k == 0):       # documented: a pattern matching nothing is a bad reference
            res.fail(f'{tag}where-none/raises:TransformReferenceError', cn, expected='all sites rewritten', got=str(e)[:300])
    except Exception as e:
        res.fail(f'{tag}where-none/raises:{type(e).__name__}', cn, expected='all sites rewritten',
                 got=f'{type(e).__name__}: {str(e)[:300]}')
    if g_all is not None:
        if k == 0:
            if not _same_body(f.ast, g_all.ast):
                res.fail(f'{tag}where-none/rewrites-with-no-sites', cn, expected='unchanged', got=g_all.format()[:800])
        else:
            calls_helper_with_calls = cfg.s == 'inline' and not cfg.desc['recursive'] and 'h1(' in prog.src.split('def main')[1]
            if growth(cfg, f.ast) > 1200:
                res.skip('where-none:growth-bound')
            elif k > MAX_J + 3:
                res.skip('where-none:too-many-sites')
            elif calls_helper_with_calls:
                res.skip('where-none:one-level-inline-creates-earlier-sites')
            else:
                try:
                    g_seq = compose(cfg, f, range(k))
                except Exception as e:
                    g_seq = None
                    res.fail(f'{tag}where-index/composition-raises:{type(e).__name__}', cn, expected='each site rewritten in turn',
                             got=f'{type(e).__name__}: {str(e)[:300]}')
                if g_seq is not None:
                    same_program_blind(res, g_all, g_seq, cfg, prog, cn, f'{tag}where-none', 'sites rewritten one by one')
            if cfg.s == 'inline':
                # independent of any composition: every listed call is gone, and only the calls its callee's body
                # brings in (one level) have appeared
                want = n_fpy_calls(f.ast) - k
                if not cfg.desc['recursive']:
                    want += sum(n_fpy_calls(n.fn.ast) for n in site_nodes)
                have = n_fpy_calls(g_all.ast)
                if have != want:
                    res.fail(f'{tag}where-none/listed-call-sites-survive', cn,
                             expected=f'{want} calls to FPy functions left after inlining all {k} sites', got=f'{have}\n' + g_all.format()[:1500])
            # log: what it says it touched are sites, every site is covered
            if g_all.edits is not None:
                log = M.Log(g_all.edits)
                touched = set(log.dirty)
                for (b, idx, rem, ins) in log.edits:
                    for q in range(idx, idx + max(rem, 1)):
                        touched.add(b + (q,))
                site_stmts = set()
                for b, s0, s1 in regions:
                    for q in range(s0, s1):
                        site_stmts.add(b + (q,))
                stray = [t for t in touched if t not in site_stmts]
                if stray:
                    res.fail(f'{tag}where-none/edit-at-a-statement-that-is-no-site', cn, expected=sorted(map(list, site_stmts)),
                             got=log.describe())
                uncovered = [t for t in site_stmts if t not in touched and not any(M.is_under(t, u) for u in touched)]
                if uncovered:
                    res.fail(f'{tag}where-none/site-not-covered-by-an-edit', cn, expected=sorted(map(list, site_stmts)),
                             got=log.describe())
                check_step_log(res, f, g_all, cn, tag)

    # ---- where = cursor ------------------------------------------------------
    for j in js[:4]:
        c = sites[j]
        res.case()
        cc = dict(case, where=f'cursor of site {j}')
        if isinstance(c, ExprCursor):
            under = [j]
        else:
            under = [i for i in range(k) if spaths[i] == spaths[j] or M.is_under(spaths[i], spaths[j])]
        try:
            g_c = cfg.apply(f, c)
        except Exception as e:
            res.fail(f'{tag}where-cursor/listed-cursor-raises:{type(e).__name__}', cc, expected='rewritten',
                     got=f'{type(e).__name__}: {str(e)[:300]}')
            continue
        if under == [j]:
            res.cls('cursor=index')
            if j in by_index and not _same_body(g_c.ast, by_index[j].ast):
                res.fail(f'{tag}where-cursor/differs-from-where-index', cc, expected=by_index[j].format()[:1200], got=g_c.format()[:1200])
        else:
            res.cls('cursor-takes-nested')
            try:
                g_ref = compose(cfg, f, under)
            except Exception:
                continue
            same_program_blind(res, g_c, g_ref, cfg, prog, cc, f'{tag}where-cursor', f'sites {under} rewritten one by one')
    # a statement cursor on the statement holding expression sites takes all of them (documented as coarser)
    if cfg.kind == 'expr' and k >= 1:
        j = js[rnd.int(0, len(js) - 1)]
        sc = sites[j].stmt()
        sp = M.tuple_of_path(sc.path)
        under = [i for i in range(k) if spaths[i] == sp or M.is_under(spaths[i], sp)]
        res.case()
        cc = dict(case, where=f'statement of site {j}')
        one_level = cfg.s == 'inline' and not cfg.desc['recursive'] and 'h1(' in prog.src.split('def main')[1]
        try:
            g_c = cfg.apply(f, sc)
            if not one_level:
                g_ref = compose(cfg, f, under)
                same_program_blind(res, g_c, g_ref, cfg, prog, cc, f'{tag}where-stmt-cursor', f'sites {under} rewritten one by one')
        except Exception as e:
            res.fail(f'{tag}where-stmt-cursor/raises:{type(e).__name__}', cc, expected='rewritten',
                     got=f'{type(e).__name__}: {str(e)[:300]}')

    # ---- where = region --------------------------------------------------------
    # a run of consecutive statements takes every site at or beneath it (a multi-statement site only in full)
    blocks = [()] + [p + (fld,) for p, st in M.walk(f.ast) for fld, _ in M.blocks_of(st)]
    bp = blocks[rnd.int(0, len(blocks) - 1)]
    if k and rnd.int(0, 3):
        # mostly a block that holds a site, or one of its enclosing blocks
        b0 = regions[rnd.int(0, k - 1)][0]
        bp = b0[:2 * rnd.int(0, len(b0) // 2)]
    nb = len(M.get_block(f.ast, bp).stmts)
    lo = rnd.int(0, nb - 1)
    hi = rnd.int(lo + 1, nb)
    inside = []
    for i in range(k):
        b, s0, s1 = regions[i]
        if b == bp:
            if lo <= s0 and s1 <= hi:
                inside.append(i)
        elif len(b) > len(bp) and b[:len(bp)] == bp and lo <= b[len(bp)] < hi:
            inside.append(i)
    res.case()
    cr = dict(case, where=f'region {list(bp)}[{lo}:{hi}]')
    one_level = cfg.s == 'inline' and not cfg.desc['recursive'] and 'h1(' in prog.src.split('def main')[1]
    try:
        g_r = cfg.apply(f, BlockCursor(f.ast, M.path_of_tuple(bp), range(lo, hi)))
        if not inside:
            res.fail(f'{tag}where-region/region-holding-no-site-accepted', cr, expected='TransformReferenceError or TransformDeclined',
                     got='rewrote')
        elif len(inside) <= MAX_J + 3 and not one_level and growth(cfg, f.ast) <= 1200:
            res.cls('region-with-sites')
            try:
                g_ref = compose(cfg, f, inside)
            except Exception:
                g_ref = None
            if g_ref is not None:
                same_program_blind(res, g_r, g_ref, cfg, prog, cr, f'{tag}where-region', f'sites {inside} rewritten one by one')
    except TransformError as e:
        if inside:
            res.fail(f'{tag}where-region/region-holding-sites-rejected', cr, expected=f'sites {inside} rewritten',
                     got=f'{type(e).__name__}: {str(e)[:300]}')
    except Exception as e:
        res.fail(f'{tag}where-region/raises:{type(e).__name__}', cr, expected='rewritten or a TransformError',
                 got=f'{type(e).__name__}: {str(e)[:300]}')

    # ---- cursors that name no site ---------------------------------------------
    all_stmts = list(M.walk(f.ast))
    site_set = set(spaths)
    barren = [p for p, st in all_stmts if p not in site_set and not any(M.is_under(q, p) for q in site_set)
              and not (cfg.kind == 'expr' and any(q == p for q in site_set))]
    if barren:
        p = barren[rnd.int(0, len(barren) - 1)]
        res.case()
        cb = dict(case, where=f'cursor on {list(p)} (no site at or beneath)')
        try:
            cfg.apply(f, StmtCursor(f.ast, M.path_of_tuple(p)))
            res.fail(f'{tag}where-cursor/cursor-naming-no-site-accepted', cb, expected='TransformReferenceError or TransformDeclined',
                     got='rewrote')
        except TransformError:
            pass
        except Exception as e:
            res.fail(f'{tag}where-cursor/cursor-naming-no-site-raises:{type(e).__name__}', cb,
                     expected='TransformReferenceError or TransformDeclined', got=f'{type(e).__name__}: {str(e)[:300]}')

    # ---- within ---------------------------------------------------------------
    compound = [p for p, st in all_stmts if M.blocks_of(st)]
    if compound and k:
        p = compound[rnd.int(0, len(compound) - 1)]
        res.case()
        cw = dict(case, within=list(p))
        try:
            got = [cursor_region(c) for c in cfg.sites(f, within=StmtCursor(f.ast, M.path_of_tuple(p)))]
            want = [regions[i] for i in range(k) if spaths[i] == p or M.is_under(spaths[i], p)]
            if cfg.kind == 'expr':
                got, want = sorted(got), sorted(want)
            if got != want:
                res.fail(f'{tag}within/listing-not-restricted-to-the-cursor', cw, expected=want, got=got)
        except Exception as e:
            res.fail(f'{tag}within/raises:{type(e).__name__}', cw, expected='a listing', got=f'{type(e).__name__}: {str(e)[:300]}')


def n_fpy_calls(f_ast):
    return sum(1 for _, _, e in M.all_exprs(f_ast) if isinstance(e, A.Call) and isinstance(e.fn, Function))


def _same_body(a, b):
    return len(a.body.stmts) == len(b.body.stmts) and all(x.is_equiv(y) for x, y in zip(a.body.stmts, b.body.stmts))


# ---------------------------------------------------------------------------
# histories

UNAIMED = ['simplify', 'elim_iter', 'fuse', 'elim_round', 'lift_context', 'close']
NON_REPORTING = {'simplify', 'elim_iter', 'fuse', 'elim_round'}
MAX_STMTS = 150


class History:
    """Executes an explicit list of steps (shared by the state machine and by replay)."""

    def __init__(self, res: Result, prog: Prog, cp='hist'):
        self.res = res
        self.prog = prog
        self.cp = cp                      # class prefix: 'hist' (state machine) or 'ehist' (enumerated)
        self.versions = [prog.f]          # Function objects
        self.reporting = [True]           # did the step producing version i report its edits
        self.held = []                    # dicts
        self.steps = []
        self.case = {'kind': 'history', 'src': prog.src, 'focus': prog.focus, 'steps': self.steps}
        self.n_opaque = 0

    @property
    def cur(self):
        return self.versions[-1]

    def size(self):
        return sum(1 for _ in M.walk(self.cur.ast))

    def snapshot(self):
        return {'kind': 'history', 'src': self.prog.src, 'focus': self.prog.focus, 'steps': [dict(s) for s in self.steps]}

    # -- steps -----------------------------------------------------------------
    def step(self, st):
        self.steps.append(st)
        op = st['op']
        if op == 'cursor':
            self.take_cursor(st)
        elif op == 'cursors-all':
            for k in range(sum(1 for _ in M.walk(self.cur.ast))):
                self.take_cursor({'op': 'cursor', 'k': k, 'ckind': 'stmt'})
        elif op == 'apply':
            self.apply(st)
        elif op == 'advance':
            self.advance(st)
        elif op == 'foreign':
            self.foreign(st)
        else:
            raise ValueError(op)
        self.invariant()

    def take_cursor(self, st):
        f = self.cur
        stmts = list(M.walk(f.ast))
        kind = st['ckind']
        if kind == 'expr':
            cfg = Cfg({'s': 'inline', 'funcs': None, 'recursive': True}, self.prog.mod)
            try:
                ss = cfg.sites(f)
            except Exception:
                ss = []
            if not ss:
                kind = 'stmt'
            else:
                c = ss[st['k'] % len(ss)]
                sp = M.expr_stmt_tuple(c.path)
                self.held.append({'cursor': c, 'version': len(self.versions) - 1, 'kind': 'expr',
                                  'marks': M.marks_of([M.get_stmt(f.ast, sp)], self.prog.universe),
                                  'origin_expr': c.resolve(), 'origin': ('stmt', sp), 'advanced': 0,
                                  'pos': ('stmt', sp), 'extra': set()})
                return
        p, s = stmts[st['k'] % len(stmts)]
        if kind == 'region':
            blk = M.get_block(f.ast, p[:-1])
            stop = min(len(blk.stmts), p[-1] + 1 + st.get('len', 1))
            c = BlockCursor(f.ast, M.path_of_tuple(p[:-1]), range(p[-1], stop))
            origin = ('region', p[:-1], p[-1], stop)
            marks = M.marks_of(blk.stmts[p[-1]:stop], self.prog.universe)
        else:
            c = StmtCursor(f.ast, M.path_of_tuple(p))
            origin = ('stmt', p)
            marks = M.marks_of([s], self.prog.universe)
        self.held.append({'cursor': c, 'version': len(self.versions) - 1, 'kind': 'stmt', 'marks': marks,
                          'origin': origin, 'advanced': 0, 'pos': origin, 'extra': set()})

    def foreign(self, st):
        """A cursor of a program this one does not derive from (a sibling branch, a descendant, a helper) names
        nothing here: forwarding it and aiming with it are bad references."""
        res = self.res
        base = self.versions[st['v'] % len(self.versions)]
        cfg = Cfg(st['cfg'], self.prog.mod)
        if st['v'] % 3 == 2:
            other = self.prog.mod.h1
        else:
            try:
                other = cfg.apply(base, 0)
            except Exception:
                return
            if any(other.ast is g.ast for g in self.versions):
                return
        stmts = list(M.walk(other.ast))
        p, _ = stmts[st['k'] % len(stmts)]
        c = StmtCursor(other.ast, M.path_of_tuple(p))
        res.case()
        res.cls(self.cp + ':foreign-cursor')
        try:
            r = self.cur.forward(c)
            res.fail('forward/resolves-a-cursor-of-an-unrelated-program', self.snapshot(), expected='TransformReferenceError',
                     got=str(r)[:120])
        except TransformReferenceError:
            pass
        try:
            cfg.apply(self.cur, c)
            res.fail(f'{cfg.s}: where-cursor/cursor-of-an-unrelated-program-accepted', self.snapshot(),
                     expected='TransformReferenceError', got='rewrote')
        except TransformReferenceError:
            pass
        except Exception as e:
            res.fail(f'{cfg.s}: where-cursor/cursor-of-an-unrelated-program-raises:{type(e).__name__}', self.snapshot(),
                     expected='TransformReferenceError', got=f'{type(e).__name__}: {str(e)[:200]}')

    def advance(self, st):
        """Replace a held cursor by its image in the current program (so later forwards start mid-chain)."""
        if not self.held:
            return
        h = self.held[st['i'] % len(self.held)]
        try:
            c = self.cur.forward(h['cursor'])
        except TransformReferenceError:
            return
        if c is not h['cursor']:
            h['cursor'] = c
            h['version'] = len(self.versions) - 1
            h['advanced'] += 1
            if h['kind'] == 'stmt':
                h['origin'] = norm_cursor(c)
                h['pos'] = h['origin']

    def apply(self, st):
        res = self.res
        f = self.cur
        name = st['cfg'] if isinstance(st['cfg'], str) else None
        n_stmts = sum(1 for _ in M.walk(f.ast))
        if n_stmts > MAX_STMTS:
            res.count(self.cp + ':program-too-large-skip')
            return
        if name is not None:
            # unaimed passes
            try:
                g = getattr(S, name)(f)
            except Exception as e:
                res.count(self.cp + f':{name}-raised:{type(e).__name__}')
                return
            self.push(g, name, reporting=name not in NON_REPORTING)
            return
        cfg = Cfg(st['cfg'], self.prog.mod)
        w = st['where']
        where = None
        old = None
        if not (isinstance(w, dict) and 'index' in w) and growth(cfg, f.ast) > 400:
            res.count(self.cp + ':growth-bound-skip')
            return
        if isinstance(w, dict) and 'index' in w:
            where = w['index']
        elif isinstance(w, dict) and 'held' in w:
            if not self.held:
                return
            old = self.held[w['held'] % len(self.held)]
            where = old['cursor']
        regions_before = nodes_before = None
        if isinstance(where, int):
            try:
                ss = cfg.sites(f)
                regions_before = [cursor_region(c) for c in ss]
                nodes_before = [c.resolve() for c in ss] if cfg.kind == 'expr' else None
            except Exception:
                regions_before = None
        try:
            g = cfg.apply(f, where)
        except (TransformReferenceError, TransformDeclined) as e:
            res.count(self.cp + f':aim-rejected:{type(e).__name__}')
            if isinstance(where, int):
                # an index the listing reports must not be rejected
                try:
                    k = len(cfg.sites(f))
                except Exception:
                    return
                if 0 <= where < k:
                    res.fail(f'{cfg.s}: where-index/listed-index-raises:{type(e).__name__}', self.snapshot(), expected=f'site {where} of {k} rewritten',
                             got=f'{type(e).__name__}: {str(e)[:200]}')
            return
        except Exception as e:
            if isinstance(e, (ValueError, RuntimeError)) and cfg.s in ('inline', 'split', 'unroll_for'):
                # documented: conflicting free variables / non-inlinable callee / STRICT on a known indivisible length
                res.count(self.cp + f':{cfg.s}-raised:{type(e).__name__}')
                return
            res.fail(f'{cfg.s}: hist/strategy-raises:{type(e).__name__}', self.snapshot(), expected='a program or a TransformError',
                     got=traceback.format_exc()[-700:])
            return
        if isinstance(where, int):
            try:
                k = len(cfg.sites(f))
            except Exception:
                k = None
            if k is not None and not 0 <= where < k:
                res.fail(f'{cfg.s}: where-index/out-of-range-index-accepted', self.snapshot(), expected='TransformReferenceError',
                         got=f'where={where}, k={k}')
        pushed = False
        if isinstance(where, int) and regions_before is not None and 0 <= where < len(regions_before) and g.ast is not f.ast:
            # the single-step contract on a *derived* program (generated statements, copies of watermarks)
            res.cls(self.cp + ':index-aim-checked')
            check_rewrote_site(res, self.prog.universe, f, g, where, regions_before, [], [], [], self.snapshot(), f'{cfg.s}: ',
                               site_node=nodes_before[where] if nodes_before else None)
            pushed = True
        if old is not None:
            res.cls(self.cp + ':aimed-with-old-cursor')
            if old['kind'] == 'stmt':
                try:
                    if norm_cursor(f.forward(old['cursor'])) != old['origin']:
                        res.cls(self.cp + ':aimed-with-old-cursor-that-moved')
                except TransformReferenceError:
                    pass
            # what was rewritten must lie at or beneath what the old cursor named
            self.check_old_aim(old, f, g, cfg)
        self.push(g, cfg.name, reporting=True, checked=pushed)

    def check_old_aim(self, old, f, g, cfg):
        """`where=old_cursor`: every statement the log touches descends from the statement the cursor named."""
        if g.edits is None:
            return
        log = M.Log(g.edits)
        touched = set(log.dirty)
        for (b, idx, rem, ins) in log.edits:
            for q in range(idx, idx + max(rem, 1)):
                touched.add(b + (q,))
        uni = self.prog.universe
        for t in touched:
            try:
                m = M.marks_of([M.get_stmt(f.ast, t)], uni)
            except (IndexError, KeyError):
                continue
            if old['kind'] == 'stmt' and old['marks'] and not m <= (old['marks'] | old['extra']):
                self.res.fail(f'{cfg.s}: rebase/old-cursor-rewrote-an-unrelated-statement', self.snapshot(),
                              expected=f'rewrites within statements marked {sorted(old["marks"])}',
                              got=f'touched {list(t)} marked {sorted(m)}')
                return

    def push(self, g, name, reporting, checked=False):
        res = self.res
        f = self.cur
        res.case()
        sname = strategy_of(name)
        res.cls(self.cp + ':step:' + sname)
        if reporting:
            if g.edits is None:
                res.fail(f'{sname}: editlog/reporting-pass-reports-nothing', self.snapshot(), expected='an edit log', got=None)
            elif g.ast is not f.ast and not checked:
                check_step_log(res, f, g, self.snapshot(), f'{sname}: ')
        self.track(f, g, reporting, sname)
        self.versions.append(g)
        self.reporting.append(reporting)
        if not reporting:
            self.n_opaque += 1

    def track(self, f, g, reporting, sname=''):
        """Move every held cursor's reference position across the step f -> g.  A statement consumed *together with
        others* by one edit (a multi-statement rewrite window) shares their image, so their watermarks become
        legitimate company (EditLog._forward_region: "members one edit consumed together share its image")."""
        log = None
        if reporting and g.edits is not None and g.edits.source is not g.ast:
            log = M.Log(g.edits)
        for h in self.held:
            pos = h['pos']
            if pos[0] == 'raise':
                continue
            if not reporting or g.edits is None:
                h['pos'] = ('raise', 'opaque')
                continue
            if log is None:
                continue
            if pos[0] == 'stmt':
                blk, lo, hi = pos[1][:-1], pos[1][-1], pos[1][-1] + 1
            else:
                blk, lo, hi = pos[1], pos[2], pos[3]
            for (b, idx, rem, ins) in log.edits:
                if b == blk and rem >= 2 and idx < hi and lo < idx + rem:
                    h['extra'] |= M.marks_of(M.get_block(f.ast, b).stmts[idx:idx + rem], self.prog.universe)
            h['pos'] = M.model_forward(log, pos[1]) if pos[0] == 'stmt' else M.model_forward_region(log, pos[1], pos[2], pos[3])
            if sname in ('unroll_for', 'split') and h['pos'][0] != 'raise' and not h.get('emptied'):
                # a statically empty loop is dropped by these two (only `t = <iterable>` stays), so a statement may
                # legitimately lose every watermark it had
                try:
                    before = M.marks_of(resolve_norm(f.ast, pos), self.prog.universe)
                    after = M.marks_of(resolve_norm(g.ast, h['pos']), self.prog.universe)
                except (IndexError, KeyError):
                    continue
                if before and not after:
                    h['emptied'] = True
                    self.res.cls(self.cp + ':cursor-on-a-dropped-empty-loop')

    # -- invariant ---------------------------------------------------------------
    def invariant(self):
        res = self.res
        cur = self.cur
        uni = self.prog.universe
        for h in self.held:
            v = h['version']
            opaque = any(not r for r in self.reporting[v + 1:])
            res.case()
            if opaque:
                res.cls(self.cp + ':held-across-a-pass-that-reports-nothing')
            want = h['pos'] if h['kind'] == 'stmt' and not opaque else None
            n_rep = sum(1 for g in self.versions[v + 1:] if g.edits is not None and g.ast is not g.edits.source)
            try:
                c = cur.forward(h['cursor'])
            except TransformReferenceError as e:
                res.cls(self.cp + ':cursor-raised')
                if want is not None and want[0] != 'raise':
                    # Function.forward: "replays what each pass reported"; every step reported and forwards it
                    res.fail('forward/chain-raises-for-forwardable-statement', self.snapshot(),
                             expected=f'{h["origin"]} of version {v} -> {want} in version {len(self.versions) - 1}', got=str(e)[:200])
                continue
            except Exception as e:
                res.fail(f'forward/raises:{type(e).__name__}', self.snapshot(), expected='a cursor or TransformReferenceError',
                         got=traceback.format_exc()[-600:])
                continue
            res.cls(self.cp + ':cursor-resolved')
            if n_rep >= 2:
                res.cls(self.cp + ':resolved-across>=2-steps')
            if want is not None and h['kind'] == 'stmt' and norm_cursor(c) != want:
                res.fail('forward/chain-wrong-image' if want[0] != 'raise' else f'forward/chain-resolves-{want[1]}-statement',
                         self.snapshot(), expected=f'{h["origin"]} of version {v} -> {want}', got=norm_cursor(c))
                continue
            if opaque:
                res.fail('forward/resolves-across-a-pass-that-reports-nothing', self.snapshot(),
                         expected='TransformReferenceError', got=str(c)[:100])
                continue
            if h['kind'] == 'expr':
                try:
                    e = c.resolve()
                    T = [c.stmt().resolve()]
                except TransformReferenceError:
                    res.fail('forward/image-does-not-resolve', self.snapshot(), expected='a live cursor', got=str(h['origin']))
                    continue
                if not e.is_equiv(h['origin_expr']):
                    res.fail('forward/expression-cursor-names-another-expression', self.snapshot(),
                             expected=h['origin_expr'].format()[:200], got=e.format()[:200])
                    continue
            else:
                try:
                    T = c.resolve()
                except TransformReferenceError:
                    res.fail('forward/image-does-not-resolve', self.snapshot(), expected='a live cursor', got=str(h['origin']))
                    continue
                if not isinstance(T, list):
                    T = [T]
            mt = M.marks_of(T, uni)
            if not mt <= (h['marks'] | h['extra']):
                res.fail('forward/cursor-resolves-to-an-unrelated-statement', self.snapshot(),
                         expected=f'statements descending from the one marked {sorted(h["marks"])}',
                         got=f'{str(c)[:60]} marked {sorted(mt)}')
                continue
            if h['marks'] and not mt and not h.get('emptied'):
                res.fail('forward/cursor-resolves-to-a-statement-with-no-trace-of-its-origin', self.snapshot(),
                         expected=f'some of {sorted(h["marks"])}', got=str(c)[:60] + ': ' + T[0].format()[:100])
                continue
            # class: edits before the cursor's block between origin and now
            nb = 0
            for g in self.versions[v + 1:]:
                if g.edits is None:
                    continue
                o = h['origin']
                blk = o[1][:-1] if o[0] == 'stmt' else o[1]
                first = o[1][-1] if o[0] == 'stmt' else o[2]
                for e in g.edits.edits:
                    eb = M.tuple_of_path(e.block_path)
                    if (eb == blk and e.index < first) or (len(eb) < len(blk) and blk[:len(eb)] == eb and e.index < blk[len(eb)]):
                        nb += 1
            if nb >= 2:
                res.cls(self.cp + ':>=2-edits-before-cursor-block')
                res.nontrivial((self.prog.sh, h64(repr(self.steps))))
            elif nb == 1:
                res.cls(self.cp + ':1-edit-before-cursor-block')


def strategy_of(name):
    for part in name.split(','):
        if part.startswith('s='):
            return part[2:]
    return name


def run_history(res, src, focus, steps):
    prog = Prog(src, focus)
    try:
        H = History(res, prog)
        for st in steps:
            H.step(dict(st))
    finally:
        prog.close()


def history_machine(res, seed, tier):
    import hypothesis
    from hypothesis import HealthCheck, Phase, settings
    from hypothesis import strategies as st
    from hypothesis.stateful import RuleBasedStateMachine, initialize, precondition, rule, run_state_machine_as_test

    n_cfg = len(ALL_CFGS)

    class Machine(RuleBasedStateMachine):
        def __init__(self):
            super().__init__()
            self.H = None
            self.prog = None

        @initialize(pseed=st.integers(0, 2 ** 32 - 1), fi=st.integers(0, len(G.FOCI) - 1))
        def init(self, pseed, fi):
            focus = G.FOCI[fi]
            src, focus = G.gen_program(progen.RandChooser(pseed), focus)
            self.prog = Prog(src, focus)
            self.H = History(res, self.prog)
            res.count('histories')

        @rule(k=st.integers(0, 200), ckind=st.sampled_from(['stmt', 'stmt', 'site', 'site', 'region', 'expr']), ln=st.integers(1, 2),
              ci=st.integers(0, 10 ** 6))
        def take_cursor(self, k, ckind, ln, ci):
            if len(self.H.held) >= 6:
                return
            if ckind == 'site':
                # a statement some strategy could later be aimed at
                desc, kk = self.pick(ci)
                ckind = 'stmt'
                if desc is not None and kk > 0:
                    c = Cfg(desc, self.prog.mod).sites(self.H.cur)[k % kk]
                    b, s0, _ = cursor_region(c)
                    order = [p for p, _ in M.walk(self.H.cur.ast)]
                    k = order.index(b + (s0,))
            self.H.step({'op': 'cursor', 'k': k, 'ckind': ckind, 'len': ln})

        def pick(self, ci):
            """a strategy configuration, preferring one that has something to do in the current program"""
            if self.H.size() > MAX_STMTS:
                return None, 0
            rel = cfg_space(self.prog.focus) if ci % 3 else ALL_CFGS
            desc, k = None, 0
            for t in range(4):
                d = rel[(ci // 3 + 7 * t) % len(rel)]
                if d['s'] == 'insert_round' and self.prog.focus != 'insert':
                    continue
                try:
                    kk = len(Cfg(d, self.prog.mod).sites(self.H.cur))
                except Exception:
                    kk = 0
                if desc is None or kk > 0:
                    desc, k = d, kk
                if kk > 0:
                    break
            return desc, k

        @rule(ci=st.integers(0, 10 ** 6), wi=st.integers(0, 40))
        def aim_index(self, ci, wi):
            desc, k = self.pick(ci)
            if desc is not None:
                w = {'index': wi % (k + 1) if wi % 9 else k + wi % 3}     # mostly valid; sometimes k, k+1, k+2
                self.H.step({'op': 'apply', 'cfg': desc, 'where': w})

        @rule(ci=st.integers(0, 10 ** 6), wi=st.integers(0, 40))
        def aim_held(self, ci, wi):
            if not self.H.held or self.H.size() > MAX_STMTS:
                return
            moved = []
            for i, hh in enumerate(self.H.held):
                if hh['kind'] != 'stmt':
                    continue
                try:
                    if norm_cursor(self.H.cur.forward(hh['cursor'])) != hh['origin']:
                        moved.append(i)
                except TransformReferenceError:
                    pass
            if moved and wi % 4:
                wi = moved[wi % len(moved)]
            h = self.H.held[wi % len(self.H.held)]
            # prefer a strategy with a site at or beneath what the old cursor names now (a heuristic to reach
            # successful re-aims more often; the outcome is judged independently)
            rel = cfg_space(self.prog.focus) if ci % 3 else ALL_CFGS
            desc = None
            for t in range(6):
                d = rel[(ci // 3 + 5 * t) % len(rel)]
                if d['s'] == 'insert_round' and self.prog.focus != 'insert':
                    continue
                if desc is None:
                    desc = d
                try:
                    if Cfg(d, self.prog.mod).sites(self.H.cur, within=h['cursor']):
                        desc = d
                        break
                except Exception:
                    pass
            if desc is not None:
                self.H.step({'op': 'apply', 'cfg': desc, 'where': {'held': wi}})

        @rule(ci=st.integers(0, 10 ** 6), a=st.integers(0, 40), b=st.integers(0, 40), other=st.booleans())
        def shift_then_reaim(self, ci, a, b, other):
            """cursor on a later site; rewrite an earlier site (the cursor's statement moves); aim with the old cursor"""
            desc, k = self.pick(ci)
            if desc is None or k < 2 or len(self.H.held) >= 8:
                return
            j = 1 + a % (k - 1)
            i = b % j
            c = Cfg(desc, self.prog.mod).sites(self.H.cur)[j]
            bp, s0, _ = cursor_region(c)
            order = [p for p, _ in M.walk(self.H.cur.ast)]
            self.H.step({'op': 'cursor', 'k': order.index(bp + (s0,)), 'ckind': 'stmt', 'len': 1})
            held_i = len(self.H.held) - 1
            self.H.step({'op': 'apply', 'cfg': desc, 'where': {'index': i}})
            d2 = desc
            if other:
                d2, _ = self.pick(ci + 3)
                d2 = d2 or desc
            self.H.step({'op': 'apply', 'cfg': d2, 'where': {'held': held_i}})

        @rule(ci=st.integers(0, 10 ** 6), gate=st.integers(0, 2))
        def aim_none(self, ci, gate):
            desc, k = self.pick(ci)
            if desc is not None and gate == 0:
                self.H.step({'op': 'apply', 'cfg': desc, 'where': None})

        @rule(ui=st.integers(0, 3))
        def unaimed_reporting(self, ui):
            if ui < 2:
                self.H.step({'op': 'apply', 'cfg': ['lift_context', 'close'][ui], 'where': None})

        @rule(ui=st.integers(0, 3))
        def unaimed_opaque(self, ui):
            # a pass that reports nothing ends every held cursor: at most two per history, and only with cursors held
            if self.H.n_opaque < 2 and self.H.held:
                self.H.step({'op': 'apply', 'cfg': ['simplify', 'elim_iter', 'fuse', 'elim_round'][ui], 'where': None})

        @rule(ci=st.integers(0, 10 ** 6), v=st.integers(0, 30), k=st.integers(0, 200))
        def foreign_cursor(self, ci, v, k):
            desc, kk = self.pick(ci)
            if desc is not None and len(self.H.versions) >= 2:
                self.H.step({'op': 'foreign', 'cfg': desc, 'v': v, 'k': k})

        @rule(i=st.integers(0, 7))
        def advance(self, i):
            self.H.step({'op': 'advance', 'i': i})

        def teardown(self):
            if self.prog is not None:
                self.prog.close()

    Machine.TestCase.settings = settings(max_examples=1, deadline=None)
    n_ex, n_steps = (60, 18) if tier == 'thorough' else (15, 16)
    run_state_machine_as_test(
        hypothesis.seed(seed % (1 << 32))(Machine),
        settings=settings(max_examples=n_ex, stateful_step_count=n_steps, deadline=None, database=None, derandomize=False,
                          report_multiple_bugs=False, phases=[Phase.generate], suppress_health_check=list(HealthCheck)))


# ---------------------------------------------------------------------------
# bounded enumeration: every small arrangement of sites / refusals / other statements, every history of <= 2 aimed steps

ENUM_CFGS = {
    'for': [('', {'s': 'unroll_for', 'times': 1, 'strict': True}), ('', {'s': 'split', 'factor': 2, 'strict': True}),
            ('', {'s': 'unroll_for', 'times': 2, 'strict': False}), ('', {'s': 'split', 'factor': 3, 'strict': False})],
    'while': [('', {'s': 'unroll_while', 'times': 1}), ('', {'s': 'unroll_while', 'times': 2})],
    'call': [('', {'s': 'inline', 'funcs': None, 'recursive': True}), ('', {'s': 'inline', 'funcs': None, 'recursive': False})],
    'round': [('fp.FP16', {'s': 'unfold_special'}), ('fp.FP16', {'s': 'float_to_fixed'}),
              ('fp.MPFixedContext(-8)', {'s': 'rescale_fixed'}), ('fp.MPFixedContext(-8)', {'s': 'unfold_neg_zero'}),
              ('fp.FP16', {'s': 'unfold_overflow'})],
}


def enum_case(kind, idx, seed):
    shapes = G.enum_shapes(kind)
    shape = shapes[idx]
    site_ctx, desc = ENUM_CFGS[kind][h64('C19enumcfg', kind, idx, seed) % len(ENUM_CFGS[kind])]
    src = G.render_shape(kind, shape, site_ctx or 'fp.FP16', variant=idx + seed)
    return src, desc


def check_enum(res, kind, idx, seed, rnd):
    src, desc = enum_case(kind, idx, seed)
    prog = Prog(src, 'enum:' + kind)
    try:
        res.count('enum-programs')
        check_single(res, prog, desc, rnd)
        cfg = Cfg(desc, prog.mod)
        f = prog.f
        try:
            sites = cfg.sites(f)
        except Exception:
            return
        order = [p for p, _ in M.walk(f.ast)]
        site_idx = []
        for c in sites:
            b, s0, _ = cursor_region(c)
            if order.index(b + (s0,)) not in site_idx:
                site_idx.append(order.index(b + (s0,)))
        firsts = [{'index': j} for j in range(min(len(sites), 4))] + [None]
        for w1 in firsts:
            base = [{'op': 'cursors-all'}, {'op': 'apply', 'cfg': desc, 'where': w1}]
            H = History(res, prog, 'ehist')
            for st in base:
                H.step(dict(st))
            res.count('enum-histories')
            if w1 is None:
                continue
            try:
                k2 = len(cfg.sites(H.cur))
            except Exception:
                k2 = 0
            seconds = [{'index': j} for j in range(min(k2, 3))] + [{'held': i} for i in site_idx[:3]]
            for w2 in seconds:
                H2 = History(res, prog, 'ehist')
                for st in base + [{'op': 'apply', 'cfg': desc, 'where': w2}]:
                    H2.step(dict(st))
                res.count('enum-histories')
    finally:
        prog.close()


# ---------------------------------------------------------------------------
# runner contract

def shards(tier, seed):
    thorough = tier == 'thorough'
    out = []
    n_single = 192 if thorough else 48
    per = 30 if thorough else 5
    for i in range(n_single):
        out.append(('single', i, per, seed, tier))
    for i in range(96 if thorough else 48):
        out.append(('hist', i, seed, tier))
    # enumerated arrangements: all of them in the thorough tier, a seed-rotated slice in the quick tier
    picks = []
    for kind, every in (('for', 1 if thorough else 3), ('while', 1), ('call', 1), ('round', 1)):
        n = len(G.enum_shapes(kind))
        picks += [(kind, i) for i in range(n) if (i + seed) % every == 0]
    per = 24
    for a in range(0, len(picks), per):
        out.append(('enum', tuple(picks[a:a + per]), seed, tier))
    return out


def run_shard(shard):
    res = Result()
    if shard[0] == 'single':
        _, i, per, seed, tier = shard
        for j in range(per):
            rnd = progen.RandChooser(h64(seed, 'C19', i, j))
            focus = G.FOCI[(i + j) % len(G.FOCI)]
            src, focus = G.gen_program(rnd, focus)
            try:
                prog = Prog(src, focus)
            except Exception as e:
                res.skip(f'rejected:{type(e).__name__}')
                continue
            try:
                res.count('programs')
                space = []
                for d in cfg_space(focus):
                    if d not in space:
                        space.append(d)
                n = 5 if focus == 'mixed' else min(len(space), 4)
                picks = []
                while len(picks) < n:
                    d = space[rnd.int(0, len(space) - 1)]
                    if d not in picks:
                        picks.append(d)
                # one strategy the program was not built for (usually no sites: refusal / k = 0 paths)
                other = ALL_CFGS[rnd.int(0, len(ALL_CFGS) - 1)]
                if other not in picks and (other['s'] != 'insert_round' or focus == 'insert'):
                    picks.append(other)
                for d in picks:
                    check_single(res, prog, d, rnd)
            finally:
                prog.close()
        return res
    if shard[0] == 'enum':
        _, picks, seed, tier = shard
        for kind, idx in picks:
            check_enum(res, kind, idx, seed, progen.RandChooser(h64(seed, 'C19enum', kind, idx)))
        return res
    if shard[0] == 'hist':
        _, i, seed, tier = shard
        history_machine(res, h64(seed, 'C19hist', i), tier)
        return res
    raise ValueError(shard)


def replay(case):
    res = Result()
    if case['kind'] == 'single':
        prog = Prog(case['src'], case['focus'])
        try:
            check_single(res, prog, case['cfg'], progen.RandChooser(case.get('rseed', 0)))
        finally:
            prog.close()
    elif case['kind'] == 'history':
        run_history(res, case['src'], case['focus'], case['steps'])
    else:
        raise ValueError(case['kind'])
    return [f for fl in res.failures.values() for f in fl]


def selftest():
    # the reference forwarding model on hand-computed cases
    class L:
        pass
    log = L()
    log.edits = [((), 1, 1, 3), ((4, 'body'), 0, 0, 2)]
    log.dirty = set()
    log.exprs_preserved = True
    assert M.model_forward(log, (0,)) == ('stmt', (0,))
    assert M.model_forward(log, (1,)) == ('region', (), 1, 4)
    assert M.model_forward(log, (2,)) == ('stmt', (4,))
    assert M.model_forward(log, (1, 'body', 0)) == ('raise', 'inside-rewritten')
    assert M.model_forward(log, (4, 'body', 0)) == ('stmt', (6, 'body', 2))
    assert M.model_forward(log, (4, 'body', 1)) == ('stmt', (6, 'body', 3))
    assert M.model_forward_region(log, (), 0, 3) == ('region', (), 0, 5)
    # watermarks
    prog = Prog(G.HELPERS + '@fp.fpy\ndef main(a0: fp.Real, a1: fp.Real, xs: list[fp.Real]):\n    m00x = a0\n'
                '    for i01x in xs:\n        m02x = i01x\n    k03y = 1\n    return m00x\n', 'for')
    try:
        assert prog.universe == {'m00x', 'i01x', 'm02x'}, prog.universe
        st = M.get_stmt(prog.f.ast, (1,))
        assert M.marks_of([st], prog.universe) == {'i01x', 'm02x'}
        cfg = Cfg({'s': 'unroll_for', 'times': 1, 'strict': False}, prog.mod)
        assert [p for p, _ in cfg.candidates(prog.f.ast)] == [(1,)]
    finally:
        prog.close()
