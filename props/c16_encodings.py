"""
C16 — Encodings and ordinals are order-preserving bijections.

Exhaustive layer: every bit pattern, every member (in several Float spellings), every midpoint and
beyond-range non-member of every small EFloat / IEEE / two's-complement / sign-magnitude / exponential
format the constructors accept, at the Format level and at the Context level; complete enumeration of
small bounded multi-precision formats (MPB float / MPB fixed) and ordinal windows (around zero, around
the subnormal/normal boundary, far out) of the unbounded ones (MPS float / MP fixed).
Sampled layer: binary16/32/64 patterns against the platform's own encoding (struct / numpy).

Oracle: vlib.refdec (decoders written from the published layouts) -> denotations; the decoded set of
a format is the reference for membership, order, ranks, neighbours and extreme values.
"""

from __future__ import annotations

import math
import random
import struct
from fractions import Fraction

import fpy2 as fp
from fpy2.number import Float, RealFloat
from fpy2.number.context import (
    EFloatFormat,
    ExpFormat,
    FixedFormat,
    IEEEFormat,
    MPBFixedFormat,
    MPBFloatFormat,
    MPFixedFormat,
    MPSFloatFormat,
    SMFixedFormat,
)

from vlib import refdec
from vlib.denote import NAN, NINF, NZERO, PINF, PZERO, den, is_finite, num, pow2, show, to_float_obj
from vlib.oracle_round import floor_log2, on_grid
from vlib.runner import Result, h64

PROPERTY = 'C16'
LEVEL = 'exploration'
RULE = ('Exhaustive: every EFloat format (all es, nbits <= 8 quick / 11 thorough, inf on/off, 4 NaN kinds, eoffset in '
        '{-3..2}) and IEEE (es,nbits) format the constructor accepts, FixedFormat signed/unsigned and SMFixedFormat '
        'nbits <= 8 (10 thorough) x scale {-3,0,2}, ExpFormat nbits <= 6 (8 thorough) x eoffset {-3..2}; complete small '
        'MPB float/fixed formats and ordinal windows of MPS float / MP fixed formats; each at Format and Context level. '
        'One evaluation = one (format, level, item): item = a bit pattern (decode vs reference, encode(decode(b)) = b up '
        'to NaN payload), a member value in every Float spelling (representable, encode lands on a pattern of that value, '
        'normalize keeps the denotation and is canonical/unique, to_ordinal = reference rank, from_ordinal inverts it, '
        'next_up/next_down/next_towards_zero/next_away_zero/next_towards = reference neighbours, behaviour at the ends / '
        'infinities / NaN), a non-member (midpoint, '
        'beyond range, below the smallest value, absent zero/inf/NaN: not representable), a min/max query, or a '
        'from_ordinal sweep over the whole ordinal range and just outside it. Plus sampled binary16/32/64 patterns '
        'against struct/numpy. Non-trivial = the format is degenerate (one-digit significand, es <= 1, top binade partly '
        'taken by NaN/inf or by maxval, no finite non-zero value) or the item is/neighbours a special code, a zero, the '
        'extreme values or the subnormal/normal boundary; distinct by (format, level, item), never repeated by the '
        'enumeration.')
ASSUMPTIONS = [
    'vlib.refdec layouts (sign|exponent|mantissa, bias 2^(es-1)-1-eoffset, subnormals at E=0, special codes per NaN kind as '
    'in the EFloatContext docstring / Small-Floats post; two\'s complement; sign-magnitude; 2^(bits-bias) with all-ones NaN) '
    'are the published layouts; cross-checked in selftest against struct binary16 and the OCP-MX / P3109 tables.',
    'encode(NaN) may give any pattern that decodes to NaN (payload and sign are free).',
    'next_up(-minval) / from_ordinal(0) / maxval() and largest()/smallest() of a format without finite non-zero values may '
    'return either zero that is a member of the format (sign of a zero result is not promised).',
    'maxval(s)/minval(s) for a sign with no non-zero member: minval must raise ValueError; maxval may raise ValueError or '
    'return a member zero (docs: "maxval() == 0 means no finite non-zero values").',
    'to_ordinal of an infinity without infval, or of NaN, may raise ValueError or TypeError; it must not return an ordinal.',
    'infval/allow_inf=True is only checked for formats that have infinities (sentinel meaning otherwise is undocumented); '
    'formats with a zero must map it to ordinal 0 (documented: minval maps to +/-1), formats without zero (ExpFormat) only '
    'need a contiguous increasing range.',
    'Constructor acceptance has an oracle only where the layout decides it: an extended-float parameterisation must be '
    'accepted iff 0 <= es < nbits (es >= 1 for the IEEE kind) and the reference decoding has +0, both infinities when enabled '
    'and a NaN unless the kind is NONE; signed 1-bit two\'s complement and 1-bit sign-magnitude may go either way.',
    'Only ValueError is accepted where the docs say "raises ValueError" (next_up/next_down on NaN, at +/-inf, on an infinity '
    'without allow_inf; from_ordinal outside the range; stepping past the largest value without allow_inf).',
]
EXHAUSTIVE = {'quick': True, 'thorough': True}
# fractions of the evaluations (< 1) or absolute counts (>= 1); the degenerate corners are a fixed-size family, so
# they get absolute floors (their share shrinks as the width bound grows)
FLOORS = {'p=1': 0.02, 'es<=1': 0.05, 'top-binade-partial': 0.05, 'no-nonzero': 2000, 'special': 10000, 'zero': 5000,
          'adjacent-special': 10000, 'extreme': 5000, 'subnormal-boundary': 5000, 'beyond-range': 10000,
          'absent-special': 3000, 'nonmember': 0.1, 'level:ctx': 0.3, 'fam:exp': 1000, 'fam:fixed': 5000,
          'fam:smfixed': 5000, 'fam:ieee': 5000, 'fam:mps': 5000, 'fam:mpb': 20000, 'fam:mpfixed': 5000,
          'fam:mpbfixed': 5000, 'fam:native': 20000, 'native:16': 5000, 'native:32': 5000, 'native:64': 5000}

NKNAME = {0: 'IEEE_754', 1: 'MAX_VAL', 2: 'NEG_ZERO', 3: 'NONE'}
NK = {0: fp.EFloatNanKind.IEEE_754, 1: fp.EFloatNanKind.MAX_VAL, 2: fp.EFloatNanKind.NEG_ZERO, 3: fp.EFloatNanKind.NONE}


# ---------------------------------------------------------------------------
# small helpers

def unshow(s):
    if isinstance(s, str) and s in (NAN, PINF, NINF, PZERO, NZERO):
        return s
    return Fraction(s)


def rf(q: Fraction) -> RealFloat:
    """RealFloat of a dyadic rational (q = 0 -> +0)."""
    if q == 0:
        return RealFloat(c=0, exp=0)
    f = to_float_obj(q)
    return RealFloat(s=f.s, c=f.c, exp=f.exp)


def dyadic(q: Fraction) -> bool:
    d = q.denominator
    return d & (d - 1) == 0


def vclass(d) -> str:
    if d == NAN:
        return 'nan'
    if d in (PINF, NINF):
        return 'inf'
    if d in (PZERO, NZERO):
        return 'zero'
    return 'finite'


def _try(fn):
    """(value, None) or (None, exception class name).  Only the API call itself is inside `fn`."""
    try:
        return fn(), None
    except Exception as e:   # noqa: BLE001 - every exception type is an observation here
        return None, type(e).__name__


def float_carriers(d):
    """Float objects spelling the denotation d in several ways: list of (name, Float)."""
    if d == NAN:
        return [('nan', Float(isnan=True)), ('-nan', Float(s=True, isnan=True))]
    if d == PINF:
        return [('inf', Float(isinf=True))]
    if d == NINF:
        return [('inf', Float(s=True, isinf=True))]
    if d in (PZERO, NZERO):
        s = d == NZERO
        return [('zero e0', Float(s=s, c=0, exp=0)), ('zero e7', Float(s=s, c=0, exp=7)), ('zero e-9', Float(s=s, c=0, exp=-9))]
    f = to_float_obj(d)
    return [('odd', f), ('<<3', Float(s=f.s, c=f.c << 3, exp=f.exp - 3))]


# ---------------------------------------------------------------------------
# reference model of a format

class Ref:
    """Reference value set of one format.

    pat        : denotation per bit pattern (encodable formats) or None
    segs       : list of (rank of first, [consecutive finite member values, zeros merged as 0], closed_lo, closed_hi)
                 closed_* = the segment starts/ends at the least/greatest finite member of the format
    has        : set of special denotations that are members (nan, +inf, -inf, +0, -0)
    member(d)  : membership of an arbitrary denotation
    has_zero   : a zero is a member (then ranks are absolute with zero -> 0; else relative to the least member)
    """

    def __init__(self, fam, nbits=None, pat=None, segs=None, has=(), member=None, info=None):
        self.fam = fam
        self.nbits = nbits
        self.pat = pat
        self.info = info or {}
        if pat is not None:
            mem = set(pat)
            self.patterns_of = {}
            for b, d in enumerate(pat):
                self.patterns_of.setdefault(d, []).append(b)
            fin = sorted({num(d) for d in mem if is_finite(d)})
            self.has = {d for d in mem if isinstance(d, str)}
            self.has_zero = Fraction(0) in fin
            base = -fin.index(Fraction(0)) if self.has_zero else 0
            self.segs = [(base, fin, True, True)]
            self._memset = mem
            self._member = None
        else:
            self.segs = segs
            self.has = set(has)
            self.has_zero = PZERO in self.has or NZERO in self.has
            self._member = member
            self._memset = None
        self.where = {}
        for si, (r0, vals, _, _) in enumerate(self.segs):
            for i, v in enumerate(vals):
                self.where.setdefault(v, (si, i))

    def member(self, d) -> bool:
        if self._memset is not None:
            return d in self._memset
        if isinstance(d, str):
            return d in self.has
        return self._member(d)

    def zero_ok(self, d) -> bool:
        return d in (PZERO, NZERO) and d in self.has

    def rank(self, q: Fraction):
        si, i = self.where[q]
        return self.segs[si][0] + i

    def succ(self, q: Fraction, up: bool):
        """('val', q2) | ('end',) | ('unknown',)"""
        si, i = self.where[q]
        r0, vals, clo, chi = self.segs[si]
        j = i + 1 if up else i - 1
        if 0 <= j < len(vals):
            return ('val', vals[j])
        if (up and chi) or (not up and clo):
            return ('end',)
        return ('unknown',)

    @property
    def complete(self):
        return len(self.segs) == 1 and self.segs[0][2] and self.segs[0][3]

    def extreme(self, top: bool):
        """Greatest / least finite member if known."""
        for r0, vals, clo, chi in self.segs:
            if top and chi:
                return vals[-1]
            if not top and clo:
                return vals[0]
        return None

    def member_values(self):
        """Denotations on which the value battery runs."""
        out = []
        seen = set()
        for r0, vals, _, _ in self.segs:
            for v in vals:
                if v in seen:
                    continue
                seen.add(v)
                if v == 0:
                    for z in (PZERO, NZERO):
                        if z in self.has:
                            out.append(z)
                else:
                    out.append(v)
        for d in (PINF, NINF, NAN):
            if d in self.has:
                out.append(d)
        return out

    def nonmembers(self):
        """(denotation, label) of values that must not be representable."""
        out = []
        seen = set()

        def add(d, label):
            if d in seen:
                return
            if isinstance(d, Fraction):
                if d == 0 or not dyadic(d):
                    return
            if self.member(d):
                return
            seen.add(d)
            out.append((d, label))

        for r0, vals, clo, chi in self.segs:
            for a, b in zip(vals, vals[1:]):
                add((a + b) / 2, 'midpoint')
                add(a + (b - a) / 4, 'quarter')
            if chi:
                top = vals[-1]
                gap = top - vals[-2] if len(vals) > 1 else Fraction(1)
                add(top + gap, 'beyond-range')
                add(top + gap / 2, 'beyond-range')
                add(top + 2 * gap, 'beyond-range')
                if top > 0:
                    add(top * 2, 'beyond-range')
                    add(top * 1024 + gap, 'beyond-range')
            if clo:
                bot = vals[0]
                gap = vals[1] - bot if len(vals) > 1 else Fraction(1)
                add(bot - gap, 'beyond-range')
                add(bot - gap / 2, 'beyond-range')
                if bot < 0:
                    add(bot * 2, 'beyond-range')
                    add(bot * 1024 - gap, 'beyond-range')
                elif bot > 0:
                    add(bot / 2, 'below-min')
                    add(bot / 1024, 'below-min')
                    add(-bot, 'negative')
                    add(-vals[-1], 'negative')
        for k in (-6, -3, 0, 2, 5):
            for m in (1, 3, 5):
                add(m * pow2(k), 'generic')
                add(-m * pow2(k), 'generic')
        for d in (PZERO, NZERO):
            add(d, 'absent-zero')
        for d in (PINF, NINF, NAN):
            add(d, 'absent-special')
        return out


# ---------------------------------------------------------------------------
# builders: o_*(args) -> (format object, context object) -- only the constructors under test, exceptions propagate;
#           r_*(args) -> Ref, the reference value set from the same public parameters

def _efloat_info(es, nbits, inf, nk, eoffset, pat):
    p = nbits - es
    expmin = 2 - (((1 << (es - 1)) - 1) if es >= 1 else 0) - p + eoffset
    fin = sorted({num(d) for d in pat if is_finite(d)})
    top = fin[-1]
    info = {'p': p, 'es': es, 'nk': nk, 'inf': inf}
    tags = set()
    if p == 1:
        tags.add('p=1')
    if es <= 1:
        tags.add('es<=1')
    if top == 0:
        tags.add('no-nonzero')
    else:
        # top binade partly occupied: the largest finite value does not have an all-ones significand of the
        # width its binade allows, or a special code lives in the same exponent field value as finite numbers
        e = floor_log2(top)
        ulp = pow2(max(e - p + 1, expmin))
        full = pow2(e + 1) - ulp
        if top != full:
            tags.add('top-binade-partial')
    info['tags'] = tags
    info['expmin'] = expmin
    return info


def o_efloat(es, nbits, inf, nk, eoffset):
    return EFloatFormat(es, nbits, inf, NK[nk], eoffset), fp.EFloatContext(es, nbits, inf, NK[nk], eoffset)


def r_efloat(es, nbits, inf, nk, eoffset):
    pat = refdec.efloat_all(es, nbits, inf, nk, eoffset)
    return Ref('efloat', nbits, pat, info=_efloat_info(es, nbits, inf, nk, eoffset, pat))


def o_ieee(es, nbits):
    return IEEEFormat(es, nbits), fp.IEEEContext(es, nbits)


def r_ieee(es, nbits):
    pat = refdec.efloat_all(es, nbits, True, refdec.IEEE_754, 0)
    return Ref('ieee', nbits, pat, info=_efloat_info(es, nbits, True, 0, 0, pat))


def o_fixed(signed, scale, nbits):
    return FixedFormat(signed, scale, nbits), fp.FixedContext(signed, scale, nbits)


def r_fixed(signed, scale, nbits):
    pat = [refdec.fixed_decode(signed, scale, nbits, b) for b in range(1 << nbits)]
    tags = {'unsigned'} if not signed else set()
    return Ref('fixed', nbits, pat, info={'tags': tags})


def o_smfixed(scale, nbits):
    return SMFixedFormat(scale, nbits), fp.SMFixedContext(scale, nbits)


def r_smfixed(scale, nbits):
    pat = [refdec.smfixed_decode(scale, nbits, b) for b in range(1 << nbits)]
    return Ref('smfixed', nbits, pat, info={'tags': set()})


def o_exp(nbits, eoffset):
    return ExpFormat(nbits, eoffset), fp.ExpContext(nbits, eoffset)


def r_exp(nbits, eoffset):
    pat = [refdec.exp_decode(nbits, eoffset, b) for b in range(1 << nbits)]
    return Ref('exp', nbits, pat, info={'tags': {'p=1'}})


def _float_succ(v: Fraction, p: int, expmin: int) -> Fraction:
    """Next member above v > 0 of the (p, expmin) floating grid."""
    return v + pow2(max(floor_log2(v) - p + 1, expmin))


def _float_rank(v: Fraction, p: int, emin: int) -> int:
    """Number of positive members <= v (v a positive member): subnormals are 1 .. 2^(p-1)-1, then each binade
    holds 2^(p-1) members."""
    expmin = emin - p + 1
    e = floor_log2(v)
    if e < emin:
        k = v / pow2(expmin)
        assert k.denominator == 1
        return int(k)
    m = v / pow2(e - p + 1)
    assert m.denominator == 1
    return (e - emin) * (1 << (p - 1)) + int(m)


def _sym(pos):
    """..., -b, -a, 0, a, b, ... from the sorted positive list."""
    return [-v for v in reversed(pos)] + [Fraction(0)] + list(pos)


def o_mps(p, emin, nan, inf):
    return MPSFloatFormat(p, emin, nan, inf), fp.MPSFloatContext(p, emin, enable_nan=nan, enable_inf=inf)


def r_mps(p, emin, nan, inf):
    expmin = emin - p + 1
    pos = []
    v = pow2(expmin)
    for _ in range(3 * (1 << (p - 1)) + 5):
        pos.append(v)
        v = _float_succ(v, p, expmin)
    segs = [(-len(pos), _sym(pos), False, False)]
    # far windows: around a binade boundary well above emin
    for de in (37, 90):
        e = emin + de
        far = []
        v = pow2(e) - 2 * pow2(e - 1 - p + 1) if p > 1 else pow2(e - 2)
        for _ in range(6):
            far.append(v)
            v = _float_succ(v, p, expmin)
        segs.append((_float_rank(far[0], p, emin), far, False, False))
        neg = [-x for x in reversed(far)]
        segs.append((-_float_rank(far[-1], p, emin), neg, False, False))
    has = {PZERO, NZERO} | ({NAN} if nan else set()) | ({PINF, NINF} if inf else set())
    tags = {'p=1'} if p == 1 else set()
    return Ref('mps', segs=segs, has=has, member=lambda q: on_grid(q, p, expmin - 1),
                         info={'tags': tags, 'p': p, 'expmin': expmin})


def o_mpb(p, emin, maxval, negmax, nan, inf):
    maxval = Fraction(maxval)
    negmax = None if negmax is None else Fraction(negmax)
    fmt = MPBFloatFormat(p, emin, rf(maxval), None if negmax is None else rf(negmax), nan, inf)
    ctx = fp.MPBFloatContext(p, emin, rf(maxval), neg_maxval=None if negmax is None else rf(negmax),
                             enable_nan=nan, enable_inf=inf)
    return fmt, ctx


def r_mpb(p, emin, maxval, negmax, nan, inf):
    maxval = Fraction(maxval)
    negmax = None if negmax is None else Fraction(negmax)
    expmin = emin - p + 1
    lo = -maxval if negmax is None else negmax
    pos, neg = [], []
    v = pow2(expmin)
    while v <= max(maxval, -lo):
        if v <= maxval:
            pos.append(v)
        if -v >= lo:
            neg.append(-v)
        v = _float_succ(v, p, expmin)
    vals = list(reversed(neg)) + [Fraction(0)] + pos
    segs = [(-len(neg), vals, True, True)]
    has = {PZERO, NZERO} | ({NAN} if nan else set()) | ({PINF, NINF} if inf else set())
    tags = {'p=1'} if p == 1 else set()
    e = floor_log2(maxval)
    if maxval != pow2(e + 1) - pow2(max(e - p + 1, expmin)):
        tags.add('top-binade-partial')
    return Ref('mpb', segs=segs, has=has,
                         member=lambda q: on_grid(q, p, expmin - 1) and lo <= q <= maxval,
                         info={'tags': tags, 'p': p, 'expmin': expmin})


def o_mpfixed(nmin, nan, inf, negzero):
    return (MPFixedFormat(nmin, nan, inf, negzero),
            fp.MPFixedContext(nmin, enable_nan=nan, enable_inf=inf, enable_neg_zero=negzero))


def r_mpfixed(nmin, nan, inf, negzero):
    ulp = pow2(nmin + 1)
    segs = [(-24, [k * ulp for k in range(-24, 25)], False, False)]
    for k0 in ((1 << 70) - 3, -(1 << 70) - 2, 12345):
        segs.append((k0, [k * ulp for k in range(k0, k0 + 6)], False, False))
    has = {PZERO} | ({NZERO} if negzero else set()) | ({NAN} if nan else set()) | ({PINF, NINF} if inf else set())
    return Ref('mpfixed', segs=segs, has=has, member=lambda q: (q / ulp).denominator == 1,
                         info={'tags': set(), 'expmin': nmin + 1})


def o_mpbfixed(nmin, kmax, kmin, nan, inf, negzero):
    ulp = pow2(nmin + 1)
    maxval = kmax * ulp
    neg_rf = RealFloat(c=0, exp=0) if kmin == 0 else rf(kmin * ulp)
    fmt = MPBFixedFormat(nmin, rf(maxval), neg_rf, nan, inf, negzero)
    ctx = fp.MPBFixedContext(nmin, rf(maxval), neg_maxval=neg_rf, enable_nan=nan, enable_inf=inf, enable_neg_zero=negzero)
    return fmt, ctx


def r_mpbfixed(nmin, kmax, kmin, nan, inf, negzero):
    ulp = pow2(nmin + 1)
    maxval = kmax * ulp
    negmax = kmin * ulp
    vals = [k * ulp for k in range(kmin, kmax + 1)]
    segs = [(kmin, vals, True, True)]
    has = {PZERO} | ({NZERO} if negzero else set()) | ({NAN} if nan else set()) | ({PINF, NINF} if inf else set())
    tags = {'unsigned'} if kmin == 0 else set()
    return Ref('mpbfixed', segs=segs, has=has,
                         member=lambda q: (q / ulp).denominator == 1 and negmax <= q <= maxval,
                         info={'tags': tags, 'expmin': nmin + 1})


GROUP = {'efloat': 'float', 'ieee': 'float', 'mps': 'float', 'mpb': 'float', 'exp': 'exp',
         'fixed': 'fixed-point', 'smfixed': 'fixed-point', 'mpfixed': 'fixed-point', 'mpbfixed': 'fixed-point'}

OBJ = {'efloat': o_efloat, 'ieee': o_ieee, 'fixed': o_fixed, 'smfixed': o_smfixed, 'exp': o_exp,
       'mps': o_mps, 'mpb': o_mpb, 'mpfixed': o_mpfixed, 'mpbfixed': o_mpbfixed}
REF = {'efloat': r_efloat, 'ieee': r_ieee, 'fixed': r_fixed, 'smfixed': r_smfixed, 'exp': r_exp,
       'mps': r_mps, 'mpb': r_mpb, 'mpfixed': r_mpfixed, 'mpbfixed': r_mpbfixed}


# ---------------------------------------------------------------------------
# the format under test

class FUT:
    def __init__(self, spec, level, res: Result, objs, fmt_failed=None):
        self.fmt_failed = fmt_failed     # failures of the same items at Format level (None: not tracked)
        self.spec = [spec[0], list(spec[1])]
        self.fam = spec[0]
        self.level = level
        self.res = res
        fmt, ctx = objs
        self.ref = ref = REF[self.fam](*spec[1])
        self.o = fmt if level == 'fmt' else ctx
        self.nkname = NKNAME[ref.info['nk']] if 'nk' in ref.info else ''
        self._base = 0 if ref.has_zero else None
        self.failed = []          # (item, bucket) of this run

    # -- API under test ----------------------------------------------------
    def rep(self, x):
        if self.level == 'fmt':
            return _try(lambda: self.o.representable_in(x))
        # Context.representable_under answers True without looking when the value carries a context of the
        # same format; the membership question proper is asked on a context-free copy, and both must say yes
        if isinstance(x, Float) and x.ctx is not None:
            r, exc = _try(lambda: self.o.representable_under(Float(x=x, ctx=None)))
            if exc is not None or r is not True:
                return r, exc
        return _try(lambda: self.o.representable_under(x))

    # -- failure recording -------------------------------------------------
    def fail(self, check, symptom, item, expected, got, **extra):
        # bucket by the code that implements the operation: the next_* family lives once in the OrdinalFormat
        # base; normalisation and the ordinal maps are shared by all floating (MPSFloatFormat) and all
        # fixed-point (MPFixedFormat) formats; encodings and membership are per family
        if check.startswith('next_'):
            fam = 'ordinal'
        elif check in ('normalize', 'to_ordinal', 'from_ordinal'):
            fam = GROUP[self.fam]
        else:
            fam = 'efloat' if self.fam == 'ieee' else self.fam       # IEEEFormat only fixes EFloatFormat's parameters
        bucket = f'{fam}/{check}/{symptom}'
        if self.level == 'ctx' and self.fmt_failed is not None and (tuple(item), bucket) not in self.fmt_failed:
            bucket += ' [Context level only]'
        self.failed.append((tuple(item), bucket))
        case = {'spec': self.spec, 'level': self.level, 'item': list(item)}
        case.update(extra)
        self.res.fail(bucket, case, expected=expected, got=got)

    # -- bookkeeping ---------------------------------------------------------
    def tags_for(self, d=None, b=None):
        """Classes of one evaluation (format-level tags + item-level tags)."""
        t = set(self.ref.info.get('tags', ()))
        ref = self.ref
        if d is not None:
            c = vclass(d)
            if c in ('nan', 'inf'):
                t.add('special')
            elif c == 'zero':
                t.add('zero')
            else:
                top, bot = ref.extreme(True), ref.extreme(False)
                if d == top or d == bot:
                    t.add('extreme')
                em = ref.info.get('expmin')
                p = ref.info.get('p')
                if em is not None and p is not None and p > 1:
                    a = abs(d)
                    if a < pow2(em + p - 1):
                        t.add('subnormal')
                    if a in (pow2(em + p - 1), pow2(em + p - 1) - pow2(em)):
                        t.add('subnormal-boundary')
        if b is not None and ref.pat is not None:
            n = ref.nbits
            for nb in (b - 1, b + 1, b ^ (1 << (n - 1))):
                if 0 <= nb < (1 << n) and isinstance(ref.pat[nb], str) and ref.pat[nb] not in (PZERO, NZERO):
                    t.add('adjacent-special')
        return t

    def account(self, tags, sample_case):
        res = self.res
        res.case()
        res.cls('fam:' + self.fam)
        res.cls('level:' + self.level)
        for t in tags:
            res.cls(t)
        if self.nkname:
            res.cls('nk:' + self.nkname)
        nt = bool(tags & {'p=1', 'es<=1', 'top-binade-partial', 'no-nonzero', 'special', 'zero', 'extreme',
                          'adjacent-special', 'subnormal-boundary', 'unsigned', 'beyond-range', 'absent-special',
                          'absent-zero', 'below-min', 'query', 'ordrange'})
        if nt:
            res.nontrivial()
            if res.evaluations % 4999 == 1:
                res.sample(sample_case, nt=True)
        elif res.evaluations % 4999 == 2:
            res.sample(sample_case)

    # -- items ---------------------------------------------------------------
    def items(self):
        ref = self.ref
        out = []
        if ref.pat is not None:
            out += [('pattern', b) for b in range(1 << ref.nbits)]
        out += [('value', show(d)) for d in ref.member_values()]
        out += [('nonmember', show(d), label) for d, label in ref.nonmembers()]
        qs = ['minval+', 'minval-']
        if self.fam not in ('mps', 'mpfixed'):
            qs += ['maxval+', 'maxval-', 'largest', 'smallest']
        if ref.has_zero:
            qs.append('zero-ordinal')
        if self.fam in ('efloat', 'ieee'):
            qs.append('layout')
        if ref.pat is not None:
            qs.append('pattern-domain')
        out += [('query', q) for q in qs]
        out += [('ordrange', si) for si in range(len(ref.segs))]
        return out

    def run_item(self, item):
        kind = item[0]
        case = {'spec': self.spec, 'level': self.level, 'item': list(item)}
        if kind == 'pattern':
            b = item[1]
            self.account(self.tags_for(self.ref.pat[b], b), case)
            self.do_pattern(item, b)
        elif kind == 'value':
            d = unshow(item[1])
            tags = self.tags_for(d)
            if self.ref.pat is not None:
                for b in self.ref.patterns_of.get(d, [])[:1]:
                    tags |= self.tags_for(None, b)
            self.account(tags, case)
            self.do_value(item, d)
        elif kind == 'nonmember':
            d = unshow(item[1])
            self.account(set(self.ref.info.get('tags', ())) | {'nonmember', item[2]}, case)
            self.do_nonmember(item, d, item[2])
        elif kind == 'query':
            self.account(set(self.ref.info.get('tags', ())) | {'query'}, case)
            self.do_query(item, item[1])
        elif kind == 'ordrange':
            self.account(set(self.ref.info.get('tags', ())) | {'ordrange'}, case)
            self.do_ordrange(item, item[1])
        else:
            raise ValueError(item)

    # ---- pattern: decode(b) = reference; encode(decode(b)) = b up to NaN payload
    def do_pattern(self, item, b):
        ref, o = self.ref, self.o
        want = ref.pat[b]
        x, exc = _try(lambda: o.decode(b))
        nk = f'{self.nkname}/' if self.nkname else ''
        if exc is not None:
            return self.fail('decode', f'{nk}raised {exc}', item, show(want), f'raised {exc}')
        if not isinstance(x, Float):
            return self.fail('decode', f'{nk}not a Float', item, show(want), repr(x))
        got = den(x)
        if got != want:
            sym = f'{vclass(want)} pattern decoded as {vclass(got)}' if vclass(want) != vclass(got) or vclass(want) != 'finite' \
                else 'wrong finite value'
            if vclass(want) == vclass(got) == 'zero' or vclass(want) == vclass(got) == 'inf':
                sym = f'wrong sign of {vclass(want)}'
            return self.fail('decode', nk + sym, item, show(want), show(got))
        r, exc = self.rep(x)
        if exc is not None or r is not True:
            return self.fail('representable_in', self._rep_symptom(want, 'rejected', exc), item, True,
                             f'raised {exc}' if exc else r, carrier='decoded')
        self.check_encode(item, x, want, 'decoded', exact=b)

    def _rep_symptom(self, d, what, exc):
        c = vclass(d)
        c = 'inf or nan' if c in ('inf', 'nan') else c
        s = f'member {c} {what}' if what == 'rejected' else f'{c} {what}'
        if exc:
            s += f' (raised {exc})'
        if 'no-nonzero' in self.ref.info.get('tags', ()):
            s += ' in a format without finite non-zero values'
        return s

    def check_encode(self, item, x, d, carrier, exact=None):
        ref, o = self.ref, self.o
        if ref.pat is None:
            return
        nk = f'{self.nkname}/' if self.nkname and vclass(d) in ('nan', 'inf') else ''
        e, exc = _try(lambda: o.encode(x))
        okset = ref.patterns_of[d]
        if exc is not None:
            return self.fail('encode', f'{nk}{vclass(d)} raised {exc}', item, okset[:4], f'raised {exc}', carrier=carrier)
        if not isinstance(e, int) or isinstance(e, bool) or not (0 <= e < (1 << ref.nbits)):
            return self.fail('encode', f'{nk}{vclass(d)} not a pattern of the format', item, okset[:4], repr(e), carrier=carrier)
        if d == NAN:
            ok = ref.pat[e] == NAN
        elif exact is not None:
            ok = e == exact
        else:
            ok = ref.pat[e] == d
        if not ok:
            back = ref.pat[e]
            if vclass(back) == vclass(d) == 'finite':
                sym = 'finite value encoded as the pattern of another finite value'
            elif vclass(back) == vclass(d):
                sym = f'{vclass(d)} encoded with the wrong sign'
            else:
                sym = f'{vclass(d)} encoded as the pattern of {vclass(back)}'
            self.fail('encode', nk + sym, item, okset[:4] if exact is None else exact, e, carrier=carrier,
                      decodes_to=show(back))

    # ---- value: every spelling of one member
    def base(self):
        """Ordinal of rank 0: 0 when the format has a zero, else the ordinal of the least member."""
        if self._base is None:
            lo = self.ref.extreme(False)
            r, exc = _try(lambda: self.o.to_ordinal(to_float_obj(lo)))
            self._base = r if exc is None and isinstance(r, int) else 'bad'
        return self._base

    def do_value(self, item, d):
        ref, o = self.ref, self.o
        canon = None
        carriers = list(float_carriers(d))
        if ref.pat is not None:
            for b in ref.patterns_of[d][:2]:
                x, exc = _try(lambda: o.decode(b))
                if exc is None and isinstance(x, Float) and den(x) == d:
                    carriers.append((f'decode({b})', x))
        if isinstance(d, Fraction) or d in (PZERO, NZERO):
            rx = RealFloat(s=(d == NZERO), c=0, exp=0) if isinstance(d, str) else rf(d)
            r, exc = self.rep(rx)
            if exc is not None or r is not True:
                self.fail('representable_in', self._rep_symptom(d, 'rejected', exc) + ' [RealFloat]', item, True,
                          f'raised {exc}' if exc else r, carrier='RealFloat')
        for cname, x in carriers:
            r, exc = self.rep(x)
            if exc is not None or r is not True:
                self.fail('representable_in', self._rep_symptom(d, 'rejected', exc), item, True,
                          f'raised {exc}' if exc else r, carrier=cname)
                continue       # everything below presupposes a correct membership answer
            self.check_encode(item, x, d, cname)
            canon = self.check_normalize(item, x, d, cname, canon)
            if isinstance(d, Fraction) or d in (PZERO, NZERO):
                self.check_finite(item, x, d, cname)
            elif d in (PINF, NINF):
                self.check_inf(item, x, d, cname)
            else:
                self.check_nan(item, x, cname)

    def check_normalize(self, item, x, d, cname, canon):
        o = self.o
        y, exc = _try(lambda: o.normalize(x))
        c = vclass(d)
        if exc is not None:
            self.fail('normalize', f'{c} raised {exc}', item, show(d), f'raised {exc}', carrier=cname)
            return canon
        if not isinstance(y, Float):
            self.fail('normalize', f'{c} not a Float', item, show(d), repr(y), carrier=cname)
            return canon
        if den(y) != d:
            self.fail('normalize', f'{c} changes the value', item, show(d), show(den(y)), carrier=cname)
            return canon
        k, exc = _try(lambda: o.canonical_under(y))
        if exc is not None or k is not True:
            self.fail('normalize', f'{c} result not canonical_under', item, True, f'raised {exc}' if exc else k,
                      carrier=cname, normalized=repr((y.s, y.c, y.exp)))
        if c in ('finite', 'zero'):
            key = (y.s, y.c, y.exp)
            if canon is None:
                canon = (key, cname)
            elif canon[0] != key:
                self.fail('normalize', f'{c} canonical form not unique', item, list(canon[0]), list(key),
                          carrier=cname, first_carrier=canon[1])
        return canon

    def _value_matches(self, y, q: Fraction):
        """y is a Float denoting the finite number q; a zero result must be a zero the format has."""
        if not isinstance(y, Float):
            return False
        dy = den(y)
        if not is_finite(dy) or num(dy) != q:
            return False
        if q == 0:
            return self.ref.zero_ok(dy)
        return True

    def check_finite(self, item, x, d, cname):
        ref, o = self.ref, self.o
        q = num(d)
        c = vclass(d)
        base = self.base()
        # to_ordinal = reference rank
        k, exc = _try(lambda: o.to_ordinal(x))
        if exc is not None or not isinstance(k, int) or isinstance(k, bool):
            self.fail('to_ordinal', f'{c} raised {exc}' if exc else f'{c} not an int', item, None,
                      f'raised {exc}' if exc else repr(k), carrier=cname)
            k = None
        elif base != 'bad':
            want = base + ref.rank(q)
            if k != want:
                self.fail('to_ordinal', 'not the rank of the value in the reference order', item, want, k, carrier=cname)
                k = None
        # from_ordinal inverts it
        if k is not None:
            y, exc = _try(lambda: o.from_ordinal(k))
            if exc is not None:
                self.fail('from_ordinal', f'raised {exc} on an ordinal of the range', item, show(d), f'raised {exc}', carrier=cname, ordinal=k)
            elif not self._value_matches(y, q):
                self.fail('from_ordinal', 'does not invert to_ordinal', item, show(d), show(den(y)) if isinstance(y, Float) else repr(y),
                          carrier=cname, ordinal=k)
        # neighbours: next_up / next_down, and the sign-relative and target-relative variants
        steps = [('next_up', True, lambda *a: o.next_up(x, *a)), ('next_down', False, lambda *a: o.next_down(x, *a))]
        if q != 0:
            steps.append(('next_towards_zero', q < 0, lambda *a: o.next_towards_zero(x, *a)))
            steps.append(('next_away_zero', q > 0, lambda *a: o.next_away_zero(x, *a)))
        for top in (True, False):
            t = ref.extreme(top)
            if t is not None and t != q:
                ty = to_float_obj(t if t != 0 else PZERO)
                steps.append(('next_towards', t > q, lambda *a, ty=ty: o.next_towards(x, ty, *a)))
        for name, up, fn in steps:
            s = ref.succ(q, up)
            infd = PINF if up else NINF
            if s[0] == 'unknown':
                continue
            if s[0] == 'val':
                for allow in (False, True):
                    # allow_inf is documented as valid only for formats that have a maximum value
                    if allow and (infd not in ref.has or not ref.complete):
                        continue
                    y, exc = _try(lambda: fn(True) if allow else fn())
                    if exc is not None:
                        self.fail(name, f'raised {exc} inside the range', item, show(s[1]), f'raised {exc}', carrier=cname, allow_inf=allow)
                    elif not self._value_matches(y, s[1]):
                        self.fail(name, 'not the neighbouring member', item, show(s[1]),
                                  show(den(y)) if isinstance(y, Float) else repr(y), carrier=cname, allow_inf=allow)
            else:
                y, exc = _try(lambda: fn())
                if exc != 'ValueError':
                    self.fail(name, 'past the last finite value without allow_inf: ' + (f'raised {exc}' if exc else 'returned a value'),
                              item, 'ValueError', f'raised {exc}' if exc else show(den(y)) if isinstance(y, Float) else repr(y), carrier=cname)
                if infd in ref.has:
                    y, exc = _try(lambda: fn(True))
                    if exc is not None or not isinstance(y, Float) or den(y) != infd:
                        self.fail(name, 'past the last finite value with allow_inf: not the infinity', item, infd,
                                  f'raised {exc}' if exc else show(den(y)) if isinstance(y, Float) else repr(y), carrier=cname)
        if q == 0:
            for name, fn in (('next_towards_zero', o.next_towards_zero), ('next_away_zero', o.next_away_zero)):
                y, exc = _try(lambda: fn(x))
                if exc != 'ValueError':
                    self.fail(name, 'documented ValueError on zero not raised: ' + (f'raised {exc}' if exc else 'returned a value'),
                              item, 'ValueError', f'raised {exc}' if exc else show(den(y)) if isinstance(y, Float) else repr(y), carrier=cname)
        # infval must not disturb the ordinal of a finite number
        if k is not None and PINF in ref.has and ref.complete:
            k2, exc = _try(lambda: o.to_ordinal(x, True))
            if exc is not None or k2 != k:
                self.fail('to_ordinal', 'finite value: infval=True changes the ordinal', item, k, f'raised {exc}' if exc else repr(k2), carrier=cname)

    def check_inf(self, item, x, d, cname):
        ref, o = self.ref, self.o
        pos = d == PINF
        top = ref.extreme(pos)
        base = self.base()
        k, exc = _try(lambda: o.to_ordinal(x))
        if exc not in ('ValueError', 'TypeError'):
            self.fail('to_ordinal', 'infinity without infval: ' + (f'raised {exc}' if exc else 'returned an ordinal'), item,
                      'ValueError|TypeError', f'raised {exc}' if exc else repr(k), carrier=cname)
        if top is not None and base != 'bad':
            want = base + ref.rank(top) + (1 if pos else -1)
            k, exc = _try(lambda: o.to_ordinal(x, True))
            if exc is not None or k != want:
                self.fail('to_ordinal', 'infinity with infval: not one past the extreme ordinal', item, want,
                          f'raised {exc}' if exc else repr(k), carrier=cname)
            else:
                y, exc = _try(lambda: o.from_ordinal(want, True))
                if exc is not None or not isinstance(y, Float) or den(y) != d:
                    self.fail('from_ordinal', 'sentinel ordinal with infval: not the infinity', item, d,
                              f'raised {exc}' if exc else show(den(y)) if isinstance(y, Float) else repr(y), carrier=cname, ordinal=want)
        toward = o.next_down if pos else o.next_up
        away = o.next_up if pos else o.next_down
        tname = 'next_down' if pos else 'next_up'
        aname = 'next_up' if pos else 'next_down'
        if top is not None:
            y, exc = _try(lambda: toward(x, True))
            if exc is not None or not self._value_matches(y, top):
                self.fail('next_up|next_down', 'from an infinity with allow_inf: not the extreme finite value', item, show(top),
                          f'raised {exc}' if exc else show(den(y)) if isinstance(y, Float) else repr(y), carrier=cname)
        for fn, nm, args in ((toward, tname, ()), (away, aname, ()), (away, aname, (True,))):
            y, exc = _try(lambda: fn(x, *args))
            if exc != 'ValueError':
                self.fail('next_up|next_down', 'documented ValueError on an infinity not raised: ' + (f'raised {exc}' if exc else 'returned a value'),
                          item, 'ValueError', f'raised {exc}' if exc else show(den(y)) if isinstance(y, Float) else repr(y),
                          carrier=cname, allow_inf=bool(args))
        # the zero-relative steppers: towards zero from an infinity is the `toward` step, away from it has no answer
        if top is not None:
            y, exc = _try(lambda: o.next_towards_zero(x, True))
            if exc is not None or not self._value_matches(y, top):
                self.fail('next_towards_zero', 'from an infinity with allow_inf: not the extreme finite value', item, show(top),
                          f'raised {exc}' if exc else show(den(y)) if isinstance(y, Float) else repr(y), carrier=cname)
        for fn, nm, args in ((o.next_towards_zero, 'next_towards_zero', ()), (o.next_away_zero, 'next_away_zero', ())):
            y, exc = _try(lambda: fn(x, *args))
            if exc != 'ValueError':
                self.fail(nm, 'documented ValueError on an infinity not raised: ' + (f'raised {exc}' if exc else 'returned a value'),
                          item, 'ValueError', f'raised {exc}' if exc else show(den(y)) if isinstance(y, Float) else repr(y),
                          carrier=cname, allow_inf=bool(args))

    def check_nan(self, item, x, cname):
        o = self.o
        k, exc = _try(lambda: o.to_ordinal(x))
        if exc not in ('ValueError', 'TypeError'):
            self.fail('to_ordinal', 'NaN: ' + (f'raised {exc}' if exc else 'returned an ordinal'), item,
                      'ValueError|TypeError', f'raised {exc}' if exc else repr(k), carrier=cname)
        for fn, nm in ((o.next_up, 'next_up'), (o.next_down, 'next_down')):
            for args in ((), (True,)):
                y, exc = _try(lambda: fn(x, *args))
                if exc != 'ValueError':
                    self.fail('next_up|next_down', 'documented ValueError on NaN not raised: ' + (f'raised {exc}' if exc else 'returned a value'),
                              item, 'ValueError', f'raised {exc}' if exc else show(den(y)) if isinstance(y, Float) else repr(y),
                              carrier=cname, allow_inf=bool(args))

    # ---- non-member
    def do_nonmember(self, item, d, label):
        cars = list(float_carriers(d))
        if isinstance(d, Fraction):
            cars.append(('RealFloat', rf(d)))
        elif d in (PZERO, NZERO):
            cars.append(('RealFloat', RealFloat(s=(d == NZERO), c=0, exp=0)))
        for cname, x in cars:
            r, exc = self.rep(x)
            if exc is not None or r is not False:
                lab = 'non-member (' + ('beyond range' if label in ('beyond-range', 'negative') else
                                         'inside the range' if label in ('midpoint', 'quarter', 'generic', 'below-min') else label) + ')'
                if isinstance(d, str):
                    lab = f'absent {("inf or nan" if vclass(d) in ("inf", "nan") else "zero")}'
                self.fail('representable_in', lab + (f' raised {exc}' if exc else ' accepted'), item, False,
                          f'raised {exc}' if exc else r, carrier=cname)

    # ---- queries
    def do_query(self, item, q):
        ref, o = self.ref, self.o
        vals = [v for seg in ref.segs for v in seg[1]]
        lo, hi = ref.extreme(False), ref.extreme(True)
        if q in ('minval+', 'minval-', 'maxval+', 'maxval-'):
            s = q.endswith('-')
            fn = o.minval if q.startswith('minval') else o.maxval
            if q.startswith('minval'):
                # (the first window of an unbounded format surrounds zero, so `side` is never empty there)
                side = [v for v in vals if (v < 0 if s else v > 0)]
                exists = bool(side)
                want = (max(side) if s else min(side)) if side else None
            else:
                want = (lo if s else hi)
                exists = want is not None and (want < 0 if s else want > 0)
            y, exc = _try(lambda: fn(s))
            got = f'raised {exc}' if exc else show(den(y)) if isinstance(y, Float) else repr(y)
            name = q[:-1]
            if exists:
                if exc is not None or not self._value_matches(y, want):
                    self.fail(name, 'not the ' + ('least' if name == 'minval' else 'greatest') + '-magnitude member of that sign',
                              item, show(want), got, s=s)
            else:
                if name == 'minval':
                    if exc != 'ValueError':
                        self.fail(name, 'no non-zero member of that sign: ' + ('returned a value' if exc is None else f'raised {exc}'),
                                  item, 'ValueError', got, s=s)
                else:
                    self.res.count('oracle_set:maxval of an empty sign')
                    ok = exc == 'ValueError' or (exc is None and self._value_matches(y, Fraction(0)))
                    if not s:
                        ok = exc is None and self._value_matches(y, Fraction(0))
                    if not ok:
                        self.fail(name, 'no non-zero member of that sign: ' + ('returned a non-member' if exc is None else f'raised {exc}'),
                                  item, '0' if not s else '0|ValueError', got, s=s)
        elif q in ('largest', 'smallest'):
            want = hi if q == 'largest' else lo
            y, exc = _try(lambda: o.largest() if q == 'largest' else o.smallest())
            if exc is not None or not self._value_matches(y, want):
                self.fail(q, f'not the {"maximum" if q == "largest" else "minimum"} of the finite members', item, show(want),
                          f'raised {exc}' if exc else show(den(y)) if isinstance(y, Float) else repr(y))
        elif q == 'zero-ordinal':
            got = []
            for z in (PZERO, NZERO):
                if z in ref.has:
                    k, exc = _try(lambda: o.to_ordinal(to_float_obj(z)))
                    got.append(f'raised {exc}' if exc else k)
            if any(g != 0 for g in got):
                # a rejected member zero is already reported by the value item (representable_in)
                if not any(isinstance(g, str) for g in got):
                    self.fail('to_ordinal', 'zeros do not map to ordinal 0', item, 0, got)
        elif q == 'layout':
            # an accepted format must have room for what its parameters promise
            es, nbits, inf, nk = ref.info['es'], ref.nbits, ref.info['inf'], ref.info['nk']
            missing = []
            if PZERO not in ref.has:
                missing.append('+0')
            if inf and not (PINF in ref.has and NINF in ref.has):
                missing.append('inf')
            if nk != 3 and NAN not in ref.has:
                missing.append('nan')
            if missing:
                self.fail('constructor', 'accepted a layout with no code for ' + '/'.join(missing), item, None, missing)
            fin = [v for v in vals if v != 0]
            h, exc = _try(lambda: o.has_nonzero()) if hasattr(o, 'has_nonzero') else (None, 'n/a')
            if exc is None and h is not bool(fin):
                self.fail('has_nonzero', 'disagrees with the decoded set', item, bool(fin), h)
        elif q == 'pattern-domain':
            n, exc = _try(lambda: o.total_bits())
            if exc is not None or n != ref.nbits:
                self.fail('total_bits', 'not the width of the layout', item, ref.nbits, f'raised {exc}' if exc else repr(n))
            for b in (-1, 1 << ref.nbits, (1 << ref.nbits) + 1):
                y, exc = _try(lambda: o.decode(b))
                if exc not in ('ValueError', 'TypeError'):
                    self.fail('decode', 'integer that is not a pattern of the format: ' + (f'raised {exc}' if exc else 'returned a value'),
                              item, 'ValueError|TypeError', f'raised {exc}' if exc else show(den(y)) if isinstance(y, Float) else repr(y), bits=b)
        else:
            raise ValueError(q)

    # ---- from_ordinal over a whole segment and just outside it
    def do_ordrange(self, item, si):
        ref, o = self.ref, self.o
        base = self.base()
        if base == 'bad':
            lo = ref.extreme(False)
            r, exc = _try(lambda: o.to_ordinal(to_float_obj(lo)))
            self.fail('to_ordinal', 'least member has no ordinal', item, 'int', f'raised {exc}' if exc else repr(r))
            return
        r0, vals, clo, chi = ref.segs[si]
        nbad = 0
        for i, v in enumerate(vals):
            k = base + r0 + i
            y, exc = _try(lambda: o.from_ordinal(k))
            if exc is not None or not self._value_matches(y, v):
                nbad += 1
                if nbad <= 2:
                    self.fail('from_ordinal', 'not the member of that rank', item, show(v),
                              f'raised {exc}' if exc else show(den(y)) if isinstance(y, Float) else repr(y), ordinal=k)
            else:
                rr, exc = self.rep(y)
                if exc is not None or rr is not True:
                    nbad += 1
                    if nbad <= 2:
                        self.fail('from_ordinal', 'result not representable', item, True, f'raised {exc}' if exc else rr, ordinal=k)
        for closed, k, d in ((chi, base + r0 + len(vals), PINF), (clo, base + r0 - 1, NINF)):
            if not closed:
                continue
            y, exc = _try(lambda: o.from_ordinal(k))
            if exc != 'ValueError':
                self.fail('from_ordinal', 'ordinal outside the range: ' + (f'raised {exc}' if exc else 'returned a value'), item,
                          'ValueError', f'raised {exc}' if exc else show(den(y)) if isinstance(y, Float) else repr(y), ordinal=k)
            if d in ref.has:
                y, exc = _try(lambda: o.from_ordinal(k, True))
                if exc is not None or not isinstance(y, Float) or den(y) != d:
                    self.fail('from_ordinal', 'sentinel ordinal with infval: not the infinity', item, d,
                              f'raised {exc}' if exc else show(den(y)) if isinstance(y, Float) else repr(y), ordinal=k)
                k2 = k + (1 if d == PINF else -1)
                y, exc = _try(lambda: o.from_ordinal(k2, True))
                if exc != 'ValueError':
                    self.fail('from_ordinal', 'ordinal beyond the sentinel with infval: ' + (f'raised {exc}' if exc else 'returned a value'),
                              item, 'ValueError', f'raised {exc}' if exc else show(den(y)) if isinstance(y, Float) else repr(y), ordinal=k2)


# ---------------------------------------------------------------------------
# binary16/32/64 against the platform

NATIVE = {16: (5, 'e', 'H'), 32: (8, 'f', 'I'), 64: (11, 'd', 'Q')}


def native_float(width, b):
    _, f, i = NATIVE[width]
    return struct.unpack('<' + f, struct.pack('<' + i, b))[0]


def native_bits(width, x):
    _, f, i = NATIVE[width]
    return struct.unpack('<' + i, struct.pack('<' + f, x))[0]


def native_patterns(width, seed, idx, n):
    es = NATIVE[width][0]
    m = width - 1 - es
    rng = random.Random(h64(seed, idx, width, 'C16-native'))
    out = set()
    emask = (1 << es) - 1
    if idx == 0:
        for E in (0, 1, 2, emask - 2, emask - 1, emask, emask >> 1, (emask >> 1) + 1):
            for M in (0, 1, 2, (1 << m) - 2, (1 << m) - 1, 1 << (m - 1), (1 << (m - 1)) - 1, (1 << (m - 1)) + 1):
                for s in (0, 1):
                    out.add((s << (width - 1)) | (E << m) | M)
    while len(out) < n:
        how = rng.randrange(4)
        if how == 0:
            out.add(rng.getrandbits(width))
        elif how == 1:      # uniform exponent field, random mantissa
            out.add((rng.getrandbits(1) << (width - 1)) | (rng.randrange(emask + 1) << m) | rng.getrandbits(m))
        elif how == 2:      # few mantissa bits
            M = 0
            for _ in range(rng.randrange(3)):
                M |= 1 << rng.randrange(m)
            out.add((rng.getrandbits(1) << (width - 1)) | (rng.randrange(emask + 1) << m) | M)
        else:               # near the ends of the exponent range
            E = rng.choice((0, 0, 1, emask - 1, emask))
            out.add((rng.getrandbits(1) << (width - 1)) | (E << m) | rng.getrandbits(m))
    return sorted(out)


def native_next(width, x, up):
    if width == 64:
        return math.nextafter(x, math.inf if up else -math.inf)
    import numpy as np
    ty = np.float16 if width == 16 else np.float32
    with np.errstate(over='ignore'):
        return float(np.nextafter(ty(x), ty(np.inf if up else -np.inf)))


def run_native_item(res: Result, width, level, b, fut_cache={}):
    es = NATIVE[width][0]
    key = (width, level)
    if key not in fut_cache:
        fut_cache[key] = IEEEFormat(es, width) if level == 'fmt' else fp.IEEEContext(es, width)
    o = fut_cache[key]
    mag_mask = (1 << (width - 1)) - 1
    spec = ['native', [width]]
    item = ('bits', b)
    case = {'spec': spec, 'level': level, 'item': list(item)}
    xf = native_float(width, b)
    want = den(xf)
    res.case()
    res.cls('fam:native')
    res.cls(f'native:{width}')
    res.cls('level:' + level)
    c = vclass(want)
    emask = (1 << es) - 1
    E = (b >> (width - 1 - es)) & emask
    nt = c != 'finite' or E in (0, 1, emask - 1) or (b & mag_mask) in (1, mag_mask)
    if c in ('nan', 'inf'):
        res.cls('special')
    if c == 'finite' and E == 0:
        res.cls('subnormal')
    if nt:
        res.nontrivial()
        if res.evaluations % 997 == 1:
            res.sample(case, nt=True)
    elif res.evaluations % 997 == 2:
        res.sample(case)

    def fail(check, sym, expected, got, **extra):
        res.fail(f'native/{check}/{sym}', dict(case, **extra), expected=expected, got=got)

    x, exc = _try(lambda: o.decode(b))
    if exc is not None or not isinstance(x, Float):
        return fail('decode', f'raised {exc}' if exc else 'not a Float', show(want), f'raised {exc}' if exc else repr(x))
    if den(x) != want:
        return fail('decode', f'{c} pattern: disagrees with the platform', show(want), show(den(x)))
    r, exc = _try(lambda: o.representable_in(x) if level == 'fmt' else o.representable_under(x))
    if exc is not None or r is not True:
        return fail('representable_in', f'member {c} rejected', True, f'raised {exc}' if exc else r)
    carriers = [('decoded', x)]
    if c != 'nan':
        carriers.append(('from_float', Float.from_float(xf)))
    for cname, xx in carriers:
        e, exc = _try(lambda: o.encode(xx))
        if exc is not None or not isinstance(e, int):
            fail('encode', f'{c} raised {exc}' if exc else f'{c} not an int', b, f'raised {exc}' if exc else repr(e), carrier=cname)
        elif c == 'nan':
            if not math.isnan(native_float(width, e)):
                fail('encode', 'nan encoded as a non-NaN pattern', 'a NaN pattern', e, carrier=cname)
        elif e != b:
            fail('encode', f'{c}: disagrees with the platform', b, e, carrier=cname)
        if c in ('finite', 'zero'):
            # IEEE total order on finite numbers = order of the sign-magnitude integer
            want_ord = -(b & mag_mask) if b >> (width - 1) else (b & mag_mask)
            k, exc = _try(lambda: o.to_ordinal(xx))
            if exc is not None or k != want_ord:
                fail('to_ordinal', 'not the sign-magnitude integer of the pattern', want_ord, f'raised {exc}' if exc else repr(k), carrier=cname)
            else:
                y, exc = _try(lambda: o.from_ordinal(k))
                if exc is not None or not isinstance(y, Float) or num(den(y)) != num(want):
                    fail('from_ordinal', 'does not invert to_ordinal', show(want), f'raised {exc}' if exc else repr(y), carrier=cname)
            for up in (True, False):
                nxt = native_next(width, xf, up)
                name = 'next_up' if up else 'next_down'
                fn = o.next_up if up else o.next_down
                if math.isinf(nxt):
                    y, exc = _try(lambda: fn(xx, True))
                    if exc is not None or not isinstance(y, Float) or den(y) != den(nxt):
                        fail(name, 'past the last finite value with allow_inf: not the infinity', show(den(nxt)),
                             f'raised {exc}' if exc else repr(y), carrier=cname)
                    y, exc = _try(lambda: fn(xx))
                    if exc != 'ValueError':
                        fail(name, 'past the last finite value without allow_inf', 'ValueError', f'raised {exc}' if exc else repr(y), carrier=cname)
                else:
                    y, exc = _try(lambda: fn(xx))
                    dn = den(nxt)
                    if exc is not None or not isinstance(y, Float) or not is_finite(den(y)) or num(den(y)) != num(dn):
                        fail(name, 'disagrees with the platform nextafter', show(dn), f'raised {exc}' if exc else show(den(y)), carrier=cname)
            y, exc = _try(lambda: o.normalize(xx))
            if exc is not None or not isinstance(y, Float) or den(y) != want:
                fail('normalize', f'{c} changes the value', show(want), f'raised {exc}' if exc else repr(y), carrier=cname)
            else:
                kk, exc = _try(lambda: o.canonical_under(y))
                if exc is not None or kk is not True:
                    fail('normalize', f'{c} result not canonical_under', True, f'raised {exc}' if exc else kk, carrier=cname)


# ---------------------------------------------------------------------------
# configuration space and shards

EOFFSETS = (-3, -2, -1, 0, 1, 2)


def format_space(tier):
    """List of (spec, weight)."""
    T = tier == 'thorough'
    out = []
    NB = 11 if T else 8
    for nbits in range(1, NB + 1):
        for es in range(0, nbits + 1):
            for nk in (0, 1, 2, 3):
                for inf in (False, True):
                    for eo in EOFFSETS:      # innermost: formats of one shape meet in one worker process
                        out.append((('efloat', (es, nbits, inf, nk, eo)), 1 << nbits))
            out.append((('ieee', (es, nbits)), 1 << nbits))
    FB = 10 if T else 8
    for nbits in range(1, FB + 1):
        for scale in (-3, 0, 2):
            for signed in (False, True):
                out.append((('fixed', (signed, scale, nbits)), 1 << nbits))
            out.append((('smfixed', (scale, nbits)), 1 << nbits))
    for nbits in range(1, (8 if T else 6) + 1):
        for eo in EOFFSETS:
            out.append((('exp', (nbits, eo)), 1 << nbits))
    flags2 = ((True, True), (False, False), (True, False), (False, True))
    for p in range(1, (7 if T else 5)):
        for emin in (-3, 0, 2):
            for nan, inf in flags2:
                out.append((('mps', (p, emin, nan, inf)), 40 + (3 << p)))
    for p in range(1, (6 if T else 5)):
        for emin in ((-3, 0, 2) if T else (-2, 0)):
            expmin = emin - p + 1
            for span in ((0, 1, 2, 4) if T else (0, 1, 3)):
                emax = emin + span
                full = (pow2(p) - 1) * pow2(emax - p + 1)
                mvs = {full, pow2(emax)}
                if p >= 2:
                    mvs.add((pow2(p - 1) + 1) * pow2(emax - p + 1))
                if p >= 3:
                    mvs.add(3 * pow2(expmin))            # maximum inside the subnormal range
                mvs.add(pow2(expmin))                    # the format holds 0 and +/- one value
                for mv in sorted(mvs):
                    negs = [None]
                    if span >= 1:
                        negs.append(-pow2(emax - 1))
                    negs.append(-pow2(expmin))
                    for ng in negs:
                        for nan, inf in (flags2 if T else flags2[:3]):
                            out.append((('mpb', (p, emin, show(mv), None if ng is None else show(ng), nan, inf)),
                                        8 << (p + min(span, 3))))
    flags3 = [(n, i, z) for n in (False, True) for i in (False, True) for z in (True, False)]
    for nmin in (-4, -1, 0, 3):
        for nan, inf, nz in flags3:
            out.append((('mpfixed', (nmin, nan, inf, nz)), 80))
    for nmin in (-4, -1, 0, 3):
        for kmax, kmin in ((1, -1), (3, -3), (7, -8), (7, 0), (12, -2), (1, 0), (2, -9)):
            for nan, inf, nz in (flags3 if T else flags3[:6]):
                out.append((('mpbfixed', (nmin, kmax, kmin, nan, inf, nz)), 4 * (kmax - kmin + 1)))
    return out


def shards(tier, seed):
    T = tier == 'thorough'
    sp = format_space(tier)
    target = 6000 if T else 2500
    out, cur, w = [], [], 0
    for spec, weight in sp:
        cur.append(spec)
        w += weight
        if w >= target:
            out.append(('fmts', cur))
            cur, w = [], 0
    if cur:
        out.append(('fmts', cur))
    n16, n32, n64 = (65536, 40000, 40000) if T else (6000, 4000, 4000)
    per = 2000
    for width, n in ((16, n16), (32, n32), (64, n64)):
        if width == 16 and T:
            for i in range(0, 65536, 4096):
                out.append(('native-range', 16, i, i + 4096))
            continue
        for idx in range((n + per - 1) // per):
            out.append(('native', width, seed, idx, min(per, n - idx * per)))
    return out


def layout_valid(spec):
    """Must the constructor accept this parameterisation?  True / False / None (either is fine).

    Extended floats: the layout must have a code for everything the parameters promise -- a sign bit and
    0 <= es < nbits, an all-ones exponent for the IEEE kind, +0, both infinities when enabled, a NaN unless the
    kind is NONE (decided on the reference decoding, where special codes take precedence over numbers)."""
    fam, a = spec
    if fam in ('efloat', 'ieee'):
        es, nbits, inf, nk = (a[0], a[1], a[2], a[3]) if fam == 'efloat' else (a[0], a[1], True, 0)
        if not (0 <= es < nbits) or (nk == 0 and es == 0):
            return False
        pat = set(refdec.efloat_all(es, nbits, inf, nk, 0))
        return PZERO in pat and (not inf or (PINF in pat and NINF in pat)) and (nk == 3 or NAN in pat)
    if fam == 'fixed':
        return True if a[2] >= (2 if a[0] else 1) else None
    if fam == 'smfixed':
        return True if a[1] >= 2 else None
    return True


def run_format(res: Result, spec):
    fmt_failed = set()
    want = layout_valid(spec)
    case = {'spec': [spec[0], list(spec[1])], 'level': 'fmt', 'item': ['construct']}
    try:
        objs = OBJ[spec[0]](*spec[1])
    except Exception as e:   # noqa: BLE001 - constructor of the code under test
        exc = type(e).__name__
        if want is True or exc != 'ValueError':
            res.case()
            res.fail(f'{spec[0]}/constructor/raised {exc} for ' + ('a layout that has a code for everything it promises'
                     if want else 'an invalid layout' if want is False else 'a layout'), case,
                     expected='accepted' if want else 'ValueError', got=f'raised {exc}')
        else:
            res.skip('constructor rejected')
        return
    if want is False:
        res.case()
        res.fail(f'{spec[0]}/constructor/accepted a layout that lacks a code it promises', case, expected='ValueError', got='accepted')
        return
    for level in ('fmt', 'ctx'):
        fut = FUT(spec, level, res, objs, fmt_failed if level == 'ctx' else None)
        res.count('formats')
        for item in fut.items():
            fut.run_item(item)
        if level == 'fmt':
            fmt_failed.update(fut.failed)


def run_shard(shard):
    res = Result()
    if shard[0] == 'fmts':
        for spec in shard[1]:
            run_format(res, spec)
    elif shard[0] == 'native':
        _, width, seed, idx, n = shard
        for b in native_patterns(width, seed, idx, n):
            for level in ('fmt', 'ctx'):
                run_native_item(res, width, level, b)
    elif shard[0] == 'native-range':
        _, width, lo, hi = shard
        for b in range(lo, hi):
            for level in ('fmt', 'ctx'):
                run_native_item(res, width, level, b)
    else:
        raise ValueError(shard)
    return res


# ---------------------------------------------------------------------------

def selftest():
    """Sanity of the reference decoders against independent tables."""
    # binary16 against struct (every 5th pattern and the special region)
    for b in list(range(0, 1 << 16, 5)) + list(range(0x7BF0, 0x7C10)) + list(range(0xFBF0, 0xFC10)):
        want = den(native_float(16, b))
        got = refdec.efloat_decode(5, 16, True, refdec.IEEE_754, 0, b)
        assert want == got, ('refdec vs struct binary16', b, want, got)
    for b in (0, 1, 0x7F7FFFFF, 0x7F800000, 0x7FC00000, 0x80000000, 0x00800000, 0x3F800001, 0xFF800000):
        assert den(native_float(32, b)) == refdec.efloat_decode(8, 32, True, refdec.IEEE_754, 0, b), ('binary32', b)
    # OCP MX / OFP8 tables
    e4m3 = lambda b: refdec.efloat_decode(4, 8, False, refdec.MAX_VAL, 0, b)
    assert e4m3(0x7E) == 448 and e4m3(0x7F) == NAN and e4m3(0xFF) == NAN and e4m3(0x01) == pow2(-9) and e4m3(0x08) == pow2(-6)
    assert e4m3(0x80) == NZERO and e4m3(0xFE) == -448
    e5m2 = lambda b: refdec.efloat_decode(5, 8, True, refdec.IEEE_754, 0, b)
    assert e5m2(0x7B) == 57344 and e5m2(0x7C) == PINF and e5m2(0x7D) == NAN and e5m2(0x01) == pow2(-16) and e5m2(0xFC) == NINF
    e2m1 = [refdec.efloat_decode(2, 4, False, refdec.NONE, 0, b) for b in range(8)]
    assert e2m1 == [PZERO, Fraction(1, 2), 1, Fraction(3, 2), 2, 3, 4, 6], e2m1
    assert refdec.efloat_decode(3, 6, False, refdec.NONE, 0, 0x1F) == 28
    assert refdec.efloat_decode(2, 6, False, refdec.NONE, 0, 0x1F) == Fraction(15, 2)
    assert refdec.efloat_decode(2, 6, False, refdec.NONE, 0, 0x01) == Fraction(1, 8)
    # IEEE P3109 binary8p3 (bias 16: eoffset -1), binary8p1
    p3 = lambda b: refdec.efloat_decode(5, 8, True, refdec.NEG_ZERO, -1, b)
    assert p3(0x80) == NAN and p3(0x7F) == PINF and p3(0xFF) == NINF and p3(0x7E) == 49152 and p3(0x01) == pow2(-17) and p3(0x40) == 1
    p1 = lambda b: refdec.efloat_decode(7, 8, True, refdec.NEG_ZERO, 0, b)
    assert p1(0x7F) == PINF and p1(0x7E) == pow2(63) and p1(0x01) == pow2(-62) and p1(0x3F) == 1 and p1(0x80) == NAN
    # E8M0, integers
    assert refdec.exp_decode(8, 0, 0xFF) == NAN and refdec.exp_decode(8, 0, 0) == pow2(-127) and refdec.exp_decode(8, 0, 0xFE) == pow2(127)
    assert refdec.exp_decode(8, 0, 127) == 1
    assert refdec.fixed_decode(True, 0, 8, 0x80) == -128 and refdec.fixed_decode(True, 0, 8, 0xFF) == -1
    assert refdec.fixed_decode(False, 0, 8, 0xFF) == 255 and refdec.fixed_decode(True, -6, 8, 0x40) == 1
    assert refdec.smfixed_decode(0, 8, 0x80) == NZERO and refdec.smfixed_decode(0, 8, 0xFF) == -127 and refdec.smfixed_decode(2, 4, 3) == 12
    # distinct non-NaN patterns of a layout decode to distinct values (so "the" pattern of a value is well defined)
    for es, nbits, inf, nk in ((0, 4, True, 2), (1, 4, True, 1), (3, 4, False, 0), (2, 5, True, 3), (4, 5, False, 1)):
        pat = [d for d in refdec.efloat_all(es, nbits, inf, nk, 0) if d != NAN]
        assert len(pat) == len(set(pat)), (es, nbits, inf, nk)
    # rank formula of the float grid against enumeration
    for p, emin in ((1, 0), (2, -1), (3, 2), (4, -3)):
        v = pow2(emin - p + 1)
        for r in range(1, 60):
            assert _float_rank(v, p, emin) == r, (p, emin, v, r)
            assert on_grid(v, p, emin - p)
            v = _float_succ(v, p, emin - p + 1)
    # the platform really is IEEE
    assert native_bits(64, 1.0) == 0x3FF0000000000000 and native_bits(16, 1.0) == 0x3C00


def replay(case):
    res = Result()
    spec, level, item = case['spec'], case['level'], case['item']
    if spec[0] == 'native':
        run_native_item(res, spec[1][0], level, item[1])
    else:
        sp = (spec[0], tuple(spec[1]))
        want = layout_valid(sp)
        try:
            objs = OBJ[sp[0]](*sp[1])
        except Exception as e:   # noqa: BLE001
            if not (item[0] == 'construct' and want is False and type(e).__name__ == 'ValueError'):
                res.fail(f'{spec[0]}/constructor/raised {type(e).__name__} for a format of a saved case', case, 'accepted',
                         f'raised {type(e).__name__}')
        else:
            if want is False:
                res.fail(f'{spec[0]}/constructor/accepted a layout that lacks a code it promises', case, 'ValueError', 'accepted')
            elif item[0] != 'construct':
                FUT(sp, level, res, objs).run_item(tuple(item))
    return [f for fl in res.failures.values() for f in fl]
