"""
C11 -- Compiled C++ agrees bit for bit with the interpreter.

Programs (vlib/c11_gen.py: format-tracking "cpp" profile) are loaded through the real decorator, compiled
by CppCompiler under every option combination, assembled ~100 kernels per translation unit (vlib/cxx.py),
built with g++ and run; every returned value is compared bit for bit with Function.__call__ on the same
arguments and context.

Buckets: `emits-invalid-c++/<g++ message>` (accepted output that g++ rejects; attributed by compiling the kernel
alone), `aborts/<assert|signal>`, `wrong-<value|zero-sign|bool|length|shape>/<option scope>` where the scope says
which compiler options the failure depends on (all-options, optimize=O1, unbox=ALLOW+STRICT, ...),
`rounding-mode-not-restored/at-return/<scope>`, `storage/parameter-type-cannot-hold-format-member`.
Open known findings (`known/...` buckets; reported only by the committed witness replays that carry `known_bucket`,
their triggers are excluded by construction in vlib/c11_gen.py and counted as `excluded:*`): float->int rounding out of
range, FP32 dyadic literal tokens, the 8/16-bit integer operator table (+ unsigned abs), list min/max after a widening store.
Defects found while building the check (each with a replay under replays/C11 and a patch under proposed_fixes/C11_*):
float->int rounding out of range, both-arm rebind not hoisted, double literal tokens widening FP32 expression trees,
callee entry rounding mode not established by compiled callers, narrow-int promotion / unsigned std::abs,
fp.round(-0.0) folded to +0 at optimize=False, zip/enumerate elimination re-reading a list the loop body writes.
"""

from __future__ import annotations

import copy
import hashlib
import re
import signal
from fractions import Fraction

import fpy2 as fp
from fpy2.backend.cpp.types import CppList, CppScalar, CppTuple
from fpy2.types import BoolType, ListType, RealType, TupleType

from vlib import c11_gen as gen
from vlib import cxx
from vlib.denote import NAN, NINF, NZERO, PINF, PZERO, den
from vlib.load import load_module, unload
from vlib.runner import Result, h64

PROPERTY = 'C11'
LEVEL = 'translation_validation'
RULE = ('Programs: format-tracking generator of FPy source text (vlib/c11_gen.py) -- typed entry signatures (FP32/FP64 scalars and '
        'lists with pinned or free lengths, integer formats, a 26-bit fixed-point format needing 25 significand bits), contexts FP32/FP64 x {RNE,RTZ,RTP,RTN}, SINT/UINT 8-64, INTEGER, REAL sections over '
        'integer formats, correctly-rounded ops only, loops, branches, tuples, nested and aliased lists, list-mutating helpers, '
        'sum/len/any/all/zip/enumerate/range, comprehensions; fp.round inserted wherever a value crosses into a narrower format. '
        'Each program is compiled under optimize x unbox{NEVER,ALLOW,STRICT} x arrays (12 option sets) plus unsafe_cast_int=False, '
        'and every accepted (program, option set) is run on several argument vectors (+-0, subnormals, inf, NaN, FP32-overflowing '
        'values, integers near 2^31/2^63) that the interpreter accepts. An evaluation = one (program, option set, input) whose C++ '
        'result was compared. Non-trivial = the interpreter result of the program on that input changes between at least two of the '
        '{all-FP32, all-FP64, all-RTZ, all-RNE} re-evaluations of the same source (so a wrong storage type or rounding mode would '
        'show), or the program reads a list through one name after a callee wrote it through an alias; distinct by (source hash, '
        'option set, input index).')
ASSUMPTIONS = [
    'Trusted base: g++ 12 at -std=c++17 -O0 -frounding-math -ffp-contract=off honours fesetround and does not contract; glibc '
    'sqrt/fma/nearbyint/floor/ceil/trunc/round/fdim/copysign/logb are correctly rounded / exact for binary32 and binary64; '
    'signed integer overflow wraps at -O0 on x86-64.',
    'The oracle is the FPy interpreter (Function.__call__) on the same arguments (members of the parameter formats) and context.',
    'CppCompileError means "not accepted" (counted per reason, never a violation); inputs on which the interpreter raises are skipped.',
    'Kernels are entered with fesetround set to the mode of their top-level context (FE_TONEAREST when it names none), the documented '
    'precondition of emitted code; the driver also checks that the mode is restored on return (documented postcondition).',
    'Under INTEGER (unsafe_cast_int=True: "assuming no overflow") the generator keeps every exact intermediate within int64.',
    'Open choice, resolved either way and counted (skipped: open-choice:rtn-exact-zero-sign): the sign of an exactly-zero sum, '
    'difference or fma under round-toward-negative -- the interpreter returns +0, IEEE 754-2019 6.3 (and the hardware the compiled '
    'code runs on) returns -0.  A mismatching input is re-evaluated with an engine front-end that applies the IEEE rule to exact-zero '
    'add/sub/fma results only; the compiled result must then agree bit for bit.',
    'The sign of a NaN is not observed (the statement says NaN for NaN): the sign operand of copysign and the operand of signbit are '
    'guarded against NaN by construction (x86 invalid operations produce a negative quiet NaN, the interpreter a positive one).',
    'make_op_table() is memoised per worker process (a pure function rebuilt by every CppEmitter); nothing else in the tree is touched.',
]
EXHAUSTIVE = {'quick': False, 'thorough': False}
# generator health: acceptance (absolute program counts), context sensitivity (fraction of evaluations), aliasing class
FLOORS = {
    'quick': {'accepted-any': 85, 'accepted-all-12': 25, 'accepted:O1-STRICT-A1': 30, 'ctx-sensitive': 0.25,
              'programs-ctx-sensitive': 50, 'programs-callee-writes-aliased-list': 8},
    'thorough': {'accepted-any': 2000, 'accepted-all-12': 600, 'accepted:O1-STRICT-A1': 700, 'ctx-sensitive': 0.25,
                 'programs-ctx-sensitive': 1200, 'programs-callee-writes-aliased-list': 200},
}
MAXTASKS = None

# The op table is a pure function of nothing and is rebuilt by every CppEmitter (~0.1 s, a third of the
# compile cost here); build it once per process.  The table itself is still the tree's.
import functools as _functools
import fpy2.backend.cpp.emitter as _emitter_mod
if not hasattr(_emitter_mod.make_op_table, 'cache_info'):
    _emitter_mod.make_op_table = _functools.lru_cache(maxsize=1)(_emitter_mod.make_op_table)

UM = fp.CppCompiler.UnboxMode
CppCompileError = fp.backend.cpp.compiler.CppCompileError

# (name, kwargs)
OPTION_SETS = []
for _opt in (True, False):
    for _ub in ('NEVER', 'ALLOW', 'STRICT'):
        for _arr in (True, False):
            OPTION_SETS.append((f'O{int(_opt)}-{_ub}-A{int(_arr)}', dict(optimize=_opt, unbox=_ub, arrays=_arr, unsafe_cast_int=True)))
OPTION_SETS.append(('O1-ALLOW-A1-safeint', dict(optimize=True, unbox='ALLOW', arrays=True, unsafe_cast_int=False)))
OPTION_BY_NAME = dict(OPTION_SETS)


def make_compiler(kw):
    return fp.CppCompiler(optimize=kw['optimize'], unbox=getattr(UM, kw['unbox']), arrays=kw['arrays'],
                          unsafe_cast_int=kw['unsafe_cast_int'])


class _Timeout(Exception):
    pass


def _alarm(signum, frame):
    raise _Timeout()


# ---------------------------------------------------------------------------
# case encoding

CTXS = {
    'f32': 'fp.FP32', 'f64': 'fp.FP64',
    's8': 'fp.SINT8', 's16': 'fp.SINT16', 's32': 'fp.SINT32', 's64': 'fp.SINT64',
    'u8': 'fp.UINT8', 'u16': 'fp.UINT16', 'u32': 'fp.UINT32', 'u64': 'fp.UINT64',
    'x25': 'fp.FixedContext(True, -1, 26)',        # members need 25 significand bits: double is the only storage
}


def ctx_obj(text):
    if text is None:
        return None
    return eval(text, {'fp': fp})


def build_type(t):
    """arg-type description -> fpy2 Type.   'f32' | 'f64' | 's16'... | 'bool' | {'L': t, 'n': int|None} | {'T': [t..]}"""
    if isinstance(t, str):
        if t == 'bool':
            return BoolType()
        return RealType(ctx_obj(CTXS[t]))
    if 'L' in t:
        return ListType(build_type(t['L']), t.get('n'))
    if 'T' in t:
        return TupleType(*[build_type(x) for x in t['T']])
    raise ValueError(t)


def enc_val(a):
    if isinstance(a, list):
        return {'L': [enc_val(x) for x in a]}
    if isinstance(a, tuple):
        return {'T': [enc_val(x) for x in a]}
    if isinstance(a, bool):
        return {'b': a}
    if isinstance(a, float):
        return {'f': a.hex() if a == a and a not in (float('inf'), float('-inf')) else repr(a)}
    return {'i': a}


def dec_val(a):
    if 'L' in a:
        return [dec_val(x) for x in a['L']]
    if 'T' in a:
        return tuple(dec_val(x) for x in a['T'])
    if 'b' in a:
        return a['b']
    if 'f' in a:
        s = a['f']
        return float.fromhex(s) if s.lstrip('-').startswith('0x') else float(s)
    return a['i']


# ---------------------------------------------------------------------------
# expected (interpreter) value vs parsed C++ output

def expected_tree(v):
    """interpreter result -> ('L', [...]) | ('T', [...]) | ('b', bool) | ('n', denotation)"""
    if isinstance(v, list):
        return ('L', [expected_tree(x) for x in v])
    if isinstance(v, tuple):
        return ('T', [expected_tree(x) for x in v])
    if isinstance(v, bool):
        return ('b', v)
    return ('n', den(v))


def show_tree(t):
    k = t[0]
    if k in 'LT':
        return [k] + [show_tree(x) for x in t[1]]
    if k == 'n':
        d = t[1]
        return f'{d.numerator}/{d.denominator}' if isinstance(d, Fraction) else d
    if k in 'fd':
        return f'{k}:{cxx.leaf_float(t).hex() if cxx.leaf_float(t) == cxx.leaf_float(t) else "nan"}'
    return f'{k}:{t[1]}' if len(t) > 1 else k


def leaf_den(node):
    k = node[0]
    if k in 'fd':
        return den(cxx.leaf_float(node))
    if k in 'iu':
        return den(node[1])
    raise ValueError(node)


def compare(exp, got):
    """None if same, else a mismatch class:  'shape' | 'length' | 'bool' | 'zero-sign' | 'nan' | 'inf' | 'value' """
    ek, gk = exp[0], got[0]
    if ek in 'LT':
        if gk != ek:
            return 'shape'
        if len(exp[1]) != len(got[1]):
            return 'length' if ek == 'L' else 'shape'
        for a, b in zip(exp[1], got[1]):
            r = compare(a, b)
            if r:
                return r
        return None
    if ek == 'b':
        if gk != 'b':
            return 'shape'
        return None if bool(got[1]) == exp[1] else 'bool'
    if gk not in 'fdiu':
        return 'shape'
    e, g = exp[1], leaf_den(got)
    if e == g:
        return None
    if {e, g} == {PZERO, NZERO}:
        return 'zero-sign/int-storage' if gk in 'iu' else 'zero-sign'
    if NAN in (e, g):
        return 'nan'
    if e in (PINF, NINF) or g in (PINF, NINF):
        return 'inf'
    return 'value'


# ---------------------------------------------------------------------------
# one program

def reject_reason(msg: str) -> str:
    """Coarse, stable class of a CppCompileError message."""
    m = msg
    table = [
        ('strict unboxing failed', 'strict-unbox'),
        ('cannot implicitly cast', 'implicit-lossy-cast'),
        ('storage selection failed', 'storage-selection'),
        ('cannot pick storage', 'storage-selection'),
        ('no matching signature', 'no-signature'),
        ('unsupported literal', 'literal'),
        ('would narrow it', 'narrowing-store'),
        ('has no conversion between', 'representation-mismatch'),
        ('C++ has no conversion', 'representation-mismatch'),
        ('this one is shared', 'unsharing'),
        ('unsafe_cast_int', 'unbounded-integer'),
        ('has no sound C++ analogue', 'unbounded-integer'),
        ('has no C++ analogue', 'non-native-context'),
        ('specialization failed', 'specialize'),
        ('unresolved type in its signature', 'polymorphic-signature'),
        ('is not supported by ``fesetround``', 'rounding-mode'),
        ('`sum` over', 'sum-accumulator'),
        ('internal error', 'internal-error'),
        ('unsupported context', 'context'),
        ('must use RTZ', 'int-context-rm'),
        ('passing an unboxed list', 'unboxed-arg'),
        ('cannot hand back', 'hand-back'),
        ('cannot compare', 'compare-aggregate'),
    ]
    for key, cls in table:
        if key in m:
            return cls
    m = re.sub(r'`[^`]*`', '`_`', m)
    m = re.sub(r'<[^>]*>:\d+:\d+(-\d+:\d+)?:?', '', m)
    m = re.sub(r'\d+', 'N', m)
    return 'other:' + m.strip()[:60]


def interp(fn, args, ctx):
    """('value', v) | ('raise', ExcName) | ('timeout',)"""
    a = copy.deepcopy(args)
    old = signal.signal(signal.SIGALRM, _alarm)
    signal.alarm(20)
    try:
        return ('value', fn(*a, ctx=ctx))
    except _Timeout:
        return ('timeout',)
    except Exception as e:      # the interpreter rejecting an input is a skipped input, whatever the type
        return ('raise', type(e).__name__)
    finally:
        signal.alarm(0)
        signal.signal(signal.SIGALRM, old)


_FLOAT_CTX_RE = re.compile(r'fp\.IEEEContext\((8, 32|11, 64), fp\.RM\.(RNE|RTZ|RTP|RTN)\)')


def variant_sources(src):
    """The same source with every float context forced to FP32 / FP64 / RTZ / RNE (interpreter-only re-evaluations
    for the non-triviality rule)."""
    def sub(prec=None, rm=None):
        def f(m):
            p = prec or m.group(1)
            r = rm or m.group(2)
            return f'fp.IEEEContext({p}, fp.RM.{r})'
        return _FLOAT_CTX_RE.sub(f, src)
    return {'FP32': sub(prec='8, 32'), 'FP64': sub(prec='11, 64'), 'RTZ': sub(rm='RTZ'), 'RNE': sub(rm='RNE')}


class _IeeeRtnZero:
    """Engine front-end that resolves the one choice the documents leave open the IEEE 754 way: the sign of an
    exactly-zero sum / difference / fused multiply-add under round-toward-negative is '-' (754-2019 6.3), where
    the tree returns '+'.  Used only to re-evaluate an input on which compiled code and interpreter disagree."""

    def __getattr__(self, name):
        return lambda *a, **k: None

    def _rest(self, name, *args):
        from fpy2.number.engine import ENGINES
        for e in ENGINES:
            if e is self:
                continue
            r = getattr(e, name)(*args)
            if r is not None:
                return r
        return None

    @staticmethod
    def _zero_sign(v):
        """None if v is not a zero, else its sign bit"""
        if isinstance(v, Fraction):
            return False if v == 0 else None
        if isinstance(v, int):
            return False if v == 0 else None
        if v.isnan or v.isinf:
            return None
        return bool(v.s) if v.is_zero() else None

    @staticmethod
    def _rtn(ctx):
        return isinstance(ctx, fp.IEEEContext) and ctx.rm == fp.RM.RTN

    def _fix(self, r, ctx, sa, sb):
        """r = exact a + b; sa/sb: zero-sign of the addends (None when nonzero)"""
        if r is None or not self._rtn(ctx) or self._zero_sign(r) is None:
            return r
        if sa is not None and sb is not None and sa == sb:
            return r          # (+0) + (+0), (-0) + (-0): the common sign
        return fp.Float(s=True, c=0, exp=0)

    def add(self, x, y, ctx):
        if not self.active:
            return None
        return self._fix(self._rest('add', x, y, ctx), ctx, self._zero_sign(x), self._zero_sign(y))

    def sub(self, x, y, ctx):
        if not self.active:
            return None
        sy = self._zero_sign(y)
        return self._fix(self._rest('sub', x, y, ctx), ctx, self._zero_sign(x), None if sy is None else not sy)

    def fma(self, x, y, z, ctx):
        if not self.active:
            return None
        sx, sy = self._zero_sign(x), self._zero_sign(y)
        sp = None
        if sx is not None or sy is not None:
            def sgn(v):
                if isinstance(v, (Fraction, int)):
                    return v < 0
                return bool(v.s)
            sp = sgn(x) != sgn(y)
        return self._fix(self._rest('fma', x, y, z, ctx), ctx, sp, self._zero_sign(z))


_RTN_ENGINE = _IeeeRtnZero()
_RTN_ENGINE.active = False


class ieee_rtn_zero:
    """Activates the front-end engine (registered once through the public `register_engine`; inactive it answers
    None to everything, so dispatch is unchanged)."""

    def __enter__(self):
        from fpy2.number.engine import ENGINES
        if not any(e is _RTN_ENGINE for e in ENGINES):
            ENGINES.register(_RTN_ENGINE, priority=10**6)
        _RTN_ENGINE.active = True

    def __exit__(self, *exc):
        _RTN_ENGINE.active = False


def alt_expected(case, args):
    """Expected tree under the IEEE resolution of the RTN exact-zero sign, or None."""
    if 'RTN' not in case['src'] and 'RTN' not in (case['ctx'] or ''):
        return None
    try:
        mod = load_module(case['src'])
    except Exception:
        return None
    try:
        with ieee_rtn_zero():
            r = interp(getattr(mod, case['main']), args, ctx_obj(case['ctx']))
        if r[0] != 'value':
            return None
        return expected_tree(r[1])
    except TypeError:
        return None
    finally:
        unload(mod)


class Prepared:
    """A program loaded, interpreted and compiled under every option set; yields kernels for a TU."""

    def __init__(self, res: Result, case, pidx):
        self.case = case
        self.res = res
        self.pidx = pidx
        self.kernels = []          # cxx.Kernel (deduplicated by emitted text)
        self.kernel_opts = []      # option-set names sharing kernels[i]
        self.expected = []         # per kept input: expected tree
        self.inputs = []           # per kept input: python args
        self.input_idx = []        # index into case['inputs']
        self.nt = []               # per kept input: non-trivial?
        self.ok = False
        self.sh = hashlib.blake2b(case['src'].encode(), digest_size=8).hexdigest()

    def prepare(self):
        res, case = self.res, self.case
        src = case['src']
        try:
            mod = load_module(src)
        except Exception as e:
            res.skip(f'generator-rejected:{type(e).__name__}')
            res.count('generator_rejected')
            if res.extra.get('generator_rejected', 0) <= 3:
                res.sample({'rejected': src, 'error': f'{type(e).__name__}: {str(e)[:300]}'})
            return
        try:
            self._prepare(mod)
        finally:
            unload(mod)

    def _prepare(self, mod):
        res, case = self.res, self.case
        res.count('programs')
        fn = getattr(mod, case['main'])
        ctx = ctx_obj(case['ctx'])
        arg_types = [build_type(t) for t in case['arg_types']]
        feats = set(case.get('features', ()))
        for f in sorted(feats):
            res.cls('f:' + f)
        for k, n in sorted(case.get('excluded', {}).items()):
            res.count(f'excluded:{k}', n)          # productions suppressed by construction (open known findings)

        # --- compile under every option set
        compiled = {}
        for name, kw in OPTION_SETS:
            if case.get('options') and name not in case['options']:
                continue
            if getattr(self, '_hung', False):
                res.skip('compile-timeout-inconclusive')       # this program already hung the compiler once
                res.cls(f'rejected:{name}')
                continue
            c = make_compiler(kw)
            old_h = signal.signal(signal.SIGALRM, _alarm)
            signal.alarm(40)            # watchdog: a compiler that does not terminate is inconclusive, never a verdict
            try:
                module = self._module(mod, fn, ctx, arg_types)
                body = c.compile_module(module)
                params, ret = c.signature(fn, ctx=ctx, arg_types=arg_types, module=module)
            except _Timeout:
                res.skip('compile-timeout-inconclusive')
                res.cls(f'rejected:{name}')
                res.count('compile_timeouts')
                self._hung = True
                continue
            except CppCompileError as e:
                r = reject_reason(str(e))
                res.skip(f'not-accepted:{r}')
                res.cls(f'rejected:{name}')
                if r.startswith('other:') or r in ('internal-error',):
                    if res.extra.get('odd_rejections', 0) < 4:
                        res.sample({'odd-rejection': str(e)[:400], 'src': case['src'], 'options': name})
                    res.count('odd_rejections')
                continue
            except Exception as e:      # not a CppCompileError: the backend crashed; the program is not "accepted"
                res.skip(f'not-accepted:crash:{type(e).__name__}')
                res.cls(f'rejected:{name}')
                res.count('compiler_crashes')
                if res.extra.get('compiler_crashes', 0) <= 4:
                    res.sample({'compiler-crash': f'{type(e).__name__}: {str(e)[:300]}', 'src': case['src'], 'options': name})
                continue
            finally:
                signal.alarm(0)
                signal.signal(signal.SIGALRM, old_h)
            res.cls(f'accepted:{name}')
            compiled[name] = (body, params, ret)
        res.cls('programs-offered')
        if not compiled:
            return
        res.cls('accepted-any')
        if sum(1 for n in compiled if not n.endswith('safeint')) == 12:
            res.cls('accepted-all-12')

        # --- oracle: interpreter on every input
        for ii, enc in enumerate(case['inputs']):
            args = [dec_val(a) for a in enc]
            r = interp(fn, args, ctx)
            if r[0] == 'timeout':
                res.skip('interp-timeout')
                continue
            if r[0] == 'raise':
                res.skip(f'interp-raises:{r[1]}')
                continue
            try:
                tree = expected_tree(r[1])
            except TypeError:
                res.skip('interp-unrepresentable-result')
                continue
            self.inputs.append(args)
            self.expected.append(tree)
            self.input_idx.append(ii)
        if not self.inputs:
            res.cls('no-usable-input')
            return

        # --- non-triviality: does the result move under FP32 / FP64 / RTZ / RNE re-evaluation?
        moved = [False] * len(self.inputs)
        outs = [[] for _ in self.inputs]
        self.variants = [dict() for _ in self.inputs]
        for vname, vsrc in variant_sources(case['src']).items():
            try:
                vm = load_module(vsrc)
            except Exception:
                continue
            try:
                vfn = getattr(vm, case['main'])
                vctx = ctx
                if case['ctx'] is not None:
                    vctx = ctx_obj(list(variant_sources(case['ctx']).values())[['FP32', 'FP64', 'RTZ', 'RNE'].index(vname)])
                for j, args in enumerate(self.inputs):
                    r = interp(vfn, args, vctx)
                    if r[0] == 'value':
                        try:
                            vt = expected_tree(r[1])
                        except TypeError:
                            continue
                        outs[j].append(repr(vt))
                        self.variants[j][vname] = vt
            finally:
                unload(vm)
        for j in range(len(self.inputs)):
            moved[j] = len(set(outs[j])) >= 2
        alias_nt = 'callee-writes-aliased-list' in feats
        self.nt = [m or alias_nt for m in moved]
        self.moved = moved
        if any(moved):
            res.cls('programs-ctx-sensitive')
        if alias_nt:
            res.cls('programs-callee-writes-aliased-list')

        # --- kernels, de-duplicated by emitted text + signature
        entry_rm = case['entry_rm']
        seen = {}
        for name, (body, params, ret) in compiled.items():
            key = (body, tuple(p.format() for p in params), ret.format())
            if key in seen:
                self.kernel_opts[seen[key]].append(name)
                continue
            try:
                for a in self.inputs:
                    for v, cty in zip(a, params):
                        cxx.cpp_value(v, cty)
            except cxx.HarnessError as e:
                # the inputs are members of the declared parameter formats by construction: the chosen storage cannot hold one
                res.fail('storage/parameter-type-cannot-hold-format-member',
                         {'src': case['src'], 'main': case['main'], 'ctx': case['ctx'], 'arg_types': case['arg_types'],
                          'entry_rm': case['entry_rm'], 'options': [name], 'inputs': [enc_val_list(self.inputs[0])],
                          'features': sorted(feats), 'extra_public': case.get('extra_public', []), 'origin': case.get('origin')},
                         expected='storage containing the parameter format', got=f'{[p.format() for p in params]}: {e}')
                continue
            seen[key] = len(self.kernels)
            k = cxx.Kernel(ns=f'k{self.pidx}_{len(self.kernels)}', body=body, entry=case['main'], params=params, ret=ret,
                           entry_rm=entry_rm, calls=[self._fit_args(a, params) for a in self.inputs], tag=self)
            self.kernels.append(k)
            self.kernel_opts.append([name])
        self.ok = True

    def _module(self, mod, fn, ctx, arg_types):
        m = fp.Module()
        m.add(fn, ctx=ctx, arg_types=arg_types)
        for extra in self.case.get('extra_public', ()):
            m.add(getattr(mod, extra['name']), ctx=ctx_obj(extra.get('ctx')), arg_types=[build_type(t) for t in extra['arg_types']])
        return m

    @staticmethod
    def _fit_args(args, params):
        return list(args)

    # -- after the TU ran
    def judge_all(self, outcomes):
        """outcomes[ki] = ('invalid', (reason, raw)) | ('ran', call_results)"""
        res, case = self.res, self.case
        base = {'src': case['src'], 'main': case['main'], 'ctx': case['ctx'], 'arg_types': case['arg_types'],
                'entry_rm': case['entry_rm'], 'features': sorted(case.get('features', ())),
                'extra_public': case.get('extra_public', []), 'origin': case.get('origin')}
        ran_opts = []
        alt_cache = {}
        feats_all = set(case.get('features', ()))
        for ki, (kind, payload) in enumerate(outcomes):
            opts = self.kernel_opts[ki]
            if kind == 'invalid':
                reason, raw = payload
                c = dict(base, options=opts[:1], inputs=[enc_val_list(self.inputs[0])])
                res.fail(f'emits-invalid-c++/{reason}', c, expected='C++ that compiles', got=raw[:300],
                         note=f'options sharing this text: {opts}')
                res.count('kernels_invalid')
            else:
                res.count('kernels_run')
                res.count('option_sets_run', len(opts))
                ran_opts += opts
        for j in range(len(self.inputs)):
            failing = {}          # outcome key -> (option names, got, note)
            for ki, (kind, payload) in enumerate(outcomes):
                if kind != 'ran':
                    continue
                opts = self.kernel_opts[ki]
                n_eval = len(opts)
                res.case(n_eval)
                res.count('disagreements_checked', n_eval)
                if self.moved[j]:
                    res.cls('ctx-sensitive', n_eval)
                if self.nt[j]:
                    for o in opts:
                        res.nontrivial((self.sh, o, self.input_idx[j]))
                r = payload[j]
                if r[0] == 'timeout':
                    res.skip('cxx-timeout-inconclusive', n_eval)
                    continue
                if r[0] == 'spin':
                    key = 'nonterminating/compiled-call-spins'
                    got = f'compiled call consumed {cxx.SPIN_CPU_SECONDS} CPU-seconds without returning (interpreter returned)'
                elif r[0] == 'abort':
                    msg = r[2]
                    m = re.search(r"Assertion `(.*)' failed", msg)
                    why = ('assert:' + re.sub(r'_tmp\d+|\b[a-z]+\d+(_\d+)?\b', '_', m.group(1))[:60]) if m else f'signal:{r[1]}'
                    key = f'aborts/{why}'
                    got = msg[-200:]
                else:
                    got_tree = cxx.parse_tokens(r[1])
                    mm = compare(self.expected[j], got_tree)
                    if mm is None and r[2]:
                        continue
                    if mm is not None:
                        if j not in alt_cache:
                            alt_cache[j] = alt_expected(case, self.inputs[j])
                        if alt_cache[j] is not None and compare(alt_cache[j], got_tree) is None:
                            # the compiled code took the IEEE side of the open choice; everything else agrees
                            res.skip('open-choice:rtn-exact-zero-sign', n_eval)
                            res.cls('rtn-exact-zero-open-choice', n_eval)
                            if r[2]:
                                continue
                            mm = None
                    if mm is None:
                        key, got = 'rounding-mode-not-restored/at-return', 'fegetround() changed across the call'
                    else:
                        asif = [v for v, vt in sorted(self.variants[j].items())
                                if repr(vt) != repr(self.expected[j]) and compare(vt, got_tree) is None]
                        # bucket = symptom class + option scope; finer hints go into the note
                        key = 'wrong-' + ('value' if mm in ('value', 'inf', 'nan') else mm)
                        hint = f'mismatch={mm}' + (f' as-if-{"+".join(asif)}' if asif else '')
                        got = show_tree(got_tree)
                f = failing.setdefault(key, [[], got, ''])
                f[0] += opts
                if r[0] == 'ok' and mm is not None:
                    f[2] = hint
            res.maybe_sample(dict(base, inputs=[enc_val_list(self.inputs[j])], expected=show_tree(self.expected[j])), nt=self.nt[j])
            for key, (opts, got, hint) in failing.items():
                scope = describe_scope(opts, ran_opts)
                c = dict(base, options=opts[:1], inputs=[enc_val_list(self.inputs[j])])
                res.fail(f'{key}/{scope}', c, expected=show_tree(self.expected[j]), got=got,
                         note=f'{hint}; failing options: {sorted(opts)}')


def describe_scope(failing, ran):
    """Which compiler options a failure depends on, from the option sets that ran and those that failed."""
    failing, ran = set(failing), set(ran)
    if failing >= ran:
        return 'all-options'

    def parts(o):
        p = o.split('-')
        return {'optimize': p[0], 'unbox': p[1], 'arrays': p[2], 'safeint': 'safeint' if len(p) > 3 else 'unsafeint'}
    for dim in ('unbox', 'optimize', 'arrays', 'safeint'):
        vals = sorted({parts(o)[dim] for o in failing})
        if {o for o in ran if parts(o)[dim] in vals} == failing:
            return f'{dim}={"+".join(vals)}'
    for d1, d2 in (('unbox', 'arrays'), ('unbox', 'optimize'), ('optimize', 'arrays')):
        combos = sorted({(parts(o)[d1], parts(o)[d2]) for o in failing})
        if {o for o in ran if (parts(o)[d1], parts(o)[d2]) in combos} == failing:
            return f'{d1}x{d2}=' + '+'.join(f'{a}.{b}' for a, b in combos)
    return 'some-options'


def enc_val_list(args):
    return [enc_val(a) for a in args]


def run_batch(res: Result, cases, gxx, headers):
    """One translation unit for a list of cases."""
    import os
    import time
    timing = bool(os.environ.get('VERIF_C11_TIMING'))
    t0 = time.time()
    preps = []
    for pidx, case in enumerate(cases):
        p = Prepared(res, case, pidx)
        p.prepare()
        if p.ok:
            preps.append(p)
    kernels = []
    owner = []
    for p in preps:
        for ki, k in enumerate(p.kernels):
            kernels.append(k)
            owner.append((p, ki))
    if not kernels:
        return
    t1 = time.time()
    wd = cxx.make_workdir()
    try:
        br = cxx.build_and_run(gxx, headers, kernels, wd)
    finally:
        cxx.remove_workdir(wd)
    if timing:
        res.count('t_prepare_s', round(t1 - t0))
        res.count('t_build_run_s', round(time.time() - t1))
    res.count('translation_units')
    res.count('kernels_built', br.built)
    per = {}
    for gi, (p, ki) in enumerate(owner):
        per.setdefault(id(p), (p, []))[1].append(('invalid', br.invalid[gi]) if gi in br.invalid else ('ran', br.results[gi]))
    for p, outcomes in per.values():
        p.judge_all(outcomes)


# ---------------------------------------------------------------------------

def require_gxx():
    gxx = cxx.find_gxx()
    if gxx is None:
        raise RuntimeError('g++ not found: C11 cannot be decided')
    return gxx


def shards(tier, seed):
    n_shards = 120 if tier == 'thorough' else 16
    per = 30 if tier == 'thorough' else 9
    return [('gen', i, per, seed, tier) for i in range(n_shards)]


def run_shard(shard):
    res = Result()
    gxx = require_gxx()
    headers = fp.CppCompiler().headers()
    kind, i, per, seed, tier = shard
    batch = []
    for j in range(per):
        ch = gen.RandChooser(h64(seed, 'C11', i, j))
        case = gen.gen_case(ch, shard=i)
        case['origin'] = f'gen:{seed}:{i}:{j}'
        batch.append(case)
    # ~100 kernels per TU: split when programs are many
    run_batch(res, batch, gxx, headers)
    return res


KNOWN_BUCKETS = (
    'known/float-to-int-out-of-range-cast',
    'known/fp32-dyadic-literal-promotes-to-double',
    'known/small-int-operator-table',
    'known/list-minmax-after-widening-store',
)


def replay(case):
    res = Result()
    gxx = require_gxx()
    run_batch(res, [case], gxx, fp.CppCompiler().headers())
    fails = [f for fl in res.failures.values() for f in fl]
    kb = case.get('known_bucket')
    if kb:
        # the committed witness of an open known finding: whatever symptom it shows is reported under that root-cause
        # bucket (which nothing generated can land in: the triggers are excluded by construction); a pass reports nothing
        if kb not in KNOWN_BUCKETS:
            raise ValueError(f'unknown known_bucket {kb!r}')
        if not fails:
            return []
        f = dict(fails[0], bucket=kb, note=f'witness of open known finding; symptom bucket {fails[0]["bucket"]}; {fails[0].get("note")}')
        return [f]
    return fails


def selftest():
    gxx = require_gxx()
    # the harness on a hand-written kernel: bits in, bits out, mode handling
    from fpy2.backend.cpp.types import CppList, CppScalar, CppTuple
    body = ('std::tuple<float, double, bool, std::vector<int16_t>> kern(float x, const std::vector<double>& ys) {\n'
            '    return std::make_tuple(x / 3.0f, ys[0] / 3.0, std::signbit(x), std::vector<int16_t>{-7, 9});\n}')
    k = cxx.Kernel('k0', body, 'kern', [CppScalar.F32, CppList(CppScalar.F64, boxed=False)],
                   CppTuple([CppScalar.F32, CppScalar.F64, CppScalar.BOOL, CppList(CppScalar.S16, boxed=False)]), 'RTZ',
                   calls=[[1.0, [1.0]], [-0.0, [float('nan')]]])
    wd = cxx.make_workdir()
    try:
        br = cxx.build_and_run(gxx, fp.CppCompiler().headers(), [k], wd)
    finally:
        cxx.remove_workdir(wd)
    r0, r1 = br.results[0]
    assert r0[0] == 'ok' and r0[2], r0
    t0 = cxx.parse_tokens(r0[1])
    exp0 = ('T', [('n', Fraction(11184810, 2**25)), ('n', Fraction(6004799503160661, 2**54)), ('b', False),
                  ('L', [('n', Fraction(-7)), ('n', Fraction(9))])])
    assert compare(exp0, t0) is None, (t0, compare(exp0, t0))      # 1/3 rounded toward zero in both widths
    t1 = cxx.parse_tokens(r1[1])
    exp1 = ('T', [('n', NZERO), ('n', NAN), ('b', True), ('L', [('n', Fraction(-7)), ('n', Fraction(9))])])
    assert compare(exp1, t1) is None, (t1, compare(exp1, t1))
    bad = ('T', [('n', PZERO), ('n', NAN), ('b', True), ('L', [('n', Fraction(-7)), ('n', Fraction(9))])])
    assert compare(bad, t1) == 'zero-sign'
