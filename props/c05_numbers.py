"""
C05 — Number values behave as the real numbers they denote.

Exhaustive layer: every encoding (s, c, exp) with c < 16, exp in [-3, 3] (zeros at every exponent,
redundant encodings), +-inf (also with a junk significand), NaN (both sign bits) as `Float` and
`RealFloat`, a boundary pool (values around the binary64 limits, wide significands, context-tagged
Floats), and int / float / Fraction pools of the same values plus non-dyadic rationals and boundary
doubles; all ordered pairs with at least one fpy2 number x (+ - * == != < <= > >= compare hash
same_value), and per value (neg pos abs hash int float trunc floor ceil round as_rational predicates
e numerator/denominator ** k split(n) normalize(p, n) is_more_significant(n) bit(n) from_* as_real).
Hypothesis layer: significands up to 400 bits, exponents up to +-10^4, mixed-type related pairs.

Oracle: homomorphism into vlib.denote denotations (built from the public fields s, c, exp, isinf,
isnan only) with exact Fraction arithmetic and the IEEE 754 special-value tables written here.
"""

from __future__ import annotations

import math
import operator
import struct
from fractions import Fraction

import fpy2 as fp
from fpy2.number import Float, RealFloat
from fpy2.utils import Ordering

from vlib.denote import NAN, NINF, NZERO, PINF, PZERO, den, pow2
from vlib.runner import Result, h64

PROPERTY = 'C05'
LEVEL = 'exploration'
RULE = ('Exhaustive: all ordered pairs (a, b) with at least one of a, b a Float/RealFloat, drawn from: every encoding '
        's in {0,1}, c < 16, exp in [-3,3] (thorough: c < 32, exp in [-4,4]) as Float and as RealFloat (zeros at every exponent, redundant encodings), '
        'Float +-inf (also with junk significand), NaN (both sign bits), a boundary pool (binary64 limits, wide '
        'significands, context-tagged Floats), and int/float/Fraction pools of the same values plus non-dyadic rationals, '
        'boundary doubles and big ints; x {+ - * == != < <= > >= compare hash-consistency same_value}; per value '
        '{neg pos abs hash int float trunc floor ceil round as_rational predicates e numerator/denominator **k (k<=4, -1) '
        'split(n) normalize(p,n) is_more_significant(n) bit(n) from_int/from_float/from_rational/from_real}. Hypothesis: '
        'significands up to 400 bits, exponents up to +-10^4, related mixed-type pairs (equal value re-encoded, negation, '
        'one-ulp neighbour, same normalized exponent). Non-trivial = the operands have different carrier types, or an '
        'operand is a redundant encoding (even non-zero c, or zero with exp != 0) or a special (zero, -0, inf, NaN) or '
        'non-dyadic; distinct by (operation, argument, operand encodings): the enumeration never repeats one, the '
        'Hypothesis layer de-duplicates by hash.')
ASSUMPTIONS = [
    'Zero sums follow IEEE 754 round-to-nearest: x + (-x) = +0, (+0) + (-0) = +0, (-0) + (-0) = -0 (reals.py promises '
    '"a sum of two zeros is -0 only when both are"); a - b is a + (-b); zero products carry the XOR of the signs.',
    'When an operand is an unsigned zero (int 0 / Fraction 0) the sign of a zero result is not checked (set {+0, -0}).',
    'Arithmetic with a non-dyadic Fraction operand may raise ValueError (from_rational documents it); comparison must work.',
    'Combinations the code does not offer (RealFloat op Float, RealFloat.compare(Float), native ** number) raise TypeError '
    'and are skipped (counted); for every documented combination TypeError is a failure.',
    'RealFloat op float may return RealFloat or float (overload "Self | float"); either must denote the exact IEEE result.',
    'split(n): hi + lo = x under IEEE addition, hi multiple of 2^(n+1), |lo| < 2^(n+1), non-zero parts carry the sign of x; '
    'the sign bit of a zero part is only demanded where hi + lo = x demands it (x = +-0). For infinities/NaN only hi + lo = x.',
    'normalize(p, n): same denotation (sign of zero included) and the documented shape, or ValueError exactly when no such '
    'encoding exists; Float.normalize() without a context raises ValueError.',
    'int()/float(): succeed with the identical value (sign of zero, inf, NaN included for float) when representable, '
    'raise ValueError otherwise; trunc/floor/ceil/round of inf/NaN may raise ValueError or OverflowError.',
    'same_value on two NaNs with different sign bits is not checked (denotation ignores the NaN sign).',
    'Python\'s own int/float/Fraction arithmetic, hashing and Fraction->float conversion are trusted.',
]
EXHAUSTIVE = {'quick': True, 'thorough': True}
_ABS = {'wide': 2000, 'subnormal-float': 50, 'not-representable-float': 50, 'normalize-raises': 100, 'split-inside': 1000,
        'wide:equal': 1000, 'wide:negation': 1000, 'wide:ulp': 1000, 'wide:same-e': 1000, 'wide:special': 1000, 'wide:near-frac': 500}
FLOORS = {
    'quick': dict(_ABS, **{'mixed-type': 0.2, 'redundant': 0.2, 'special': 0.1, 'nan': 0.005, 'inf': 0.01, 'zero-result': 0.005,
                           'equal-diff-encoding': 0.002, 'cancel': 0.0005, 'nondyadic': 0.01, 'unordered': 0.002}),
    # the specials are a fixed handful while the encodings grow with the tier
    'thorough': dict(_ABS, **{'mixed-type': 0.2, 'redundant': 0.2, 'special': 0.04, 'nan': 0.003, 'inf': 0.005, 'zero-result': 0.002,
                              'equal-diff-encoding': 0.002, 'cancel': 0.0005, 'nondyadic': 0.01, 'unordered': 0.002}),
}

TN = {Float: 'Float', RealFloat: 'RealFloat', int: 'int', float: 'float', Fraction: 'Fraction'}
CTXS = {'FP64': fp.FP64, 'FP32': fp.FP32, 'FP16': fp.FP16}
ZEROS = (PZERO, NZERO)
INFS = (PINF, NINF)


# ---------------------------------------------------------------------------
# plain-data encodings of operands (for replay) and display

def tname(v):
    return TN[type(v)]


def enc(v):
    t = type(v)
    if t is Float:
        cn = None
        if v.ctx is not None:
            for k, c in CTXS.items():
                if v.ctx is c:
                    cn = k
            if cn is None:
                cn = '?'
        return ['Float', bool(v.s), hex(v.c), v.exp, bool(v.isinf), bool(v.isnan), cn, bool(v.inexact)]
    if t is RealFloat:
        return ['RealFloat', bool(v.s), hex(v.c), v.exp]
    if t is int:
        return ['int', hex(v)]
    if t is float:
        return ['float', struct.pack('>d', v).hex()]
    if t is Fraction:
        return ['Fraction', hex(v.numerator), hex(v.denominator)]
    raise TypeError(type(v))


def dec(e):
    k = e[0]
    if k == 'Float':
        _, s, c, exp, isinf, isnan, cn = e[:7]
        kw = {}
        if cn is not None:
            kw['ctx'] = CTXS[cn]
        if len(e) > 7 and e[7]:
            kw['inexact'] = True
        return Float(s=s, c=int(c, 16), exp=exp, isinf=isinf, isnan=isnan, **kw)
    if k == 'RealFloat':
        return RealFloat(s=e[1], c=int(e[2], 16), exp=e[3])
    if k == 'int':
        return int(e[1], 16)
    if k == 'float':
        return struct.unpack('>d', bytes.fromhex(e[1]))[0]
    if k == 'Fraction':
        return Fraction(int(e[1], 16), int(e[2], 16))
    raise ValueError(e)


def _hx(n: int) -> str:
    return str(n) if abs(n) < (1 << 64) else hex(n)


def sh(d):
    """Display of a denotation that never trips the int->str digit limit."""
    if isinstance(d, str) or d is None or isinstance(d, bool):
        return d
    if isinstance(d, Fraction):
        n, dn = d.numerator, d.denominator
        if dn & (dn - 1) == 0:
            t = -(dn.bit_length() - 1)
            if n != 0:
                z = (n & -n).bit_length() - 1
                n >>= z
                t += z
            return f'{_hx(n)}*2^{t}' if t else _hx(n)
        return f'{_hx(n)}/{_hx(dn)}'
    if isinstance(d, int):
        return _hx(d)
    return repr(d)


def shv(v):
    """Display of an arbitrary observed result."""
    try:
        if isinstance(v, (Float, RealFloat, int, float, Fraction)) and not isinstance(v, bool):
            return f'{type(v).__name__}:{sh(den(v))}'
        if isinstance(v, tuple):
            return [shv(x) for x in v]
        return repr(v)
    except Exception:   # display only
        return f'<{type(v).__name__}>'


# ---------------------------------------------------------------------------
# the oracle: IEEE 754 arithmetic on denotations

def is_str(d):
    return type(d) is str


def kind(d):
    if type(d) is str:
        if d == NAN:
            return 'nan'
        if d in INFS:
            return 'inf'
        return 'zero'
    return 'fin'


def neg_sign(d) -> bool:
    """Sign bit of a non-NaN denotation."""
    if type(d) is str:
        return d == NZERO or d == NINF
    return d < 0


def qnum(d) -> Fraction:
    """Numeric value of a finite denotation."""
    return Fraction(0) if type(d) is str else d


def o_neg(d):
    if type(d) is str:
        return {NAN: NAN, PINF: NINF, NINF: PINF, PZERO: NZERO, NZERO: PZERO}[d]
    return -d


def o_abs(d):
    if type(d) is str:
        return {NAN: NAN, PINF: PINF, NINF: PINF, PZERO: PZERO, NZERO: PZERO}[d]
    return -d if d < 0 else d


def o_add(a, b):
    sa, sb = type(a) is str, type(b) is str
    if not sa and not sb:
        r = a + b
        return r if r else PZERO            # exact cancellation: +0 under round-to-nearest
    if a == NAN or b == NAN:
        return NAN
    if sa and a in INFS:
        if sb and b in INFS and a != b:
            return NAN                      # inf - inf
        return a
    if sb and b in INFS:
        return b
    if sa and sb:                           # two zeros
        return NZERO if (a == NZERO and b == NZERO) else PZERO
    return b if sa else a                   # x + 0 = x


def o_sub(a, b):
    return o_add(a, o_neg(b))


def o_mul(a, b):
    sa, sb = type(a) is str, type(b) is str
    if not sa and not sb:
        return a * b
    if a == NAN or b == NAN:
        return NAN
    s = neg_sign(a) != neg_sign(b)
    ainf, binf = sa and a in INFS, sb and b in INFS
    if ainf or binf:
        if (sa and a in ZEROS) or (sb and b in ZEROS):
            return NAN                      # 0 * inf
        return NINF if s else PINF
    return NZERO if s else PZERO            # a zero factor


def o_pow(a, k: int):
    """IEEE 754 pown."""
    if k == 0:
        return Fraction(1)
    if a == NAN:
        return NAN
    odd = k % 2 == 1
    if type(a) is str:
        s = neg_sign(a) and odd
        big = (a in INFS) == (k > 0)        # inf^k (k>0) and 0^k (k<0) are infinite
        if big:
            return NINF if s else PINF
        return NZERO if s else PZERO
    return a ** k


def o_cmp(a, b):
    """-1 / 0 / 1, or None when unordered."""
    sa, sb = type(a) is str, type(b) is str
    if not sa and not sb:
        return -1 if a < b else (1 if a > b else 0)
    if a == NAN or b == NAN:
        return None
    ka = (1 if a == PINF else -1 if a == NINF else 0, qnum(a))
    kb = (1 if b == PINF else -1 if b == NINF else 0, qnum(b))
    return -1 if ka < kb else (1 if ka > kb else 0)


def ref_hash(d):
    """Hash every number denoting d must have (None: unconstrained)."""
    if d == NAN:
        return None
    if d == PINF:
        return hash(float('inf'))
    if d == NINF:
        return hash(float('-inf'))
    return hash(qnum(d))


def as_double(d):
    """The Python float that is exactly d, or None."""
    if type(d) is str:
        return {NAN: math.nan, PINF: math.inf, NINF: -math.inf, PZERO: 0.0, NZERO: -0.0}[d]
    if d.denominator & (d.denominator - 1):
        return None
    try:
        f = d.numerator / d.denominator      # correctly rounded by CPython
    except OverflowError:
        return None
    if math.isinf(f) or Fraction(f) != d:
        return None
    return f


def nondyadic(d):
    return type(d) is not str and (d.denominator & (d.denominator - 1)) != 0


def same_den(x, y):
    return x == y if (type(x) is str) == (type(y) is str) else False


def symptom(ed, gd):
    """Root-cause-ish classification of a wrong value."""
    if type(gd) is tuple:
        return 'type'
    if ed == NAN:
        return 'nan expected'
    if gd == NAN:
        return 'nan returned'
    if ed in ZEROS and gd in ZEROS:
        return 'sign of zero'
    if same_den(o_neg(ed), gd):
        return 'sign'
    return 'value'


# ---------------------------------------------------------------------------
# recording helpers

def _fail(res: Result, op, types, sym, case, expected, got):
    res.fail(f'{op}/{types}/{sym}', case, expected=expected, got=got)


def tden(v):
    """Denotation of an observed result, or ('?', repr) when it is not one of the five numeric types."""
    if type(v) in TN:
        return den(v)
    return ('?', f'{type(v).__name__}')


def pair_types(ta, tb):
    return ta if ta == tb else 'x'.join(sorted((ta, tb), key=lambda t: ('Float', 'RealFloat', 'int', 'float', 'Fraction').index(t)))


def offered_arith(ta, tb):
    if ta == 'Float':
        return True
    if tb == 'Float':
        return ta != 'RealFloat'
    return ta == 'RealFloat' or tb == 'RealFloat'


ARITH = {'+': (operator.add, o_add), '-': (operator.sub, o_sub), '*': (operator.mul, o_mul)}
CMPOPS = {
    '==': (operator.eq, lambda c: c == 0), '!=': (operator.ne, lambda c: c != 0),
    '<': (operator.lt, lambda c: c == -1), '<=': (operator.le, lambda c: c in (-1, 0)),
    '>': (operator.gt, lambda c: c == 1), '>=': (operator.ge, lambda c: c in (0, 1)),
}
PAIR_OPS = ('+', '-', '*', '==', '!=', '<', '<=', '>', '>=', 'compare', 'hash', 'same_value')


def check_pair_op(res: Result, op, a, b, da, db, ta, tb, ha=None, hb=None):
    """One binary operation on one ordered pair.  Returns True if an evaluation was made."""
    def case():
        return {'kind': 'pair', 'op': op, 'a': enc(a), 'b': enc(b)}
    # finite x finite arithmetic/comparison ends in the same RealFloat code whatever the carriers are: one bucket;
    # special values are handled per carrier arm: bucket by the carrier pair
    types = 'finite' if (kind(da) in ('fin', 'zero') and kind(db) in ('fin', 'zero')) else pair_types(ta, tb)

    if op in ARITH:
        fn, orc = ARITH[op]
        ed = orc(da, db)
        nond = nondyadic(da) or nondyadic(db)
        off = offered_arith(ta, tb)
        try:
            r = fn(a, b)
        except TypeError as e:
            if not off:
                res.skip(f'not offered: {ta} {op} {tb}')
                return False
            _fail(res, op, types, 'raised TypeError', case(), sh(ed), f'TypeError: {e}'[:200])
            return True
        except ValueError as e:
            if nond:
                res.cls('nondyadic->ValueError')
                return True
            _fail(res, op, types, 'raised ValueError', case(), sh(ed), f'ValueError: {e}'[:200])
            return True
        except Exception as e:   # implementation call only
            _fail(res, op, types, f'raised {type(e).__name__}', case(), sh(ed), f'{type(e).__name__}: {e}'[:200])
            return True
        # carrier of the result
        if 'Float' in (ta, tb):
            okt = type(r) is Float
        elif 'float' in (ta, tb):
            okt = type(r) is RealFloat or type(r) is float
        else:
            okt = type(r) is RealFloat
        if not okt:
            _fail(res, op, types, 'result type', case(), 'Float' if 'Float' in (ta, tb) else 'RealFloat', shv(r))
            return True
        gd = den(r)
        k = kind(ed)
        if k == 'zero':
            res.cls('zero-result')
        if same_den(ed, gd):
            return True
        if k == 'zero' and gd in ZEROS and ((ta in ('int', 'Fraction') and da == PZERO) or (tb in ('int', 'Fraction') and db == PZERO)):
            res.cls('unsigned-zero-operand: sign of zero free')
            return True
        _fail(res, op, types, symptom(ed, gd), case(), sh(ed), shv(r))
        return True

    if op in CMPOPS:
        fn, want = CMPOPS[op]
        c = o_cmp(da, db)
        ed = want(c) if c is not None else (op == '!=')
        try:
            r = fn(a, b)
        except Exception as e:
            _fail(res, 'compare', types, f'raised {type(e).__name__}', case(), ed, f'{type(e).__name__}: {e}'[:200])
            return True
        if r is not ed:
            sym = 'not a bool' if type(r) is not bool else ('unordered' if c is None else 'order')
            _fail(res, 'compare', types, sym, case(), ed, shv(r))
        return True

    if op == 'compare':
        if ta not in ('Float', 'RealFloat'):
            return False
        c = o_cmp(da, db)
        try:
            r = a.compare(b)
        except TypeError as e:
            if ta == 'RealFloat' and tb == 'Float':
                res.skip('not offered: RealFloat.compare(Float)')
                return False
            _fail(res, 'compare', types, 'raised TypeError', case(), c, f'TypeError: {e}'[:200])
            return True
        except Exception as e:
            _fail(res, 'compare', types, f'raised {type(e).__name__}', case(), c, f'{type(e).__name__}: {e}'[:200])
            return True
        if c is None:
            ok = r is None
        else:
            ok = isinstance(r, Ordering) and int(r) == c
        if not ok:
            _fail(res, 'compare', types, 'unordered' if c is None else 'order', case(), c, repr(r))
        return True

    if op == 'hash':
        if o_cmp(da, db) != 0:
            return False
        # same buckets as the unary hash check: name the operand whose hash is off
        for v, dv, tv, hv in ((a, da, ta, ha), (b, db, tb, hb)):
            if hv is None:
                try:
                    hv = hash(v)
                except Exception as e:
                    _fail(res, 'hash', tv, f'raised {type(e).__name__}', case(), ref_hash(dv), f'{type(e).__name__}: {e}'[:200])
                    return True
            if hv != ref_hash(dv):
                _fail(res, 'hash', tv, 'differs from the hash of the equal int/Fraction/float', case(), ref_hash(dv), hv)
                return True
        return True

    if op == 'same_value':
        if ta != 'Float' or tb != 'Float':
            return False
        if da == NAN and db == NAN and a.s != b.s:
            res.skip('same_value on NaNs of different sign')
            return False
        from fpy2.number.number.floats import same_value
        ed = same_den(da, db)
        try:
            r = same_value(a, b)
        except Exception as e:
            _fail(res, 'same_value', types, f'raised {type(e).__name__}', case(), ed, f'{type(e).__name__}: {e}'[:200])
            return True
        if r is not ed:
            _fail(res, 'same_value', types, 'wrong', case(), ed, repr(r))
        return True

    raise ValueError(op)


# ---------------------------------------------------------------------------
# unary operations

def _exists_normalized(d, p, n):
    """Does an encoding of the finite non-zero value d with the shape of normalize(p, n) exist?"""
    a = abs(d)
    num, dn = a.numerator, a.denominator
    t = -(dn.bit_length() - 1)
    z = (num & -num).bit_length() - 1
    odd, t = num >> z, t + z              # a = odd * 2^t, odd odd
    L = odd.bit_length()
    if p is not None and n is None:
        return L <= p
    if p is None:
        return t >= n + 1
    return L <= p and t >= n + 1


def unary_plan(v, tier, wide=False):
    """(op, arg) list for one value in the exhaustive layer."""
    t = type(v)
    out = []
    if t in (Float, RealFloat):
        for op in ('neg', 'pos', 'abs', 'hash', 'int', 'float', 'trunc', 'floor', 'ceil', 'round', 'as_rational', 'predicates',
                   'rational-parts', 'e', 'as_real/from_real', 'copy'):
            out.append((op, None))
        for k in (0, 1, 2, 3, 4, -1, -2):
            out.append(('pow', k))
        if wide and isinstance(v, (Float, RealFloat)) and not (t is Float and v.is_nar()):
            e0, e1 = v.exp, v.exp + max(v.c.bit_length(), 1)
            ns = sorted({e0 - 2, e0 - 1, e0, e0 + 1, (e0 + e1) // 2, e1 - 2, e1 - 1, e1, e1 + 1})
            ps = (None, 0, 1, max(v.c.bit_length() - 1, 0), v.c.bit_length(), v.c.bit_length() + 1, v.c.bit_length() + 7)
            nn = (None, e0 - 3, e0 - 1, e0, e0 + 1, e1)
        else:
            C, E = bounds(tier)
            B = (C - 1).bit_length()
            ns = list(range(-E - 4, E + B + 3))
            ps = (None,) + tuple(range(0, B + 3))
            nn = (None,) + tuple(range(-E - 4, E + B))
        for n in ns:
            out.append(('split', n))
            out.append(('is_more_significant', n))
            if t is RealFloat:
                out.append(('bit', n))
        for p in ps:
            for n in nn:
                out.append(('normalize', (p, n)))
        out.append(('normalize', (-1, None)))
    else:
        out.append(('from', None))
    return out


def check_unary_op(res: Result, op, a, da, ta, arg=None):
    """One unary operation on one value; returns True if an evaluation was made."""
    def case():
        return {'kind': 'unary', 'op': op, 'a': enc(a), 'arg': list(arg) if isinstance(arg, tuple) else arg}

    def raised(e, expected):
        _fail(res, op, ta, f'raised {type(e).__name__}', case(), expected, f'{type(e).__name__}: {e}'[:200])

    nar = ta == 'Float' and (da == NAN or da in INFS)
    fin = not (type(da) is str and da in (NAN, PINF, NINF))

    if op in ('neg', 'pos', 'abs'):
        ed = {'neg': o_neg, 'pos': lambda d: d, 'abs': o_abs}[op](da)
        try:
            r = {'neg': operator.neg, 'pos': operator.pos, 'abs': operator.abs}[op](a)
        except Exception as e:
            raised(e, sh(ed))
            return True
        if type(r) is not type(a):
            _fail(res, op, ta, 'result type', case(), ta, shv(r))
        elif not same_den(ed, den(r)):
            sym = symptom(ed, den(r))
            _fail(res, op, ta, 'sign' if sym == 'sign of zero' else sym, case(), sh(ed), shv(r))
        return True

    if op == 'hash':
        want = ref_hash(da)
        try:
            h = hash(a)
        except Exception as e:
            raised(e, want)
            return True
        if want is not None and h != want:
            _fail(res, op, ta, 'differs from the hash of the equal int/Fraction/float', case(), want, h)
        return True

    if op == 'int':
        ok = fin and qnum(da).denominator == 1
        try:
            r = int(a)
        except ValueError:
            if ok:
                _fail(res, op, ta, 'raised ValueError for an integer value', case(), sh(qnum(da)), 'ValueError')
            else:
                res.cls('int-raises')
            return True
        except Exception as e:
            raised(e, 'int or ValueError')
            return True
        if not ok:
            _fail(res, op, ta, 'returned for a non-integer', case(), 'ValueError', shv(r))
        elif type(r) is not int or r != qnum(da).numerator:
            _fail(res, op, ta, 'value', case(), sh(qnum(da)), shv(r))
        return True

    if op == 'float':
        want = as_double(da)
        try:
            r = float(a)
        except ValueError:
            if want is not None:
                _fail(res, op, ta, 'raised ValueError for a representable value', case(), repr(want), 'ValueError')
            else:
                res.cls('not-representable-float')
            return True
        except Exception as e:
            raised(e, 'float or ValueError')
            return True
        if want is None:
            _fail(res, op, ta, 'returned for a value that is not a double', case(), 'ValueError', repr(r))
        elif type(r) is not float or not same_den(den(want), den(r)):
            _fail(res, op, ta, symptom(den(want), tden(r)), case(), repr(want), repr(r))
        else:
            if fin and type(da) is not str and abs(da) < pow2(-1022):
                res.cls('subnormal-float')
        return True

    if op in ('trunc', 'floor', 'ceil', 'round'):
        fn = {'trunc': math.trunc, 'floor': math.floor, 'ceil': math.ceil, 'round': round}[op]
        try:
            r = fn(a)
        except (ValueError, OverflowError) as e:
            if fin:
                raised(e, 'int')
            return True
        except Exception as e:
            raised(e, 'int')
            return True
        if not fin:
            _fail(res, op, ta, 'returned for inf/NaN', case(), 'ValueError', shv(r))
            return True
        want = fn(qnum(da))
        if type(r) is not int or r != want:
            _fail(res, op, ta, 'value', case(), sh(want), shv(r))
        return True

    if op == 'as_rational':
        try:
            r = a.as_rational()
        except ValueError as e:
            if fin:
                raised(e, sh(qnum(da)))
            return True
        except Exception as e:
            raised(e, 'Fraction')
            return True
        if not fin:
            _fail(res, op, ta, 'returned for inf/NaN', case(), 'ValueError', shv(r))
        elif type(r) is not Fraction or r != qnum(da):
            _fail(res, op, ta, 'value', case(), sh(qnum(da)), shv(r))
        return True

    if op == 'rational-parts':
        try:
            r = (a.numerator, a.denominator)
        except ValueError as e:
            if fin:
                raised(e, sh(qnum(da)))
            return True
        except Exception as e:
            raised(e, 'ints')
            return True
        q = qnum(da) if fin else None
        if not fin:
            _fail(res, op, ta, 'returned for inf/NaN', case(), 'ValueError', shv(r))
        elif r != (q.numerator, q.denominator):
            _fail(res, op, ta, 'value', case(), [sh(q.numerator), sh(q.denominator)], shv(r))
        return True

    if op == 'predicates':
        q = qnum(da) if fin else None
        want = {
            'is_zero': fin and q == 0,
            'is_positive': (da == PINF) or (fin and q > 0),
            'is_negative': (da == NINF) or (fin and q < 0),
            'is_integer': fin and q.denominator == 1,
        }
        if ta == 'Float':
            want.update({'is_finite': fin, 'is_nar': not fin, 'is_nonzero': fin and q != 0})
        else:
            aq = abs(q)
            want.update({'is_nonzero': q != 0,
                         'is_power_of_two': q != 0 and aq.numerator & (aq.numerator - 1) == 0 and aq.denominator & (aq.denominator - 1) == 0})
        for name, w in want.items():
            try:
                r = getattr(a, name)()
            except Exception as e:
                _fail(res, f'predicate {name}', ta, f'raised {type(e).__name__}', case(), w, f'{type(e).__name__}: {e}'[:200])
                continue
            if r is not w:
                _fail(res, f'predicate {name}', ta, 'wrong', case(), w, repr(r))
        return True

    if op == 'e':
        if not fin:
            try:
                r = a.e
            except ValueError:
                return True
            except Exception as e:
                raised(e, 'ValueError')
                return True
            _fail(res, op, ta, 'returned for inf/NaN', case(), 'ValueError', repr(r))
            return True
        q = abs(qnum(da))
        try:
            r = a.e
        except Exception as e:
            raised(e, 'int')
            return True
        if q == 0:
            want = a.exp - 1                # documented
        else:
            want = q.numerator.bit_length() - q.denominator.bit_length()
            if pow2(want) > q:
                want -= 1
        if r != want:
            _fail(res, op, ta, 'value', case(), want, repr(r))
        return True

    if op == 'as_real/from_real':
        try:
            if ta == 'Float':
                r = a.as_real()
            else:
                r = Float.from_real(a)
        except ValueError as e:
            if ta == 'Float' and not fin:
                return True
            raised(e, sh(da))
            return True
        except Exception as e:
            raised(e, sh(da))
            return True
        if not fin:
            _fail(res, op, ta, 'returned for inf/NaN', case(), 'ValueError', shv(r))
        elif type(r) is not (RealFloat if ta == 'Float' else Float) or not same_den(da, den(r)):
            _fail(res, op, ta, symptom(da, tden(r)), case(), sh(da), shv(r))
        return True

    if op == 'copy':
        # the documented constructor forms: copy (x=), signed significand (m=), normalized exponent (e=)
        try:
            rs = [Float(x=a) if ta == 'Float' else RealFloat(x=a)]
            if ta == 'RealFloat':
                rs.append(Float(x=a))
            if fin:
                cls = Float if ta == 'Float' else RealFloat
                rs.append(cls(s=a.s, c=a.c, e=a.e))
                if a.c != 0:
                    rs.append(cls(m=a.m, exp=a.exp))
        except Exception as e:
            raised(e, sh(da))
            return True
        for r in rs:
            if not same_den(da, den(r)):
                _fail(res, op, ta, 'value', case(), sh(da), shv(r))
                break
        return True

    if op == 'pow':
        k = arg
        ed = o_pow(da, k)
        try:
            r = a ** k
        except ValueError as e:
            if k < 0:
                res.cls('negative-exponent-raises')
                return True
            raised(e, sh(ed))
            return True
        except Exception as e:
            raised(e, sh(ed))
            return True
        if type(r) is not type(a):
            _fail(res, op, ta, 'result type', case(), ta, shv(r))
        elif not same_den(ed, den(r)):
            _fail(res, op, ta, symptom(ed, den(r)), case(), sh(ed), shv(r))
        return True

    if op == 'is_more_significant':
        n = arg
        try:
            r = a.is_more_significant(n)
        except ValueError as e:
            if fin:
                raised(e, 'bool')
            return True
        except Exception as e:
            raised(e, 'bool')
            return True
        if not fin:
            _fail(res, op, ta, 'returned for inf/NaN', case(), 'ValueError', repr(r))
            return True
        want = (qnum(da) / pow2(n + 1)).denominator == 1
        if r is not want:
            _fail(res, op, ta, 'wrong', case(), want, repr(r))
        return True

    if op == 'bit':
        n = arg
        try:
            r = a.bit(n)
        except Exception as e:
            raised(e, 'bool')
            return True
        want = (math.floor(abs(qnum(da)) / pow2(n)) & 1) == 1
        if r is not want:
            _fail(res, op, ta, 'wrong', case(), want, repr(r))
        return True

    if op == 'split':
        n = arg
        try:
            r = a.split(n)
        except Exception as e:
            raised(e, '(hi, lo)')
            return True
        if type(r) is not tuple or len(r) != 2 or type(r[0]) is not type(a) or type(r[1]) is not type(a):
            _fail(res, op, ta, 'result type', case(), f'({ta}, {ta})', shv(r))
            return True
        hi, lo = den(r[0]), den(r[1])
        got = [shv(r[0]), shv(r[1])]
        if not same_den(o_add(hi, lo), da):
            _fail(res, op, ta, 'hi + lo != x', case(), sh(da), got)
            return True
        if not fin:
            return True
        ulp = pow2(n + 1)
        qh, ql = qnum(hi), qnum(lo)
        if (qh / ulp).denominator != 1:
            _fail(res, op, ta, 'hi is not a multiple of 2^(n+1)', case(), sh(da), got)
        elif abs(ql) >= ulp:
            _fail(res, op, ta, '|lo| >= 2^(n+1)', case(), sh(da), got)
        elif (qh != 0 and (qh < 0) != neg_sign(da)) or (ql != 0 and (ql < 0) != neg_sign(da)):
            _fail(res, op, ta, 'a part has the opposite sign', case(), sh(da), got)
        else:
            if qh != 0 and ql != 0:
                res.cls('split-inside')
            if (qh == 0 and neg_sign(hi) != neg_sign(da)) or (ql == 0 and neg_sign(lo) != neg_sign(da)):
                res.cls('split: zero part with the other sign bit (not demanded)')
        return True

    if op == 'normalize':
        p, n = arg
        try:
            r = a.normalize(p, n)
        except ValueError as e:
            # permitted exactly when no such encoding exists
            if p is not None and p < 0:
                res.cls('normalize-raises')
                return True
            if ta == 'Float' and p is None and n is None and a.ctx is None:
                res.cls('normalize-raises')
                return True
            if fin and type(da) is not str and not (p is None and n is None) and not _exists_normalized(da, p, n):
                res.cls('normalize-raises')
                return True
            raised(e, sh(da))
            return True
        except Exception as e:
            raised(e, sh(da))
            return True
        if p is not None and p < 0:
            _fail(res, op, ta, 'returned for negative p', case(), 'ValueError', shv(r))
            return True
        if type(r) is not type(a):
            _fail(res, op, ta, 'result type', case(), ta, shv(r))
            return True
        if not same_den(da, den(r)):
            _fail(res, op, ta, symptom(da, den(r)), case(), sh(da), shv(r))
            return True
        if not fin or (p is None and n is None):
            return True
        got = f'c={_hx(r.c)} exp={r.exp}'
        nz = type(da) is not str
        if p is not None and n is None:
            if nz and r.c.bit_length() != p:
                _fail(res, op, ta, 'shape: not exactly p bits', case(), f'{p} bits', got)
        elif p is None:
            if r.exp != n + 1:
                _fail(res, op, ta, 'shape: exp != n + 1', case(), f'exp={n + 1}', got)
        else:
            if r.exp < n + 1 or r.c.bit_length() > p:
                _fail(res, op, ta, 'shape: exp < n + 1 or more than p bits', case(), f'exp>={n + 1}, <={p} bits', got)
            elif nz and r.c.bit_length() != p and r.exp != n + 1:
                _fail(res, op, ta, 'shape: precision not maximal', case(), f'{p} bits or exp={n + 1}', got)
        return True

    if op == 'from':
        did = False
        for cls, cname in ((Float, 'Float'), (RealFloat, 'RealFloat')):
            meth = {'int': 'from_int', 'float': 'from_float', 'Fraction': 'from_rational'}[ta]
            expect_raise = (ta == 'Fraction' and nondyadic(da)) or (cname == 'RealFloat' and not fin)
            did = True
            try:
                r = getattr(cls, meth)(a)
            except ValueError as e:
                if not expect_raise:
                    _fail(res, f'{cname}.{meth}', ta, 'raised ValueError', case(), sh(da), f'ValueError: {e}'[:200])
                else:
                    res.cls('from-raises')
                continue
            except Exception as e:
                _fail(res, f'{cname}.{meth}', ta, f'raised {type(e).__name__}', case(), sh(da), f'{type(e).__name__}: {e}'[:200])
                continue
            if expect_raise:
                _fail(res, f'{cname}.{meth}', ta, 'returned for an unrepresentable value', case(), 'ValueError', shv(r))
            elif type(r) is not cls or not same_den(da, den(r)):
                _fail(res, f'{cname}.{meth}', ta, symptom(da, tden(r)), case(), sh(da), shv(r))
            elif ta == 'float' and fin and type(da) is not str and abs(da) < pow2(-1022):
                res.cls('subnormal-float')
        return did

    raise ValueError(op)


# ---------------------------------------------------------------------------
# pools of the exhaustive layer

def bounds(tier):
    """(exclusive bound on c, bound on |exp|) of the exhaustive encodings."""
    return (32, 4) if tier == 'thorough' else (16, 3)


def small_encodings(tier='quick'):
    C, E = bounds(tier)
    return [(s, c, e) for s in (False, True) for c in range(C) for e in range(-E, E + 1)]


def pool_float(tier='quick'):
    out = [Float(s=s, c=c, exp=e) for (s, c, e) in small_encodings(tier)]
    out += [Float(isinf=True), Float(s=True, isinf=True), Float(isnan=True), Float(s=True, isnan=True),
            Float(isinf=True, c=5, exp=2), Float(s=True, isinf=True, c=8, exp=-1), Float(isnan=True, c=3, exp=1)]
    return out


def pool_real(tier='quick'):
    return [RealFloat(s=s, c=c, exp=e) for (s, c, e) in small_encodings(tier)]


def pool_boundary():
    """Float/RealFloat values around the binary64 limits, wide ones, and context-tagged Floats."""
    out = []
    encs = [
        (False, 1, -1074), (True, 1, -1074), (False, 1, -1075), (False, 3, -1075), (False, (1 << 52) - 1, -1074),
        (False, 1, -1022), (False, (1 << 53) - 1, 971), (True, (1 << 53) - 1, 971), (False, 1, 1024), (True, 1, 1024),
        (False, (1 << 53) + 1, 0), (False, 1 << 53, 0), (False, (1 << 54) - 1, 970), (False, 1 << 60, -1100),
        (False, (1 << 53) + 1, -1075), (False, 0, -5000), (True, 0, 4000), (False, (1 << 200) + 1, -100),
        (True, (1 << 64) - 1, 2000), (False, 1, 5000), (True, 3, -5000), (False, 1 << 10, -10), (False, 0x1999999999999a, -56),
    ]
    for s, c, e in encs:
        out.append(RealFloat(s=s, c=c, exp=e))
        out.append(Float(s=s, c=c, exp=e))
    # Floats produced by / tagged with a rounding context (float() has a shortcut for FP64-tagged values)
    for s, c, e in [(False, 4, 0), (True, 0, 3), (False, 1, -1074), (False, 12, -2), (True, 15, -3), (False, 0, -3)]:
        out.append(Float(s=s, c=c, exp=e, ctx=fp.FP64))
    out.append(Float(isinf=True, ctx=fp.FP64))
    out.append(Float(isnan=True, ctx=fp.FP64))
    out.append(Float(s=True, c=3, exp=-2, ctx=fp.FP16))
    out.append(Float(c=8, exp=-3, ctx=fp.FP32))
    # results of actual roundings: context and inexact flag set
    out.append(fp.FP64.round(Fraction(1, 3)))
    out.append(fp.FP32.round(Fraction(-1, 10)))
    out.append(fp.FP16.round(Fraction(2, 3)))
    out.append(fp.FP16.round(Fraction(1, 1 << 30)))     # rounds to zero, inexact
    out.append(fp.FP64.round(Fraction(1 << 1030)))      # overflows to +inf
    return out


def _small_values(tier='quick'):
    vals = set()
    for (s, c, e) in small_encodings(tier):
        if c:
            v = Fraction(c) * pow2(e)
            vals.add(-v if s else v)
    return sorted(vals)


def pool_int(tier='quick'):
    out = sorted({int(v) for v in _small_values(tier) if v.denominator == 1} | {0})
    out += [1 << 53, (1 << 53) + 1, -(1 << 64), (1 << 70) - 1, 10 ** 30, -(10 ** 30) - 7, 1 << 1024, -(1 << 1023), (1 << 200) | 1]
    return out


def pool_pyfloat(tier='quick'):
    out = [float(v) for v in _small_values(tier)]
    out += [0.0, -0.0, math.inf, -math.inf, math.nan, -math.nan]
    out += [5e-324, -5e-324, 1e-323, 2.225073858507201e-308, 2.2250738585072014e-308, -2.2250738585072014e-308,
            1.7976931348623157e308, -1.7976931348623157e308, 0.1, -0.3, 1 / 3, 9007199254740992.0, 9007199254740994.0,
            1e300, 1e-300, 4.9406564584124654e-320, 1.5, 3.0000000000000004]
    return out


def pool_fraction(tier='quick'):
    out = [Fraction(v) for v in _small_values(tier)] + [Fraction(0)]
    thirds = [Fraction(1, 3), Fraction(2, 3), Fraction(4, 3), Fraction(5, 3), Fraction(7, 3), Fraction(1, 24), Fraction(16, 3),
              Fraction(1, 5), Fraction(22, 7), Fraction(1, 3 << 60), Fraction((1 << 80) + 1, 3), Fraction(10, 3), Fraction(41, 12)]
    out += thirds + [-t for t in thirds]
    out += [Fraction(1, 1 << 1075), Fraction((1 << 53) + 1, 1 << 20), Fraction(-(1 << 100), 1), Fraction(3, 1 << 2000)]
    return out


_POOLS = {}


def pools(tier='quick'):
    if tier not in _POOLS:
        F, R, B = pool_float(tier), pool_real(tier), pool_boundary()
        N = pool_int(tier) + pool_pyfloat(tier) + pool_fraction(tier)

        def uniq(xs):           # no encoding twice: cases are distinct by construction
            seen, out = set(), []
            for x in xs:
                k = repr(enc(x))
                if k not in seen:
                    seen.add(k)
                    out.append(x)
            return out
        _POOLS[tier] = (uniq(F + R + B), uniq(N), len(F), len(R), len(B))
    return _POOLS[tier]


def is_redundant(v):
    if type(v) in (Float, RealFloat):
        if type(v) is Float and v.is_nar():
            return False
        return (v.c == 0 and v.exp != 0) or (v.c != 0 and v.c % 2 == 0)
    return False


def pair_classes(a, b, da, db, ta, tb):
    cl = []
    nt = False
    if ta != tb:
        cl.append('mixed-type'); nt = True
    if is_redundant(a) or is_redundant(b):
        cl.append('redundant'); nt = True
    ka, kb = kind(da), kind(db)
    if ka != 'fin' or kb != 'fin':
        cl.append('special'); nt = True
        if 'nan' in (ka, kb):
            cl.append('nan'); cl.append('unordered')
        if 'inf' in (ka, kb):
            cl.append('inf')
        if 'zero' in (ka, kb):
            cl.append('zero-operand')
    if nondyadic(da) or nondyadic(db):
        cl.append('nondyadic'); nt = True
    if ka == 'fin' and kb == 'fin':
        if da == db and ta in ('Float', 'RealFloat') and tb in ('Float', 'RealFloat') and (a.c, a.exp) != (b.c, b.exp):
            cl.append('equal-diff-encoding')
        elif da == -db:
            cl.append('cancel')
    return nt, cl


CHUNK = 8


def shards(tier, seed):
    M, N, *_ = pools(tier)
    out = []
    for i in range(0, len(M), CHUNK):
        out.append(('pairs-M', i, tier))
    for i in range(0, len(N), CHUNK):
        out.append(('pairs-N', i, tier))
    for i in range(0, len(M), 4 * CHUNK):
        out.append(('unary-M', i, tier))
    out.append(('unary-N', 0, tier))
    out.append(('unary-tagged', 0, tier))
    nh = 96 if tier == 'thorough' else 32
    hyp = [('hyp', i, tier, seed) for i in range(nh)]
    # interleave the Hypothesis shards with the enumeration (load balance; evidence samples from every layer)
    step = max(1, len(out) // nh)
    mixed = []
    for i, sh_ in enumerate(out):
        if i % step == 0 and hyp:
            mixed.append(hyp.pop(0))
        mixed.append(sh_)
    return mixed + hyp


def _try_hash(v):
    try:
        return hash(v)
    except Exception:   # implementation call only; reported by the 'hash' operation
        return None


def run_pairs(res: Result, left, right, sample_salt=0):
    dl = [den(v) for v in left]
    dr = [den(v) for v in right]
    tl = [tname(v) for v in left]
    tr = [tname(v) for v in right]
    hl = [_try_hash(v) for v in left]       # None: hash() raised; check_pair_op re-evaluates and reports it
    hr = [_try_hash(v) for v in right]
    pick = h64('sample', sample_salt) % max(1, len(left) * len(right))      # one (non-)trivial sample per shard
    seen = 0
    for i, a in enumerate(left):
        for j, b in enumerate(right):
            da, db, ta, tb = dl[i], dr[j], tl[i], tr[j]
            n = 0
            for op in PAIR_OPS:
                if check_pair_op(res, op, a, b, da, db, ta, tb, hl[i], hr[j]):
                    n += 1
            nt, cl = pair_classes(a, b, da, db, ta, tb)
            res.evaluations += n
            for c in cl:
                res.cls(c, n)
            if nt:
                res.nt_count += n
            seen += 1
            if seen >= pick and len(res.nt_samples if nt else res.samples) < 1:
                res.sample({'kind': 'pair', 'ops': 'all', 'a': enc(a), 'b': enc(b)}, nt=nt)


def run_unary(res: Result, vals, tier, wide=False):
    for a in vals:
        da, ta = den(a), tname(a)
        nt = is_redundant(a) or kind(da) != 'fin' or nondyadic(da)
        n = 0
        C, E = bounds(tier)
        for op, arg in unary_plan(a, tier, wide=wide or (type(a) in (Float, RealFloat) and (abs(a.exp) > E or a.c >= C))):
            if check_unary_op(res, op, a, da, ta, arg):
                n += 1
        res.evaluations += n
        if is_redundant(a):
            res.cls('redundant', n)
        if kind(da) != 'fin':
            res.cls('special', n)
        if nt:
            res.nt_count += n
        if len(res.nt_samples if nt else res.samples) < 1 and h64('sample', enc(a)) % 5 == 0:
            res.sample({'kind': 'unary', 'ops': 'all', 'a': enc(a)}, nt=nt)


# ---------------------------------------------------------------------------
# Hypothesis layer: wide significands, huge exponents, related mixed-type pairs

def run_hyp(res: Result, idx, tier, seed):
    import hypothesis
    from hypothesis import HealthCheck, Phase, given, settings
    from hypothesis import strategies as st

    T = tier == 'thorough'
    n_examples = 600 if T else 400

    @st.composite
    def number(draw):
        """(s, c, exp) of a finite encoding, in one of several shapes."""
        shape = draw(st.sampled_from(['wide', 'wide', 'huge-exp', 'double', 'double-edge', 'small', 'zero', 'pow2']))
        s = draw(st.booleans())
        if shape == 'wide':
            nb = draw(st.integers(1, 400))
            c = draw(st.integers(1 << (nb - 1), (1 << nb) - 1))
            c <<= draw(st.sampled_from([0, 0, 1, 3, 17]))            # redundant trailing zeros
            e = draw(st.integers(-600, 600))
        elif shape == 'huge-exp':
            nb = draw(st.integers(1, 120))
            c = draw(st.integers(1 << (nb - 1), (1 << nb) - 1))
            e = draw(st.sampled_from([-1, 1])) * draw(st.integers(1000, 10000))
        elif shape == 'double':
            bits = draw(st.integers(0, (1 << 63) - 1))
            eb, mb = (bits >> 52) & 0x7ff, bits & ((1 << 52) - 1)
            if eb == 0x7ff:
                eb = 0x7fe
            c, e = (mb, -1074) if eb == 0 else (mb | (1 << 52), eb - 1075)
            sh_ = draw(st.sampled_from([0, 0, 1, 5]))
            c, e = c << sh_, e - sh_
        elif shape == 'double-edge':
            which = draw(st.sampled_from(['sub', 'sub-lost', 'max', 'over', '54bit', 'minnorm', 'tiny']))
            if which == 'sub':
                c, e = draw(st.integers(1, (1 << 52) - 1)), -1074
            elif which == 'sub-lost':
                c, e = draw(st.integers(1, (1 << 53) - 1)) | 1, -1075
            elif which == 'max':
                c, e = (1 << 53) - draw(st.integers(1, 3)), 971
            elif which == 'over':
                c, e = (1 << 53) + draw(st.integers(0, 3)), 971
            elif which == '54bit':
                c, e = (1 << 53) | draw(st.integers(0, (1 << 53) - 1)), draw(st.integers(-1074, 900))
            elif which == 'minnorm':
                c, e = (1 << 52) + draw(st.integers(-2, 2)), -1074
            else:
                c, e = draw(st.integers(1, 7)), draw(st.integers(-1080, -1070))
        elif shape == 'small':
            c, e = draw(st.integers(1, 63)), draw(st.integers(-6, 6))
        elif shape == 'zero':
            c, e = 0, draw(st.integers(-10000, 10000))
        else:
            c, e = 1 << draw(st.sampled_from([0, 0, 1, 9])), draw(st.integers(-10000, 10000))
        return s, c, e

    @st.composite
    def pair_case(draw):
        s, c, e = draw(number())
        rel = draw(st.sampled_from(['indep', 'indep', 'equal', 'negation', 'ulp', 'same-e', 'special', 'nondyadic', 'scaled', 'near-frac']))
        if rel == 'indep':
            b = draw(number())
        elif rel == 'equal':
            k = draw(st.integers(0, 70))
            tz = (c & -c).bit_length() - 1 if c else 0
            down = draw(st.integers(0, tz)) if tz else 0
            b = (s, (c >> down) << k, e + down - k) if c else (s, 0, draw(st.integers(-10000, 10000)))
        elif rel == 'negation':
            k = draw(st.integers(0, 9))
            b = (not s, c << k, e - k)
        elif rel == 'ulp':
            k = draw(st.integers(0, 3))
            d = draw(st.sampled_from([-1, 1]))
            cb = (c << k) + d
            b = (s, cb, e - k) if cb >= 0 else (not s, -cb, e - k)
        elif rel == 'same-e':
            # same normalized exponent, different exp: b has fewer/more bits
            nb = max(c.bit_length(), 1)
            nb2 = draw(st.integers(1, nb + 20))
            cb = draw(st.integers(1 << (nb2 - 1), (1 << nb2) - 1))
            b = (s if draw(st.integers(0, 3)) else (not s), cb, e + nb - nb2)
        elif rel == 'scaled':
            k = draw(st.integers(-3, 3))
            b = (draw(st.booleans()), c, e + k)
        elif rel == 'special':
            b = draw(st.sampled_from(['+inf', '-inf', 'nan', '+0', '-0']))
        elif rel == 'near-frac':
            # a non-dyadic rational q (possibly far outside the double range) against a dyadic value within a
            # few units of q's P-th digit, P from below to far above 53: the value may lie strictly between q
            # and q's nearest double, where any comparison routed through a double gives the wrong order
            fn = draw(st.integers(1, 1 << 70))
            fd = draw(st.sampled_from([3, 5, 7, 9, 11, 13, 10 ** 6 + 3]))
            if fn % fd == 0:
                fn += 1
            sh = draw(st.sampled_from([0, 0, 1, -1, 40, -40, 900, -1100, -2200, 1500]))
            neg = draw(st.booleans())
            num, dnm = (fn << sh, fd) if sh >= 0 else (fn, fd << -sh)
            q = Fraction(num, dnm)
            prec = draw(st.sampled_from([24, 52, 53, 54, 60, 64, 80, 113, 130]))
            eq = num.bit_length() - dnm.bit_length()
            kk = prec - eq
            scaled = q * (1 << kk) if kk >= 0 else q / (1 << -kk)
            cc = scaled.numerator // scaled.denominator + draw(st.integers(-2, 3))
            if cc <= 0:
                cc = 1
            s, c, e = neg, cc, -kk
            b = ('frac', -num if neg else num, dnm)
        else:
            b = ('frac', draw(st.integers(-(1 << 70), 1 << 70)), draw(st.sampled_from([3, 5, 6, 7, 12, 3 << 40, 10 ** 6])))
        ca = draw(st.sampled_from(['Float', 'RealFloat', 'Float', 'RealFloat', 'native']))
        cb_ = draw(st.sampled_from(['Float', 'RealFloat', 'native', 'native']))
        nat = draw(st.sampled_from(['int', 'float', 'Fraction']))
        swap = draw(st.booleans())
        k = draw(st.integers(0, 9))
        ns = draw(st.lists(st.integers(-3, 12), min_size=2, max_size=4))
        return (s, c, e), b, ca, cb_, nat, swap, k, ns, rel

    def build(x, carrier, nat):
        """An object of the requested carrier for the description x (falls back to what can hold it)."""
        if isinstance(x, str):
            if carrier == 'native' or carrier == 'RealFloat':
                if x in ('+0', '-0') and carrier == 'RealFloat':
                    return RealFloat(s=(x == '-0'), c=0, exp=0)
                f = {'+inf': math.inf, '-inf': -math.inf, 'nan': math.nan, '+0': 0.0, '-0': -0.0}[x]
                if carrier == 'native':
                    if x == '+0' and nat == 'int':
                        return 0
                    if x == '+0' and nat == 'Fraction':
                        return Fraction(0)
                    return f
                return Float.from_float(f)
            return {'+inf': Float(isinf=True), '-inf': Float(s=True, isinf=True), 'nan': Float(isnan=True),
                    '+0': Float(c=0, exp=0), '-0': Float(s=True, c=0, exp=0)}[x]
        if x[0] == 'frac':
            return Fraction(x[1], x[2])
        s, c, e = x
        if carrier == 'Float':
            return Float(s=s, c=c, exp=e)
        if carrier == 'RealFloat':
            return RealFloat(s=s, c=c, exp=e)
        q = Fraction(c) * pow2(e)
        q = -q if s else q
        if nat == 'int' and q.denominator == 1 and (q != 0 or not s):
            return int(q)
        if nat == 'float':
            f = as_double(q if q != 0 else (NZERO if s else PZERO))
            if f is not None:
                return f
        if q == 0 and s:
            return -0.0
        return q

    hres = res

    @hypothesis.seed(h64(seed, idx, 'C05') % (1 << 32))
    @settings(max_examples=n_examples, deadline=None, database=None, derandomize=False,
              report_multiple_bugs=False, phases=[Phase.generate], suppress_health_check=list(HealthCheck))
    @given(pair_case())
    def prop(case):
        xa, xb, ca, cb_, nat, swap, k, ns, rel = case
        a = build(xa, ca, nat)
        b = build(xb, cb_, nat)
        if swap:
            a, b = b, a
        ta, tb = tname(a), tname(b)
        if ta not in ('Float', 'RealFloat') and tb not in ('Float', 'RealFloat'):
            b = Float(s=xa[0], c=xa[1], exp=xa[2])
            tb = 'Float'
        da, db = den(a), den(b)
        nt, cl = pair_classes(a, b, da, db, ta, tb)
        n = 0
        for op in PAIR_OPS:
            if check_pair_op(hres, op, a, b, da, db, ta, tb):
                n += 1
                if nt:
                    hres.nontrivial((op, enc(a), enc(b)))
        for v, dv, tv in ((a, da, ta), (b, db, tb)):
            if tv in ('Float', 'RealFloat'):
                plan = [(o, None) for o in ('neg', 'pos', 'abs', 'hash', 'int', 'float', 'trunc', 'floor', 'ceil', 'round',
                                            'as_rational', 'predicates', 'rational-parts', 'e', 'as_real/from_real', 'copy')]
                plan.append(('pow', k))
                if not (tv == 'Float' and v.is_nar()):
                    L = max(v.c.bit_length(), 1)
                    for r_ in ns:
                        pos = v.exp - 2 + (r_ * 7919) % (L + 4)
                        plan.append(('split', pos))
                        plan.append(('is_more_significant', pos))
                        if tv == 'RealFloat':
                            plan.append(('bit', pos))
                    tz = (v.c & -v.c).bit_length() - 1 if v.c else 0
                    for p_, n_ in ((L + ns[0], None), (L - tz, None), (max(L - tz - 1, 0), None), (None, v.exp + tz - 1), (None, v.exp + tz),
                                   (None, v.exp - 1 - abs(ns[1])), (L + 1, v.exp - 1), (L + 5, v.exp - 3), (L - tz, v.exp + tz - 1),
                                   (L - tz, v.exp + tz), (None, None)):
                        plan.append(('normalize', (p_, n_)))
            else:
                plan = [('from', None)]
            for op, arg in plan:
                if check_unary_op(hres, op, v, dv, tv, arg):
                    n += 1
                    if is_redundant(v) or kind(dv) != 'fin' or nondyadic(dv):
                        hres.nontrivial((op, arg, enc(v)))
        hres.evaluations += n
        for c in cl:
            hres.cls(c, n)
        hres.cls('wide', n)
        hres.cls('wide:' + rel, n)
        if len(hres.nt_samples if nt else hres.samples) < 1 and hres.evaluations > 4000:
            hres.sample({'kind': 'pair', 'ops': 'all', 'a': enc(a), 'b': enc(b)}, nt=nt)

    prop()


# ---------------------------------------------------------------------------

def run_shard(shard):
    res = Result()
    kind_ = shard[0]
    M, N, nF, nR, nB = pools(shard[2])
    if kind_ == 'pairs-M':
        _, i, tier = shard
        run_pairs(res, M[i:i + CHUNK], M + N, sample_salt=i * 7)
    elif kind_ == 'pairs-N':
        _, i, tier = shard
        run_pairs(res, N[i:i + CHUNK], M, sample_salt=i * 13)
    elif kind_ == 'unary-M':
        _, i, tier = shard
        run_unary(res, M[i:i + 4 * CHUNK], tier)
    elif kind_ == 'unary-N':
        run_unary(res, N, shard[2])
    elif kind_ == 'unary-tagged':
        # every small encoding tagged with the FP64 context (float() shortcut, normalize() through the context)
        vals = [Float(s=s, c=c, exp=e, ctx=fp.FP64) for (s, c, e) in small_encodings(shard[2])]
        run_unary(res, vals, shard[2])
    elif kind_ == 'hyp':
        _, idx, tier, seed = shard
        run_hyp(res, idx, tier, seed)
    else:
        raise ValueError(shard)
    return res


def selftest():
    """The oracle tables must agree with the platform's binary64 arithmetic wherever that is exact."""
    xs = [0.0, -0.0, 1.0, -1.0, 1.5, -2.5, 3.0, 0.375, -6.0, math.inf, -math.inf, math.nan, 1024.0, -0.125]
    for x in xs:
        dx = den(x)
        assert same_den(o_neg(dx), den(-x)), ('neg', x)
        assert same_den(o_abs(dx), den(abs(x))), ('abs', x)
        for k in range(0, 5):
            assert same_den(o_pow(dx, k), den(x ** k)), ('pow', x, k, o_pow(dx, k), x ** k)
        for k in (-1, -2):
            if x not in (0.0, 1.0, -1.0, 1024.0, -0.125, math.inf, -math.inf) and x == x:
                continue        # x ** k is not exact in binary64
            try:
                w = x ** k
            except ZeroDivisionError:
                w = math.copysign(math.inf, x) if k % 2 else math.inf
            assert same_den(o_pow(dx, k), den(w)), ('pow', x, k)
        for y in xs:
            dy = den(y)
            assert same_den(o_add(dx, dy), den(x + y)), ('add', x, y, o_add(dx, dy))
            assert same_den(o_sub(dx, dy), den(x - y)), ('sub', x, y)
            assert same_den(o_mul(dx, dy), den(x * y)), ('mul', x, y)
            c = o_cmp(dx, dy)
            for name, (fn, want) in CMPOPS.items():
                e = want(c) if c is not None else (name == '!=')
                assert fn(x, y) is e, ('cmp', name, x, y)
            if c == 0:
                assert ref_hash(dx) == ref_hash(dy) == hash(x)
    assert as_double(Fraction(1, 1 << 1074)) == 5e-324 and as_double(Fraction(1, 1 << 1075)) is None
    assert as_double(Fraction((1 << 53) + 1)) is None and as_double(Fraction(1 << 1024)) is None
    assert as_double(Fraction(1, 3)) is None and math.copysign(1.0, as_double(NZERO)) == -1.0
    assert _exists_normalized(Fraction(12), 2, None) and not _exists_normalized(Fraction(12), 1, None)
    assert _exists_normalized(Fraction(12), None, 1) and not _exists_normalized(Fraction(12), None, 2)
    for v in pools()[0] + pools()[1]:
        w = dec(enc(v))
        assert type(w) is type(v) and same_den(den(v), den(w)), ('enc/dec', v)
        if type(v) in (Float, RealFloat):
            assert (w.s, w.c, w.exp) == (v.s, v.c, v.exp)


def replay(case):
    """Re-runs one saved case (plain data) against the tree."""
    res = Result()
    a = dec(case['a'])
    da, ta = den(a), tname(a)
    if case['kind'] == 'pair':
        b = dec(case['b'])
        db, tb = den(b), tname(b)
        ops = PAIR_OPS if case.get('op') in (None, 'all') or case.get('ops') == 'all' else (case['op'],)
        for op in ops:
            check_pair_op(res, op, a, b, da, db, ta, tb)
    else:
        arg = case.get('arg')
        if isinstance(arg, list):
            arg = tuple(arg)
        if case.get('ops') == 'all':
            for op, ar in unary_plan(a, 'quick', wide=True):
                check_unary_op(res, op, a, da, ta, ar)
        else:
            check_unary_op(res, case['op'], a, da, ta, arg)
    return [f for fl in res.failures.values() for f in fl]
