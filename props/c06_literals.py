"""
C06 — A numeric literal denotes exactly the number written.

Literal spellings are generated as *text*, placed in generated functions that go through the real
`@fp.fpy` decorator and parser (vlib.load), and evaluated under `fp.REAL` and under narrow
contexts.  The oracle is an independent tokeniser of the expression text (Python's lexical grammar
for numbers, the C99 hexadecimal-floating grammar for `fp.hexfloat` strings, and the arithmetic
reading of `fp.rational(p, q)` = p/q and `fp.digits(m, e, b)` = m*b^e) producing an exact
`Fraction` or a signed zero; it never calls `float()` or fpy2's `decnum_to_fraction`.
Rounding under a narrow context uses vlib.oracle_round on the exact value.
"""

from __future__ import annotations

import random
from fractions import Fraction

import fpy2 as fp

from vlib import formats as F
from vlib.denote import NAN, NINF, NZERO, PINF, PZERO, den, pow2, show
from vlib.load import load_module, unload
from vlib.oracle_round import MODES, expect, floor_log2
from vlib.runner import Result, h64

PROPERTY = 'C06'
LEVEL = 'exploration'
RULE = ('Literal expressions generated as text (integers 1-60 digits incl. underscores and 0x/0o/0b forms; decimals d+.d*, .d+, d+. '
        'with e/E exponents |k|<=420, leading/trailing zeros, underscores; >17 significant digits; integer-valued float spellings '
        '>= 2^53; values beyond binary64 range both ways; boundary-directed spellings = exact decimal expansion of a member / '
        'midpoint / overflow threshold of the focus context +- 10^-k; zero spellings; fp.hexfloat strings; fp.rational(p,q) incl. '
        'q<0, non-reduced, q=0; fp.digits(m,e,b) with b in {2,3,5,7,10,16}, e<0, m<0; each with sign prefixes +,-,--,-(..)), '
        'batched ~50 per generated function in several source layouts (one line, continued lines, unicode identifier before the '
        'literal, nested indentation), evaluated bare and inside fp.round(..) under fp.REAL (decorator and call-site), the default '
        'context and narrow contexts (MPFloat(2..5), IEEE(3,6), IEEE(4,8), FP16, FP32, FP64, MPFixed(-2); 8 modes). '
        'Non-trivial = the reading "nearest binary64 of the spelling" would give a different observable result in the evaluated '
        'mode (REAL: double(q) != q; fp.round under C: C(double(q)) != C(q); includes integers >= 2^53 written with an exponent '
        'and out-of-double-range spellings), or a negated zero, or a hexfloat/rational/digits call whose value is not a binary64 '
        'number or whose spelling is non-canonical (negative/non-reduced denominator, negative exponent, negative mantissa); '
        'distinct by (expression text, mode, context, how the context is supplied).')
ASSUMPTIONS = [
    'Bare `return <lit>` under a non-REAL context may be the unrounded exact value (E-Val) or the value rounded once; any third value fails.',
    '`-<lit>` under a non-REAL context: exact negative (parser folds -<integer> / -<zero>) or Neg rounded once under the context (E-Op); '
    'with several sign prefixes both the folded and the step-by-step (each Neg rounds) readings are accepted. Under REAL both are the exact value.',
    'Negating a zero literal gives -0; negating that again gives +0 (Neg of -0 is +0, as for a variable holding -0).',
    'fp.rational(p, 0) and fp.digits(m, e<0, 0) denote no number: rejection, any exception or NaN is accepted; a number or infinity fails.',
    'fp.hexfloat strings outside the lowercase float.hex() subset ([+-]0x h+[.h+][p[+-]d+]): ValueError/parser rejection is accepted '
    '(grammar undocumented); if a value is returned it must be the C99 reading. Inside the subset any exception fails.',
    'Arguments of fp.rational / fp.digits spelled `-0` (folded to a negative-zero literal by the parser) may be rejected.',
    'Overflow under OVERFLOW mode with RTO/RTE may give either infinity or the largest value (as C01).',
    'Flags of the returned Float are not checked; result may be Float or Fraction (compared by denotation).',
]
EXHAUSTIVE = {'quick': False, 'thorough': False}
FLOORS = {
    'nt:double-differs-and-rounds-differently': 0.03,
    'nt:int>=2^53-with-exponent': 0.01,
    'nt:out-of-double-range': 0.02,
    'hexfloat': 0.02, 'rational': 0.02, 'digits': 0.02, 'negated-zero': 0.01,
    'boundary-directed': 0.10, 'sig>17': 0.10, 'underscore': 0.02, 'uppercase-E': 0.02,
}


class OracleError(Exception):
    """The harness' own tokeniser could not read a generated text (harness bug -> exit 2)."""


# ---------------------------------------------------------------------------
# Oracle part 1: tokeniser for Python numeric literals (lexical grammar, Python reference 2.4.5/2.4.6)

_DEC = '0123456789'
_HEX = '0123456789abcdefABCDEF'


def _digitpart(s, i, alphabet=_DEC):
    """digit (["_"] digit)*  ->  (digits without underscores, next index); '' when no digit at i."""
    out = []
    n = len(s)
    if i >= n or s[i] not in alphabet:
        return '', i
    out.append(s[i])
    i += 1
    while i < n:
        if s[i] in alphabet:
            out.append(s[i])
            i += 1
        elif s[i] == '_' and i + 1 < n and s[i + 1] in alphabet:
            out.append(s[i + 1])
            i += 2
        else:
            break
    return ''.join(out), i


def _int_of(digs, base):
    v = 0
    for ch in digs:
        v = v * base + _HEX.index(ch.lower()) if ch.lower() in 'abcdef' else v * base + (ord(ch) - 48)
    return v


def py_number(s, i=0):
    """Reads one Python numeric literal starting at s[i].  Returns (kind, Fraction, next index, info)
    with kind 'int' | 'float'; info has the lexical features."""
    n = len(s)
    info = {'underscore': False, 'upperE': False, 'lead_dot': False, 'trail_dot': False, 'exp': None,
            'sig': 0, 'radix': 10}
    start = i
    if i < n and s[i] == '0' and i + 1 < n and s[i + 1] in 'xXoObB':
        base = {'x': 16, 'o': 8, 'b': 2}[s[i + 1].lower()]
        alphabet = {16: _HEX, 8: '01234567', 2: '01'}[base]
        j = i + 2
        if j < n and s[j] == '_':
            j += 1
        digs, k = _digitpart(s, j, alphabet)
        if not digs:
            raise OracleError(f'bad radix literal at {s[i:]!r}')
        info['radix'] = base
        info['underscore'] = '_' in s[start:k]
        return 'int', Fraction(_int_of(digs, base)), k, info
    ip, j = _digitpart(s, i)
    fp_ = None
    is_float = False
    if j < n and s[j] == '.':
        # pointfloat: [digitpart] fraction | digitpart "."
        fdigs, k = _digitpart(s, j + 1)
        if not ip and not fdigs:
            raise OracleError(f'no digits at {s[i:]!r}')
        is_float = True
        fp_ = fdigs
        if not ip:
            info['lead_dot'] = True
        if not fdigs:
            info['trail_dot'] = True
        j = k
    elif not ip:
        raise OracleError(f'no number at {s[i:]!r}')
    ex = 0
    if j < n and s[j] in 'eE':
        k = j + 1
        sgn = 1
        if k < n and s[k] in '+-':
            sgn = -1 if s[k] == '-' else 1
            k += 1
        edigs, k2 = _digitpart(s, k)
        if edigs:
            is_float = True
            info['upperE'] = s[j] == 'E'
            ex = sgn * _int_of(edigs, 10)
            info['exp'] = ex
            j = k2
        # otherwise 'e' is not part of the number (cannot happen in generated text)
    if j < n and s[j] in 'jJ':
        raise OracleError('imaginary literal')
    info['underscore'] = '_' in s[start:j]
    mant = (ip or '') + (fp_ or '')
    info['sig'] = len(mant.strip('0'))
    if not is_float:
        if len(ip) > 1 and ip[0] == '0' and ip.strip('0'):
            raise OracleError(f'leading zeros in decimal integer {ip!r}')
        return 'int', Fraction(_int_of(ip, 10)), j, info
    m = _int_of(mant, 10)
    scale = ex - len(fp_ or '')
    v = Fraction(m) * (Fraction(10) ** scale)
    return 'float', v, j, info


def c99_hexfloat(t):
    """C99 6.4.4.2 hexadecimal-floating-constant with optional sign (exponent optional as in
    float.fromhex).  Returns (denotation, core?) where core = the lowercase float.hex() subset."""
    s = t.strip()
    i = 0
    neg = False
    if i < len(s) and s[i] in '+-':
        neg = s[i] == '-'
        i += 1
    if not (i + 1 < len(s) and s[i] == '0' and s[i + 1] in 'xX'):
        raise OracleError(f'hexfloat without 0x: {t!r}')
    i += 2
    j = i
    while j < len(s) and s[j] in _HEX:
        j += 1
    ip = s[i:j]
    fr = ''
    had_dot = False
    if j < len(s) and s[j] == '.':
        had_dot = True
        k = j + 1
        while k < len(s) and s[k] in _HEX:
            k += 1
        fr = s[j + 1:k]
        j = k
    if not ip and not fr:
        raise OracleError(f'hexfloat without digits: {t!r}')
    ex = 0
    had_exp = False
    if j < len(s) and s[j] in 'pP':
        had_exp = True
        k = j + 1
        sgn = 1
        if k < len(s) and s[k] in '+-':
            sgn = -1 if s[k] == '-' else 1
            k += 1
        k2 = k
        while k2 < len(s) and s[k2] in _DEC:
            k2 += 1
        if k2 == k:
            raise OracleError(f'hexfloat exponent without digits: {t!r}')
        ex = sgn * _int_of(s[k:k2], 10)
        j = k2
    if j != len(s):
        raise OracleError(f'trailing characters in hexfloat {t!r}')
    m = _int_of(ip + fr, 16)
    v = Fraction(m) * pow2(ex - 4 * len(fr))
    core = (t == s and s[1 if s[0] in '+-' else 0:].startswith('0x') and ip != '' and (not had_dot or fr != '')
            and (ip + fr) == (ip + fr).lower() and 'P' not in s)
    if v == 0:
        return (NZERO if neg else PZERO), core
    return (-v if neg else v), core


# ---------------------------------------------------------------------------
# Oracle part 2: reader of the generated expression text
#   expr := ws (sign ws)* atom ;  atom := '(' expr ')' | fp.hexfloat('..') | fp.rational(i, i) | fp.digits(i, i, i) | number
# Result: ('lit', kind, denotation | None (= denotes no number), info) wrapped in ('neg', x) / ('pos', x).

def _ws(s, i):
    while i < len(s) and s[i] in ' \t':
        i += 1
    return i


def _signed_int(s, i):
    """Integer argument: optional signs, then an integer literal.  -> (int, next, spelled_negzero)"""
    i = _ws(s, i)
    neg = False
    signs = 0
    while i < len(s) and s[i] in '+-':
        if s[i] == '-':
            neg = not neg
        signs += 1
        i = _ws(s, i + 1)
    kind, v, i, info = py_number(s, i)
    if kind != 'int':
        raise OracleError(f'non-integer argument in {s!r}')
    iv = int(v)
    return (-iv if neg else iv), _ws(s, i), (iv == 0 and signs > 0 and neg)


def _expect_ch(s, i, ch):
    i = _ws(s, i)
    if i >= len(s) or s[i] != ch:
        raise OracleError(f'expected {ch!r} at {i} in {s!r}')
    return i + 1


def read_expr(s, i=0):
    i = _ws(s, i)
    if i < len(s) and s[i] in '+-':
        inner, j = read_expr(s, i + 1)
        return (('neg' if s[i] == '-' else 'pos'), inner), j
    if i < len(s) and s[i] == '(':
        inner, j = read_expr(s, i + 1)
        j = _expect_ch(s, j, ')')
        return inner, _ws(s, j)
    if s.startswith('fp.hexfloat(', i):
        j = _ws(s, i + len('fp.hexfloat('))
        q = s[j]
        if q not in '\'"':
            raise OracleError(f'hexfloat argument not a string in {s!r}')
        k = s.index(q, j + 1)
        body = s[j + 1:k]
        d, core = c99_hexfloat(body)
        j = _expect_ch(s, k + 1, ')')
        return ('lit', 'hexfloat', d, {'core': core, 'text': body}), _ws(s, j)
    if s.startswith('fp.rational(', i):
        p, j, nz1 = _signed_int(s, i + len('fp.rational('))
        j = _expect_ch(s, j, ',')
        q, j, nz2 = _signed_int(s, j)
        j = _expect_ch(s, j, ')')
        info = {'p': p, 'q': q, 'negzero_arg': nz1 or nz2}
        if q == 0:
            return ('lit', 'rational', None, info), _ws(s, j)
        v = Fraction(p, q)
        import math
        info['noncanonical'] = q < 0 or math.gcd(p, q) != 1
        return ('lit', 'rational', (v if v != 0 else PZERO), info), _ws(s, j)
    if s.startswith('fp.digits(', i):
        m, j, nz1 = _signed_int(s, i + len('fp.digits('))
        j = _expect_ch(s, j, ',')
        e, j, nz2 = _signed_int(s, j)
        j = _expect_ch(s, j, ',')
        b, j, nz3 = _signed_int(s, j)
        j = _expect_ch(s, j, ')')
        info = {'m': m, 'e': e, 'b': b, 'negzero_arg': nz1 or nz2 or nz3, 'noncanonical': e < 0 or m < 0}
        if b == 0 and e < 0:
            return ('lit', 'digits', None, info), _ws(s, j)
        if b == 0:
            v = Fraction(m) if e == 0 else Fraction(0)
        else:
            # m * b^e by repeated multiplication of exact rationals
            base = Fraction(b) if e >= 0 else Fraction(1, b)
            v = Fraction(m)
            acc, k = base, abs(e)
            while k:
                if k & 1:
                    v *= acc
                acc *= acc
                k >>= 1
        return ('lit', 'digits', (v if v != 0 else PZERO), info), _ws(s, j)
    kind, v, j, info = py_number(s, i)
    return ('lit', kind, (v if v != 0 else PZERO), info), _ws(s, j)


def read(text):
    t, j = read_expr(text, 0)
    if j != len(text):
        raise OracleError(f'trailing text in {text!r} at {j}')
    return t


def leaf(t):
    while t[0] != 'lit':
        t = t[1]
    return t


def n_negs(t):
    k = 0
    while t[0] != 'lit':
        if t[0] == 'neg':
            k += 1
        t = t[1]
    return k


def negate(d):
    if d == PZERO:
        return NZERO
    if d == NZERO:
        return PZERO
    if d == PINF:
        return NINF
    if d == NINF:
        return PINF
    if d == NAN:
        return NAN
    return -d


def exact_value(t, leaf_value=None):
    """Exact reading: every sign applied without rounding."""
    if t[0] == 'lit':
        return t[2] if leaf_value is None else leaf_value
    v = exact_value(t[1], leaf_value)
    return negate(v) if t[0] == 'neg' else v


def stepwise_values(t, model, leaf_value=None):
    """E-Op reading: each Neg is an operation rounded under the context.  Returns a set of denotations."""
    if t[0] == 'lit':
        return {t[2] if leaf_value is None else leaf_value}
    vs = stepwise_values(t[1], model, leaf_value)
    if t[0] == 'pos':
        return vs
    out = set()
    for v in vs:
        o = expect(model, negate(v))
        out |= set(o.values)
    return out


# ---------------------------------------------------------------------------
# contexts

FAMILIES = [('mp', (2,)), ('mp', (3,)), ('mp', (4,)), ('mp', (5,)), ('ieee', (3, 6)), ('ieee', (4, 8)), ('ieee', (5, 16)),
            ('mpfixed', (-2,)), ('ieee', (8, 32)), ('ieee', (11, 64))]
NAMED = {(5, 16): 'FP16', (8, 32): 'FP32', (11, 64): 'FP64'}

_CTX_CACHE = {}


def build_ctx(spec):
    """spec: 'REAL' | None (default context = IEEE double, RNE) | [kind, [args], rm]  ->  (ctx object or None, Model)"""
    key = repr(spec)
    if key in _CTX_CACHE:
        return _CTX_CACHE[key]
    if spec == 'REAL':
        out = F.mk_real()
    elif spec is None:
        _, m = F.build(('ieee', (11, 64), {'rm': 'RNE'}))
        out = (None, m)
    else:
        kind, args, rm = spec
        args = tuple(args)
        ctx, m = F.build((kind, args, {'rm': rm}))
        if kind == 'ieee' and args in NAMED:
            named = getattr(fp, NAMED[args]).with_params(rm=F.RM[rm])
            if named != ctx:
                raise OracleError(f'{NAMED[args]} is not IEEEContext{args}')
            ctx = named
        out = (ctx, m)
    _CTX_CACHE[key] = out
    return out


_M64 = None


def to_double(d):
    """Nearest binary64 (ties to even) of a denotation, by the independent rounding oracle."""
    global _M64
    if _M64 is None:
        _M64 = F.build(('ieee', (11, 64), {'rm': 'RNE'}))[1]
    vs = expect(_M64, d).values
    assert len(vs) == 1
    return next(iter(vs))


# ---------------------------------------------------------------------------
# expected sets

def expected_set(t, mode, model, leaf_value=None):
    """Set of permitted denotations for expression tree t evaluated `mode` ('bare' | 'round') under model."""
    ex = exact_value(t, leaf_value)
    if model.kind == 'real':
        return {ex}
    out = set()
    if mode == 'bare':
        out.add(ex)                                   # E-Val / parser-folded sign: unrounded
        out |= set(expect(model, ex).values)          # rounded once
        out |= stepwise_values(t, model, leaf_value)  # Neg as a rounded operation
    else:
        out |= set(expect(model, ex).values)
        for v in stepwise_values(t, model, leaf_value):
            out |= set(expect(model, v).values)
    return out


def via_double_set(t, mode, model):
    """Model of the suspected defect, used ONLY to label a mismatch (never as the oracle): what the
    expression would give if the literal were first replaced by its nearest binary64 `d`, taken either
    exactly or through the shortest decimal string that reads back as `d` (repr of the double)."""
    lf = leaf(t)
    if lf[1] != 'float' or lf[2] is None:
        return None
    d = to_double(lf[2])
    if d in (PINF, NINF):
        return 'inf'
    out = set(expected_set(t, mode, model, leaf_value=d))
    if isinstance(d, Fraction):
        rep = repr(float(d))                      # exact conversion: d is a binary64 number
        _, v, j, _ = py_number(rep)
        if j == len(rep) and v != 0:
            out |= expected_set(t, mode, model, leaf_value=v)
    return out


# ---------------------------------------------------------------------------
# running the implementation

LAYOUTS = 5


def build_source(exprs, mode, layout, deco_ctx):
    """Source of one function `main` returning the tuple of all expressions."""
    deco = '@fp.fpy(ctx=C)' if deco_ctx else '@fp.fpy'
    wrap = (lambda e: f'fp.round({e})') if mode == 'round' else (lambda e: e)
    items = [wrap(e) for e in exprs]
    one = len(items) == 1
    if layout == 0 or one and layout in (1, 4):
        body = items[0] if one else '(' + ', '.join(items) + ')'
        return f'{deco}\ndef main():\n    return {body}\n'
    if layout == 1:
        # continued lines, irregular indentation, comments
        lines = [f'{deco}\n', 'def main():\n', '    return (\n']
        for k, it in enumerate(items):
            ind = ' ' * (4 + (k * 3) % 7)
            cm = '  # µ é' if k % 4 == 1 else ''
            lines.append(f'{ind}{it},{cm}\n')
        lines.append('      )\n')
        return ''.join(lines)
    if layout == 2:
        # assignments; a non-ASCII identifier precedes literals on the same line (byte vs character columns)
        lines = [f'{deco}\n', 'def main():\n']
        names = []
        for k, it in enumerate(items):
            nm = f'π{k}' if k % 3 == 0 else f't{k}'
            names.append(nm)
            if k % 3 == 0 and k + 1 < len(items):
                continue
            if k % 3 == 1:
                lines.append(f'    π{k - 1}, {nm} = {items[k - 1]}, {it}\n')
            else:
                lines.append(f'    {nm} = {it}\n')
        if len(items) % 3 == 1:
            k = len(items) - 1
            lines.append(f'    π{k} = {items[k]}\n')
        lines.append('    return (' + ', '.join(names) + (',)' if one else ')') + '\n')
        return ''.join(lines)
    if layout == 3:
        # function nested in an indented block; backslash continuation
        lines = ['if True:\n', '    if True:\n', f'        {deco}\n', '        def main():\n', '            π = \\\n', f'               {items[0]}\n']
        rest = items[1:]
        if one:
            lines.append('            return π\n')
        else:
            lines.append('            return (π, ' + ', '.join(rest) + ')\n')
        return ''.join(lines)
    # layout 4: three expressions per physical line of a continued tuple
    lines = [f'{deco}\n', 'def main():\n', '    return (\n']
    for k in range(0, len(items), 3):
        lines.append('        ' + ', '.join(items[k:k + 3]) + ',\n')
    lines.append('    )\n')
    return ''.join(lines)


def run_source(src, ctx_obj, deco_ctx, n):
    """-> ('values', [denotations]) | ('reject', Exc, msg) | ('raise', Exc, msg)"""
    try:
        mod = load_module(src, extra_globals={'C': ctx_obj} if deco_ctx else None)
    except SyntaxError as e:
        raise OracleError(f'generated source is not Python: {e}\n{src}')
    except Exception as e:  # rejected by the decorator/parser: classified by the caller
        return ('reject', type(e).__name__, str(e)[:160])
    try:
        try:
            r = mod.main() if (deco_ctx or ctx_obj is None) else mod.main(ctx=ctx_obj)
        except Exception as e:  # classified by the caller (a failure unless the spelling denotes no number)
            return ('raise', type(e).__name__, str(e)[:160])
        if n == 1 and not isinstance(r, tuple):
            r = (r,)
        if not isinstance(r, tuple) or len(r) != n:
            return ('values', [('?', repr(r)[:80])] * n)
        out = []
        for v in r:
            try:
                out.append(den(v))
            except TypeError:
                out.append(('?', repr(v)[:80]))
        return ('values', out)
    finally:
        unload(mod)


def shows(vs):
    return sorted(show(v) for v in vs)


def classes_of(t, mode, model):
    """(classes, non-trivial?) for one evaluation."""
    lf = leaf(t)
    kind, v, info = lf[1], lf[2], lf[3]
    cl = [kind]
    nt = False
    negs = n_negs(t)
    if negs or t[0] == 'pos':
        cl.append('signed')
    if v in (PZERO, NZERO):
        cl.append('zero')
        if negs:
            cl.append('negated-zero')
            nt = True
            if negs > 1:
                cl.append('multiply-negated-zero')
    if kind in ('float', 'int'):
        if info['underscore']:
            cl.append('underscore')
        if info['upperE']:
            cl.append('uppercase-E')
        if info['lead_dot']:
            cl.append('leading-dot')
        if info['trail_dot']:
            cl.append('trailing-dot')
        if info['sig'] > 17:
            cl.append('sig>17')
        if info['radix'] != 10:
            cl.append('radix-int')
        if info['exp'] is not None and abs(info['exp']) >= 300:
            cl.append('|exp|>=300')
    if isinstance(v, Fraction):
        d = to_double(v)
        if d != v:
            cl.append('double-differs')
            if d in (PINF, PZERO):
                cl.append('nt:out-of-double-range')
                cl.append('overflows-double' if d == PINF else 'underflows-double')
            if kind == 'float':
                # observable in this mode?
                if d == PINF:
                    obs = True
                else:
                    obs = expected_set(t, mode, model, leaf_value=d) != expected_set(t, mode, model)
                if obs:
                    nt = True
                    if model.kind != 'real' and mode == 'round':
                        cl.append('nt:double-differs-and-rounds-differently')
                    else:
                        cl.append('nt:double-differs-observable')
                if v.denominator == 1 and v >= pow2(53):
                    cl.append('nt:int>=2^53-with-exponent' if info['exp'] is not None else 'nt:int>=2^53-float-spelling')
            elif kind in ('hexfloat', 'rational', 'digits'):
                nt = True
                cl.append('not-a-double')
        elif kind == 'float' and v.denominator == 1 and v >= pow2(53):
            cl.append('int>=2^53-exact-in-double')
    if kind in ('hexfloat', 'rational', 'digits'):
        if v is None:
            cl.append('denotes-no-number')
            nt = True
        if info.get('noncanonical'):
            nt = True
            cl.append('noncanonical-' + kind)
        if kind == 'hexfloat' and not info['core']:
            cl.append('hexfloat-c99-extra')
    return cl, nt


def failure_bucket(t, mode, model, got):
    """Root-cause signature for a mismatch.  got: denotation or ('raise'|'reject', Exc, msg)."""
    lf = leaf(t)
    kind = lf[1]
    raised = isinstance(got, tuple) and got and got[0] in ('raise', 'reject')
    if kind == 'float' and isinstance(lf[2], Fraction):
        vd = via_double_set(t, mode, model)
        if vd == 'inf':
            # nearest double is infinite: the front end then sees repr 'inf' (raise) or an infinity
            if raised or got in (PINF, NINF):
                return 'float-literal-via-double'
        elif vd is not None and not raised and got in vd:
            return 'float-literal-via-double'
        elif not raised and to_double(lf[2]) == PZERO and got in (PZERO, NZERO):
            return 'float-literal-via-double'       # underflowed to a zero literal (any further sign handling applies to that zero)
    ex = exact_value(t)
    if not raised and ex in (PZERO, NZERO) and got in (PZERO, NZERO):
        if ex == PZERO and n_negs(t) >= 1:
            return 'negation-of-negative-zero-literal-gives-negative-zero'
        return 'zero-sign/' + ('negated-zero-literal' if n_negs(t) else 'plain-zero-literal')
    if raised:
        return f'{got[0]}s:{got[1]}/{kind}'
    return f'wrong-value/{kind}'


def judge(t, mode, model, got):
    """None when permitted, else (bucket, expected list).  got as in failure_bucket."""
    lf = leaf(t)
    v, info = lf[2], lf[3]
    raised = isinstance(got, tuple) and got and got[0] in ('raise', 'reject')
    if v is None:
        if raised or got == NAN:
            return None
        return (f'value-for-undefined/{lf[1]}', ['<rejected, raises or NaN>'])
    exp = expected_set(t, mode, model)
    if raised:
        if lf[1] == 'hexfloat' and not info['core'] and got[1] in ('ValueError', 'FPyParserError'):
            return None
        if info.get('negzero_arg') and got[1] == 'FPyParserError':
            return None
        return (failure_bucket(t, mode, model, got), shows(exp))
    if got in exp:
        return None
    return (failure_bucket(t, mode, model, got), shows(exp))


def check_batch(res: Result, exprs, metas, mode, ctxspec, via, layout):
    """Evaluates all expressions in one generated function; falls back to one function per
    expression when the batch raises or an element disagrees (to isolate a minimal case)."""
    ctx_obj, model = build_ctx(ctxspec)
    deco = via == 'deco'
    trees = [read(e) for e in exprs]
    src = build_source(exprs, mode, layout, deco)
    out = run_source(src, ctx_obj, deco, len(exprs))
    res.count('modules')
    batch_vals = out[1] if out[0] == 'values' else None
    if batch_vals is None and len(exprs) == 1:
        batch_vals = [out]              # a single expression: the outcome itself is judged
    if batch_vals is None:
        res.count('batch-fallbacks')
    single_failed = False
    for k, (e, t) in enumerate(zip(exprs, trees)):
        res.case()
        cl, nt = classes_of(t, mode, model)
        for c in cl:
            res.cls(c)
        for c in metas[k]:
            res.cls(c)
        res.cls('mode:' + mode + ('/REAL' if model.kind == 'real' else '/default' if ctxspec is None else '/narrow'))
        res.cls('via:' + via)
        case = {'exprs': [e], 'mode': mode, 'ctx': ctxspec, 'via': via, 'layout': 0}
        if nt:
            res.nontrivial((e, mode, ctxspec, via))
            if res.evaluations % 1009 == 3:
                res.sample(case, nt=True)
        elif res.evaluations % 2003 == 5:
            res.sample(case)
        got = batch_vals[k] if batch_vals is not None else None
        verdict = judge(t, mode, model, got) if batch_vals is not None else ('batch', None)
        if verdict is None:
            continue
        # isolate: the same expression alone, simplest layout
        o1 = run_source(build_source([e], mode, 0, deco), ctx_obj, deco, 1)
        res.count('single-reruns')
        g1 = o1[1][0] if o1[0] == 'values' else o1
        v1 = judge(t, mode, model, g1)
        if v1 is not None:
            single_failed = True
            res.fail(v1[0], case, expected=v1[1], got=(show(g1) if not isinstance(g1, tuple) else list(g1)))
        elif batch_vals is not None:
            # wrong only inside the batch / layout
            res.fail(f'layout-dependent/{verdict[0]}', {'exprs': exprs, 'idx': k, 'mode': mode, 'ctx': ctxspec, 'via': via, 'layout': layout},
                     expected=verdict[1], got=show(got) if not isinstance(got, tuple) else list(got))
    if batch_vals is None and not single_failed:
        res.fail(f'batch-only:{out[0]}:{out[1]}', {'exprs': exprs, 'idx': None, 'mode': mode, 'ctx': ctxspec, 'via': via, 'layout': layout},
                 expected='every element evaluates alone', got=list(out))


# ---------------------------------------------------------------------------
# generators (all text; `r` is a seeded random.Random)

def rdigits(r, n, nonzero_first=True):
    s = ''.join(r.choice(_DEC) for _ in range(n))
    if nonzero_first and s[0] == '0':
        s = r.choice('123456789') + s[1:]
    return s


def underscored(r, digs, p=0.25):
    """Insert single underscores between digits."""
    if len(digs) < 2 or r.random() > p:
        return digs
    out = [digs[0]]
    for ch in digs[1:]:
        if r.random() < 0.3:
            out.append('_')
        out.append(ch)
    return ''.join(out)


def render(r, N, n, allow_int=True, us=0.2):
    """A spelling of the non-negative number N * 10^-n (N, n >= 0 integers) as a Python literal:
    random position of the point, optional exponent, leading / trailing zeros, underscores, e/E."""
    D = str(N)
    # trailing zeros in the digit string (value unchanged)
    if r.random() < 0.15:
        z = r.randint(1, 4)
        D += '0' * z
        n += z
    style = r.random()
    if style < 0.35:
        i = len(D) - n                  # plain positional notation when possible
        if i < 0:
            D = '0' * (-i) + D
            i = 0
        if i > len(D):
            D = D + '0' * (i - len(D))
    elif style < 0.6:
        i = 1 if len(D) > 1 or r.random() < 0.5 else r.randint(0, 1)     # scientific d.ddd
    else:
        i = r.randint(0, len(D))
    ex = (len(D) - i) - n                # value = D[:i].D[i:] * 10^ex
    ip, fr = D[:i], D[i:]
    if r.random() < 0.1 and ip:
        ip = '0' * r.randint(1, 2) + ip                      # leading zeros (legal in a digitpart of a float)
    ipu, fru = underscored(r, ip, us), underscored(r, fr, us)
    if fr:
        mant = (ipu if ip else ('0' if r.random() < 0.5 else '')) + '.' + fru
        isfloat = True
    else:
        if ex == 0 and allow_int and r.random() < 0.5 and (len(ip) == 1 or ip[0] != '0'):
            return ipu                                       # integer literal
        dot = r.random() < 0.4
        mant = ipu + ('.' if dot else '')
        isfloat = dot
    if ex != 0 or not isfloat or r.random() < 0.08:
        e = r.choice('eeE')
        sg = '-' if ex < 0 else r.choice(['', '', '+'])
        ed = str(abs(ex))
        if r.random() < 0.1:
            ed = '0' + ed
        if len(ed) > 1 and r.random() < 0.15:
            ed = ed[0] + '_' + ed[1:]
        if ex == 0 and r.random() < 0.5:
            sg = r.choice(['', '+', '-'])
        mant += f'{e}{sg}{ed}'
    return mant


def dec_parts(q):
    """q >= 0 with denominator 2^a 5^b  ->  (N, n) with q = N / 10^n."""
    d = q.denominator
    a = b = 0
    while d % 2 == 0:
        d //= 2
        a += 1
    while d % 5 == 0:
        d //= 5
        b += 1
    if d != 1:
        raise OracleError(f'no finite decimal expansion: {q}')
    n = max(a, b)
    N = q * 10 ** n
    assert N.denominator == 1
    return int(N), n


def gen_int(r):
    k = r.random()
    if k < 0.08:
        return r.choice(['0', '00', '0_0', '0x0', '0b0', '0o0'])
    if k < 0.2:
        v = r.getrandbits(r.randint(1, 200))
        return r.choice([lambda x: hex(x), lambda x: bin(x), lambda x: oct(x), lambda x: '0X' + format(x, 'X'),
                         lambda x: '0x_' + format(x, 'x')])(v)
    n = r.choice([1, 2, 3, 5, 9, 15, 16, 17, 18, 19, 20, 21, 25, 31, 40, 60, r.randint(1, 60)])
    return underscored(r, rdigits(r, n), 0.3)


def gen_decimal(r):
    nd = r.choice([1, 2, 3, 4, 6, 8, 12, 15, 16, 17, r.randint(1, 25)])
    N = int(rdigits(r, nd))
    n = r.choice([0, 1, 1, 2, 3, 5, 8, r.randint(0, 30)])
    return render(r, N, n)


def gen_long(r):
    nd = r.randint(18, 60)
    N = int(rdigits(r, nd))
    if N % 10 == 0:
        N += r.randint(1, 9)
    n = r.randint(0, nd + 10)
    return render(r, N, n)


def gen_bigint_float(r):
    """Integer-valued float spellings >= 2^53."""
    k = r.random()
    if k < 0.25:
        m = r.choice([1, 1, 2, 3, 5, 7, 9, 11, 123])
        e = r.randint(16, 80) if m == 1 else r.randint(16, 60)
        return f'{m}{r.choice("eE")}{r.choice(["", "+"])}{e}'
    if k < 0.5:
        nd = r.randint(2, 12)
        D = rdigits(r, nd)
        e = r.randint(17 + nd, 60)
        return f'{D[0]}.{D[1:]}{r.choice("eE")}{e}'
    if k < 0.75:
        # 2^53 + odd etc. written with a point or exponent
        v = (1 << r.randint(53, 90)) + r.choice([1, 1, 3, 5, r.getrandbits(20) | 1])
        return r.choice([lambda s: s + '.0', lambda s: s + '.', lambda s: s + 'e0', lambda s: s[:-3] + '.' + s[-3:] + 'e3',
                         lambda s: s + '0' * 0 + 'E+0', lambda s: underscored(r, s, 1.0) + '.0'])(str(v))
    nd = r.randint(17, 40)
    return rdigits(r, nd) + r.choice(['e', 'E']) + str(r.randint(1, 12))


def gen_extreme(r):
    """Huge / tiny decimal exponents, both inside and beyond the binary64 range."""
    k = r.random()
    nd = r.choice([1, 1, 2, 5, 17, 20])
    D = rdigits(r, nd)
    if k < 0.35:
        ex = r.randint(309, 420)
    elif k < 0.7:
        ex = -r.randint(324 + nd, 420)
    elif k < 0.8:
        ex = r.choice([r.randint(290, 308), -r.randint(300, 323)])
    elif k < 0.9:
        # positional notation with hundreds of zeros
        if r.random() < 0.5:
            return '0.' + '0' * r.randint(320, 400) + D
        return D + '0' * r.randint(305, 400) + r.choice(['.', '.0', 'e0'])
    else:
        ex = r.choice([308, 309, -323, -324, -325, 400, -400])
        D = r.choice(['1', '1', '2', '4', '5', '17976931348623157', '17976931348623159', '24703282292062327', '24703282292062328', '49'])
    mant = D if len(D) == 1 or r.random() < 0.4 else D[0] + '.' + D[1:]
    return f'{mant}{r.choice("eeE")}{"+" if ex > 0 and r.random() < 0.3 else ""}{ex}'


def grid_point(r, m, named_wide):
    """(g, ulp): a positive member g of the format and the distance to the next member above."""
    if m.p is None:
        ulp = pow2(m.nmin + 1)
        k = r.choice([r.randint(0, 8), r.randint(0, 200), r.randint(0, 1 << 20), (1 << r.randint(50, 60)) + r.randint(0, 7)])
        return k * ulp, ulp
    if m.pos_max is not None:
        emax = floor_log2(m.pos_max)
        emin_sub = m.nmin + 1
        if named_wide:
            e = r.choice([r.randint(-12, 12), r.randint(-30, 75), r.randint(50, 70), emax, emin_sub + r.randint(0, m.p)])
        else:
            e = r.randint(emin_sub, emax)
    else:
        e = r.choice([r.randint(-6, 6), r.randint(-12, 12), r.randint(52, 75), r.randint(-40, 40)])
    ns = e - m.p if m.nmin is None else max(m.nmin, e - m.p)
    ulp = pow2(ns + 1)
    lo = max(1, int(pow2(e) / ulp))
    hi = max(lo, int(pow2(e + 1) / ulp) - 1)
    k = r.choice([lo, hi, r.randint(lo, hi), r.randint(lo, hi)])
    g = k * ulp
    if m.pos_max is not None and g > m.pos_max:
        g = m.pos_max
    return g, ulp


def gen_boundary(r, fam):
    """Exact decimal expansion of a member / midpoint / overflow threshold of the family, +- 10^-k."""
    _, m = build_ctx([fam[0], list(fam[1]), 'RNE'])
    wide = fam[0] == 'ieee' and fam[1][1] >= 32
    g, ulp = grid_point(r, m, wide)
    where = r.choice(['mid', 'mid', 'mid', 'member', 'member', 'max'])
    if where == 'max' and m.pos_max is not None:
        top = pow2(floor_log2(m.pos_max) - m.p + 1)
        b = m.pos_max + r.choice([top / 2, top / 2, top, 0])
        ulp = top
    elif where == 'member':
        b = g
    else:
        b = g + ulp / 2
    if b == 0:
        b = ulp / 2
    # 10^-k strictly smaller than ulp/2; mostly far below binary64 resolution of b
    k0 = 0
    while Fraction(1, 10 ** k0) >= ulp / 2:
        k0 += 1
    pick = r.random()
    if pick < 0.2:
        q = b
    else:
        k = k0 + r.choice([0, 1, 2, r.randint(3, 12), r.randint(12, 30), r.randint(17, 45), r.randint(17, 45)])
        dlt = Fraction(r.choice([1, 1, 1, 2, 5, 9]), 10 ** k)
        q = b + dlt if r.random() < 0.5 else b - dlt
        if q <= 0:
            q = b + dlt
    N, n = dec_parts(q)
    return render(r, N, n, us=0.08)


ZERO_ATOMS = ['0', '0.0', '0e5', '.0', '0.', '00', '0_0', '0.000', '0e-400', '0E+400', '0.0e0', '00.00', '0x0', '0b0',
              'fp.rational(0, 5)', 'fp.rational(0, -3)', 'fp.digits(0, 3, 10)', 'fp.digits(0, -2, 2)',
              "fp.hexfloat('0x0p0')", "fp.hexfloat('0x0.0p-3')", "fp.hexfloat('-0x0p0')", "fp.hexfloat('-0x0.00p+9')", "fp.hexfloat('+0x0')"]
ZERO_SIGNS = ['-', '-', '-', '-', '', '+', '--', '-(-', '+-', '-+', '- ', '-(', '---', '-(+']


def close_parens(prefix):
    return ')' * prefix.count('(')


def gen_zero(r):
    a = r.choice(ZERO_ATOMS)
    s = r.choice(ZERO_SIGNS)
    return s + a + close_parens(s)


def gen_hexfloat(r, core=True):
    sign = r.choice(['', '', '', '-', '+'])
    ni = r.choice([1, 1, 1, 2, 4, r.randint(1, 20)])
    nf = r.choice([0, 0, 1, 5, 13, 13, 14, 20, r.randint(1, 30)])
    ip = ''.join(r.choice('0123456789abcdef') for _ in range(ni))
    if r.random() < 0.6:
        ip = '1' + ip[1:]
    fr = ''.join(r.choice('0123456789abcdef') for _ in range(nf))
    ex = r.choice([0, 1, -1, 3, r.randint(-30, 30), r.randint(-1100, 1100), r.randint(-3000, 3000), -1074, -1075, 1023, 1024])
    body = f'{sign}0x{ip}' + (f'.{fr}' if nf else '')
    if not (r.random() < 0.1):
        body += f'p{r.choice(["", "+"]) if ex >= 0 else ""}{ex}'
    if not core:
        v = r.randint(0, 5)
        if v == 0:
            body = body.replace('0x', '0X')
        elif v == 1:
            body = body.replace('p', 'P')
        elif v == 2:
            body = body.upper().replace('0X', '0x').replace('P', 'p') if any(c in 'abcdef' for c in body[3:]) else body.replace('0x', '0X')
        elif v == 3:
            body = f'{sign}0x.{fr or "8"}p{ex}'
        elif v == 4:
            body = f'{sign}0x{ip}.p{ex}'
        else:
            body = ' ' + body + ' '
    q = r.choice("'\"")
    return f'fp.hexfloat({q}{body}{q})'


def sint(r, v):
    s = str(abs(v))
    if r.random() < 0.1:
        s = underscored(r, s, 1.0)
    if v < 0:
        return '-' + s
    return ('+' if r.random() < 0.05 else '') + s


def gen_rational(r):
    k = r.random()
    nb = r.choice([3, 8, 20, 64, 130])
    p = r.getrandbits(nb) + (0 if r.random() < 0.05 else 1)
    q = r.getrandbits(r.choice([3, 8, 20, 64, 130])) + 1
    if k < 0.3:
        q = 1 << r.randint(0, 80)                     # dyadic
    elif k < 0.45:
        g = r.choice([2, 3, 6, 10, 1 << 20, 7 ** 5, r.getrandbits(40) + 2])
        p, q = p * g, q * g                           # non-reduced
    elif k < 0.5:
        q = 10 ** r.randint(1, 30)
    if r.random() < 0.35:
        p = -p
    if r.random() < 0.35:
        q = -q
    sp = r.choice([' ', '', ' ', '  '])
    return f'fp.rational({sint(r, p)},{sp}{sint(r, q)})'


def gen_digits(r):
    b = r.choice([2, 2, 3, 10, 10, 16, 5, 7])
    k = r.random()
    if k < 0.15:
        e = r.choice([-1, 1]) * r.randint(100, 420 if b in (2, 10) else 150)
    else:
        e = r.randint(-60, 60)
    m = r.getrandbits(r.choice([1, 4, 10, 30, 64, 100]))
    if r.random() < 0.05:
        m = 0
    if r.random() < 0.4:
        m = -m
    return f'fp.digits({sint(r, m)}, {sint(r, e)}, {sint(r, b)})'


SIGN_PREFIXES = [('', 58), ('-', 26), ('+', 7), ('- ', 2), ('-(', 2), ('--', 1), ('-+', 1), ('+-', 1), ('-(-', 1), ('(', 1)]


def with_sign(r, atom):
    tot = sum(w for _, w in SIGN_PREFIXES)
    k = r.randrange(tot)
    for s, w in SIGN_PREFIXES:
        if k < w:
            break
        k -= w
    return s + atom + close_parens(s)


ZERO_CLUSTER = ['-0.0', '0.0', '-0', '0', 'fp.rational(0, 5)', 'fp.rational(0, 7)', "fp.hexfloat('0x0p+0')",
                "fp.hexfloat('-0x0p+0')", "fp.hexfloat('0x0.0p3')", 'fp.digits(0, 0, 2)', 'fp.digits(0, 3, 10)', '-0.00', '-0e5']


def gen_batch(r, fam, size):
    """-> (exprs, metas): batchable expressions (each denotes a number)."""
    plan = [(gen_int, 6, []), (gen_decimal, 8, []), (gen_long, 5, []), (gen_bigint_float, 5, []), (gen_extreme, 6, []),
            (None, 14, ['boundary-directed']), (gen_zero, 3, []), (gen_hexfloat, 2, []), (gen_rational, 2, []), (gen_digits, 2, [])]
    tot = sum(w for _, w, _ in plan)
    exprs, metas = [], []
    for _ in range(size):
        k = r.randrange(tot)
        for g, w, meta in plan:
            if k < w:
                break
            k -= w
        if g is None:
            f2 = fam
            if r.random() < 0.15:
                f2 = r.choice([('ieee', (11, 64)), ('ieee', (8, 32))])
            atom = gen_boundary(r, f2)
        else:
            atom = g(r)
        e = atom if g is gen_zero else with_sign(r, atom)
        exprs.append(e)
        metas.append(list(meta))
    if r.random() < 0.5:
        # zeros of both signs in several spelling families inside one function (they are equal as numbers, so
        # anything that pools or memoises constants by value confuses them)
        for z in r.sample(ZERO_CLUSTER, r.randint(3, 5)):
            k = r.randrange(len(exprs) + 1)
            exprs.insert(k, z)
            metas.insert(k, ['zero-cluster'])
    return exprs, metas


def gen_singles(r):
    """Expressions evaluated one per function: may legitimately be rejected."""
    out = []
    out.append(gen_hexfloat(r, core=False))
    out.append(gen_hexfloat(r, core=False))
    p = r.getrandbits(r.choice([1, 8, 70])) * r.choice([1, -1])
    out.append(f'fp.rational({sint(r, p)}, {r.choice(["0", "-0", "00", "0x0", "+0"])})')
    out.append(f'fp.digits({sint(r, r.randint(-9, 9))}, {sint(r, -r.randint(1, 5))}, 0)')
    out.append(f'fp.digits({sint(r, r.randint(-9, 9))}, {sint(r, r.randint(0, 5))}, 0)')
    out.append(f'fp.rational(-0, {sint(r, r.randint(1, 99))})')
    out.append(f'fp.digits(-0, {sint(r, r.randint(-5, 5))}, {r.choice([2, 10])})')
    out.append(f'fp.digits({sint(r, r.randint(1, 99))}, -0, {r.choice([2, 10])})')
    out.append(f'fp.digits({sint(r, r.randint(-99, 99))}, {sint(r, r.randint(-6, 6))}, {r.choice([1, -1, -2, -10])})')
    return out


# ---------------------------------------------------------------------------

def shards(tier, seed):
    T = tier == 'thorough'
    n = 192 if T else 48
    per = 30 if T else 5
    return [('gen', i, per, seed, tier) for i in range(n)]


def run_gen(res, i, per, seed, tier):
    for j in range(per):
        r = random.Random(h64(seed, 'C06', i, j))
        fam = FAMILIES[(i * 7 + j) % len(FAMILIES)]
        famspec = lambda rm: [fam[0], list(fam[1]), rm]
        exprs, metas = gen_batch(r, fam, 50)
        rms = r.sample(list(MODES), 4)
        other = r.choice(FAMILIES)
        lay = lambda: r.randrange(LAYOUTS)
        # (a) REAL: declared on the decorator, and supplied at the call
        check_batch(res, exprs, metas, 'bare', 'REAL', 'deco', lay())
        check_batch(res, exprs, metas, 'bare', 'REAL', 'call', lay())
        check_batch(res, exprs, metas, 'round', 'REAL', r.choice(['deco', 'call']), lay())
        # (b) narrow contexts: fp.round(<lit>) must be the exact value rounded once
        check_batch(res, exprs, metas, 'round', famspec(rms[0]), 'call', lay())
        check_batch(res, exprs, metas, 'round', famspec(rms[1]), 'deco', lay())
        check_batch(res, exprs, metas, 'round', famspec(rms[2]), 'call', lay())
        check_batch(res, exprs, metas, 'round', [other[0], list(other[1]), rms[3]], 'call', lay())
        check_batch(res, exprs, metas, 'round', None, 'call', lay())
        # bare literal under a non-REAL context: exact or rounded once
        check_batch(res, exprs, metas, 'bare', famspec(rms[3]), r.choice(['deco', 'call']), lay())
        check_batch(res, exprs, metas, 'bare', None, 'call', lay())
        # one per function: spellings that may be rejected
        for e in gen_singles(r):
            for mode, spec, via in (('bare', 'REAL', 'deco'), ('round', famspec(rms[0]), 'call')):
                check_batch(res, [e], [['single']], mode, spec, via, 0)


def run_shard(shard):
    res = Result()
    _, i, per, seed, tier = shard
    run_gen(res, i, per, seed, tier)
    return res


def replay(case):
    res = Result()
    exprs = case['exprs']
    check_batch(res, exprs, [[] for _ in exprs], case['mode'], case['ctx'], case['via'], case.get('layout', 0))
    return [f for fl in res.failures.values() for f in fl]


# ---------------------------------------------------------------------------

def selftest():
    Fr = Fraction
    # hand-computed readings
    table = {
        '1e23': Fr(10 ** 23), '0.1': Fr(1, 10), '.5E-1': Fr(1, 20), '1_0.2_5': Fr(41, 4), '1e-400': Fr(1, 10 ** 400),
        '1.': Fr(1), '007.50': Fr(15, 2), '1E+0_2': Fr(100), '0x1F': Fr(31), '0b101': Fr(5), '0o17': Fr(15), '1_000': Fr(1000),
        '12345678901234567890.5': Fr(24691357802469135781, 2), '9007199254740993.0': Fr(2 ** 53 + 1),
        '-0.25': Fr(-1, 4), '--3': Fr(3), '-(2.5)': Fr(-5, 2), '+ 4': Fr(4),
        "fp.hexfloat('0x1.8p3')": Fr(12), "fp.hexfloat('-0x.8P1')": Fr(-1), "fp.hexfloat('0X1.p-2')": Fr(1, 4), "fp.hexfloat('0x10')": Fr(16),
        "fp.hexfloat('0x1.921fb54442d18p+1')": Fr(0x1921fb54442d18, 2 ** 51),
        'fp.rational(6, -4)': Fr(-3, 2), 'fp.rational(-1_0, 4)': Fr(-5, 2), 'fp.digits(3, -2, 2)': Fr(3, 4), 'fp.digits(-3, 2, 10)': Fr(-300),
        'fp.digits(1, -3, 16)': Fr(1, 4096), 'fp.digits(5, 0, 7)': Fr(5),
    }
    for text, want in table.items():
        got = exact_value(read(text))
        assert got == want, (text, got, want)
    zeros = {'0': PZERO, '-0': NZERO, '-0.0': NZERO, '-0e5': NZERO, '--0': PZERO, '-(-0.0)': PZERO, '+-0': NZERO, '-+0': NZERO,
             "fp.hexfloat('-0x0p0')": NZERO, "-fp.hexfloat('-0x0p0')": PZERO, 'fp.rational(0, -3)': PZERO, '-fp.digits(0, 3, 10)': NZERO,
             '---0.': NZERO}
    for text, want in zeros.items():
        got = exact_value(read(text))
        assert got == want, (text, got, want)
    assert leaf(read('fp.rational(1, 0)'))[2] is None and leaf(read('fp.digits(1, -1, 0)'))[2] is None
    # to_double against hand-known values (no float() involved): 1e23, 2^53+1, 0.1
    assert to_double(Fr(10 ** 23)) == Fr(99999999999999991611392)
    assert to_double(Fr(2 ** 53 + 1)) == Fr(2 ** 53)
    assert to_double(Fr(1, 10)) == Fr(3602879701896397, 2 ** 55)
    assert to_double(Fr(10 ** 400)) == PINF and to_double(Fr(1, 10 ** 400)) == PZERO
    # generator/tokeniser agreement with a third reading (fractions.Fraction's own string parser) on generated spellings
    r = random.Random(12345)
    for k in range(400):
        N = int(rdigits(r, r.randint(1, 30)))
        n = r.randint(0, 40)
        text = render(r, N, n)
        kind, v, j, info = py_number(text)
        assert j == len(text), text
        assert v == Fr(N, 10 ** n), (text, v, N, n)
        plain = text.replace('_', '')
        if plain.endswith('.') or '.e' in plain.lower():
            plain = plain.replace('.', '.0', 1)
        assert Fr(plain) == v, (text, plain)
    for k in range(200):
        e = gen_hexfloat(r, core=True)
        t = read(e)
        body = leaf(t)[3]['text']
        assert leaf(t)[3]['core'], e
        m, ex = body.replace('+', '').split('p') if 'p' in body else (body.replace('+', ''), '0')
        neg = m.startswith('-')
        m = m.lstrip('-')[2:]
        ip, _, fr = m.partition('.')
        want = Fr(int(ip + fr, 16)) * pow2(int(ex) - 4 * len(fr))
        got = leaf(t)[2]
        assert (got in (PZERO, NZERO) and want == 0) or got == (-want if neg else want), e
    # every generator yields text the reader accepts, and dec_parts/render round-trip boundary values
    for fam in FAMILIES:
        for k in range(20):
            t = read(gen_boundary(r, fam))
    for g in (gen_int, gen_decimal, gen_long, gen_bigint_float, gen_extreme, gen_zero, gen_rational, gen_digits):
        for k in range(60):
            read(with_sign(r, g(r)))
    for k in range(20):
        for e in gen_singles(r):
            read(e)
    # contexts: named contexts equal their IEEE constructor form
    for fam in FAMILIES:
        build_ctx([fam[0], list(fam[1]), 'RTZ'])
