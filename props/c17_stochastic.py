"""
C17 — Stochastic rounding picks a neighbour with the exact probability.

The random source of a stochastic context is replaced, through the public `rng=` constructor
parameter, by a `random.Random` subclass whose `getrandbits(k)` returns a scripted value and
records every call.  Feeding each of the 2^k values in turn enumerates the whole distribution
of one rounding, so the probability of rounding away from zero is *counted*, not sampled.

Oracle (independent of fpy2): exact `Fraction` arithmetic and `vlib.oracle_round`
(`neighbours` for lo/hi, `round_real` to round frac*2^k to an integer under the base mode).
"""

from __future__ import annotations

import random
from dataclasses import replace as _dc_replace
from fractions import Fraction

import fpy2 as fp
from fpy2.number import Float, RealFloat

from vlib import formats as F
from vlib import oracle_round as OR
from vlib.denote import NAN, NINF, NZERO, PINF, PZERO, den, pow2, show, to_float_obj
from vlib.oracle_round import MODES, floor_log2, member, neighbours, round_real
from vlib.runner import Result, h64

PROPERTY = 'C17'
LEVEL = 'exploration'
RULE = ('Small contexts of every family taking num_randbits (MP/MPS/MPB float, EFloat, IEEE, MP/MPB/Fixed/SM fixed) '
        'x 8 base modes x k in {1,2,3,4,6,None} (thorough: also 8, and 10 on every other configuration). Operands: for each selected gap between adjacent '
        'representable magnitudes (all subnormal gaps incl. (0,minsub), the gaps on both sides of 2^emin, the last gaps '
        'below maxval, a seeded sample of the rest; both signs) the positions j/2^(k+2) of the gap (all j for k<=3, '
        'boundary-biased subset above), both endpoints, non-dyadic positions ((j+1/3)/2^(k+2), ties of the extended '
        'grid +-tiny) passed as Fraction, zeros, and positions in the first gap above maxval; carriers Float / RealFloat / '
        'redundant Float / Fraction in rotation. For every operand ALL 2^k scripted draws are executed (and a second '
        'time in reverse order for every operand when k<=2, every 3rd for k in {3,4,None}, every 8th above). Op-level: fp.ops.add/mul/div of operand pairs whose exact result has up to '
        '10 significant bits, under the same scripted contexts. Non-trivial = operand (or exact op result) in range, '
        'not representable, and either frac*2^k is not an integer (base mode decides the count), or the gap is '
        'subnormal / the last one below maxval; distinct by (context incl. mode and k, sub-check, operand), which '
        'the enumeration never repeats.')
ASSUMPTIONS = [
    'Only the COUNT of draws that round away from zero is specified; which individual draws do is not checked.',
    'k=None ("all bits"): the number of bits k\' requested from the generator for an operand is taken from the single '
    'recorded call; the count must be frac*2^k\' exactly and frac*2^k\' must be an integer (all bits used).',
    'k=None with a non-dyadic operand needs infinitely many bits: outside the quantifier, skipped (counted).',
    'Zero and NaN/infinite operands: value checked (unchanged / C01 oracle), number of draws only recorded '
    '(the statement demands one draw only for finite non-zero operands; the code draws none).',
    'Operands whose upper neighbour exceeds the largest value of their sign: result must be the lower neighbour (if a '
    'member) or an overflow outcome permitted for the base mode, RTZ or RAZ (set); counts are not checked; '
    'one draw is still required.',
    'Flags are not checked here (C01/C02 do).',
]
EXHAUSTIVE = {'quick': False, 'thorough': False}
FLOORS = {'t=2^k (ext rounds onto hi)': 0.005, 't=0 (ext rounds onto lo)': 0.005, 'subnormal': 0.03, 'topgap': 0.005,
          'negative': 0.2, 'representable': 0.01, 'above-max': 0.0005, 'nondyadic': 0.03, 'op': 0.005, 'zero': 0.0005,
          'base-mode-matters': 0.1, 'tie-ext': 0.02}

K_QUICK = (1, 2, 3, 4, 6, None)
K_THOROUGH = (1, 2, 3, 4, 6, 8, 10, None)
MAX_ALLBITS = 12          # k' above this under k=None is not enumerated (generator never produces such operands)


# ---------------------------------------------------------------------------
# scripted generator

class ScriptedRandom(random.Random):
    """random.Random whose getrandbits(k) returns `value` and records `k`."""
    value = 0
    calls: list = []

    def __init__(self):
        super().__init__(0)
        self.value = 0
        self.calls = []

    def getrandbits(self, k):
        self.calls.append(k)
        return self.value

    # any other source of randomness would be an undocumented side channel
    def random(self):                                   # pragma: no cover
        self.calls.append('random()')
        return 0.0


# ---------------------------------------------------------------------------
# oracle

def t_of(frac: Fraction, k: int, mode: str, neg: bool) -> int:
    """The number of draws (out of 2^k) that must round away from zero: frac*2^k rounded to an
    integer under the base mode (directed modes see the operand's sign)."""
    v = frac * (1 << k)
    if v.denominator == 1:
        return int(v)
    r, _, _ = round_real(-v if neg else v, None, -1, mode)
    return int(abs(r))


def signed_zero(m, neg):
    return NZERO if (neg and m.has_neg_zero) else PZERO


def sgn(v: Fraction, neg: bool, m):
    if v == 0:
        return signed_zero(m, neg)
    return -v if neg else v


def limit(m, neg):
    """Largest magnitude of the given sign (None = unbounded)."""
    if m.pos_max is None:
        return None
    return -m.neg_max if neg else m.pos_max


def overflow_set(m, x: Fraction, lo: Fraction, hi: Fraction, neg: bool):
    """(values, raises) permitted when the upper neighbour is out of range: either neighbour, each
    replaced by its overflow outcome (under the base mode, RTZ or RAZ) when it is out of range."""
    vals, rz = set(), set()
    for g in (lo, hi):
        if member(m, sgn(g, neg, m)):
            vals.add(sgn(g, neg, m))
            continue
        r = -g if neg else g
        for rm in (m.rm, 'RTZ', 'RAZ'):
            o = OR._overflow_outcome(_dc_replace(m, rm=rm), x, r, neg, False)
            vals |= set(o.values)
            rz |= set(o.raises)
    return vals, rz


# ---------------------------------------------------------------------------
# configuration space

def config_space(tier):
    """List of (kind, args, kwargs-without-rm) — every entry a distinct format/overflow choice."""
    T = tier == 'thorough'
    out = []
    # MPFloat
    for p in ((1, 2, 3, 4, 6) if T else (1, 2, 3)):
        out.append(('mp', (p,), {}))
    # MPSFloat
    for p, emin in (((1, 0), (2, -1), (3, 0), (3, -2), (4, 1), (5, -3)) if T else ((1, 0), (2, -1), (3, 0), (3, -2))):
        out.append(('mps', (p, emin), {}))
    # MPBFloat: full top binade / partly occupied / single value; OVERFLOW + SATURATE
    mpb = [(2, -1, 2), (3, 0, 2), (3, -1, 1)] + ([(4, -2, 2), (1, 0, 3)] if T else [])
    for i, (p, emin, span) in enumerate(mpb):
        emax = emin + span
        full = (pow2(p) - 1) * pow2(emax - p + 1)
        part = (pow2(p - 1) + 1) * pow2(emax - p + 1) if p >= 2 else full
        mvs = [full, part, pow2(emax)]
        mv = mvs[i % 3]
        for ov in ('OVERFLOW', 'SATURATE'):
            out.append(('mpb', (p, emin, mv), dict(overflow=ov)))
        if T:
            for mv2 in mvs:
                if mv2 != mv:
                    out.append(('mpb', (p, emin, mv2), dict(overflow='OVERFLOW')))
    out.append(('mpb', (3, 0, Fraction(7)), dict(overflow='OVERFLOW', neg_maxval=Fraction(-5))))
    # EFloat (es, nbits, enable_inf, nan_kind, eoffset)
    ef = [(2, 4, False, 3, 0), (2, 5, True, 1, 0), (3, 5, False, 2, -1), (0, 3, False, 3, 0), (1, 4, True, 0, 1)]
    if T:
        ef += [(4, 8, False, 1, 0), (3, 6, False, 3, 0), (2, 6, True, 2, 2), (5, 8, True, 0, 0)]
    for a in ef:
        out.append(('efloat', a, dict(overflow='OVERFLOW')))
    out.append(('efloat', ef[0], dict(overflow='SATURATE')))
    # IEEE
    for es, nb in (((2, 4), (2, 5), (3, 5), (3, 6), (4, 8), (5, 8), (5, 16)) if T else ((2, 4), (2, 5), (3, 6))):
        out.append(('ieee', (es, nb), dict(overflow='OVERFLOW')))
    out.append(('ieee', (2, 5), dict(overflow='SATURATE')))
    # MPFixed
    for nmin in ((-4, -3, -1, 0, 2) if T else (-3, -1, 1)):
        out.append(('mpfixed', (nmin,), {}))
    out.append(('mpfixed', (-1,), dict(enable_neg_zero=False)))
    # MPBFixed
    for nmin, kmax in (((-3, 5), (-1, 7), (1, 3), (0, 12)) if T else ((-3, 5), (0, 7))):
        ulp = pow2(nmin + 1)
        for ov in ('OVERFLOW', 'SATURATE', 'WRAP'):
            out.append(('mpbfixed', (nmin, kmax * ulp), dict(overflow=ov)))
    out.append(('mpbfixed', (-2, Fraction(5, 2)), dict(overflow='WRAP', neg_maxval=Fraction(-1), enable_neg_zero=False)))
    # Fixed (signed, scale, nbits)
    fx = [(True, 0, 3), (False, -2, 3), (True, 1, 4), (False, 0, 2)] + ([(True, -3, 6), (False, 2, 5)] if T else [])
    for a in fx:
        out.append(('fixed', a, dict(overflow='WRAP')))
    out.append(('fixed', fx[0], dict(overflow='SATURATE')))
    out.append(('fixed', fx[1], dict(overflow='OVERFLOW', inf_value='MAX')))
    # SMFixed (scale, nbits)
    for a in (((0, 3), (-2, 4), (1, 3), (-1, 6)) if T else ((0, 3), (-2, 4))):
        out.append(('smfixed', a, dict(overflow='WRAP')))
    out.append(('smfixed', (0, 3), dict(overflow='SATURATE')))
    # sanity: no duplicates (distinctness of non-trivial cases relies on it)
    keys = [repr(c) for c in out]
    assert len(set(keys)) == len(keys)
    return out


# representative configurations for the op-level sub-check (indices are looked up by value)
def op_configs(tier):
    sp = config_space(tier)
    want = {'mp': 2, 'mps': 2, 'mpb': 1, 'efloat': 1, 'ieee': 1, 'mpfixed': 1, 'mpbfixed': 1, 'fixed': 1, 'smfixed': 1}
    if tier == 'thorough':
        want = {k: v + 1 for k, v in want.items()}
    out = []
    for i, c in enumerate(sp):
        if want.get(c[0], 0) > 0:
            want[c[0]] -= 1
            out.append(i)
    return out


def shards(tier, seed):
    sp = config_space(tier)
    ks = K_THOROUGH if tier == 'thorough' else K_QUICK
    out = []
    for i in range(len(sp)):
        for k in ks:
            if k is not None and k >= 10 and i % 2:
                continue                      # 1024 draws per operand: every other configuration only
            out.append(('round', i, k, tier, seed))
    for i in op_configs(tier):
        for k in ((1, 2, 3, 4, None) if tier == 'thorough' else (1, 3, None)):
            out.append(('op', i, k, tier, seed))
    # heavy shards first so the pool drains evenly
    out.sort(key=lambda s: -(s[2] if s[2] is not None else 5))
    return out


def _resolve(kind, args, kw):
    """Replace the 'MAX' placeholder by the format's largest value."""
    if kw.get('inf_value') == 'MAX':
        base = {k: v for k, v in kw.items() if k != 'inf_value'}
        _, m0 = F.build((kind, args, dict(base, rm='RNE')))
        kw = dict(kw, inf_value=m0.pos_max)
    return kw


def build(kind, args, kw, rm, k, rng):
    kw = _resolve(kind, args, kw)
    return F.build((kind, tuple(args), dict(kw, rm=rm, num_randbits=k, rng=rng)))


def label_of(kind, args, kw, rm, k):
    kw = _resolve(kind, args, kw)
    return [kind, [show(a) if isinstance(a, Fraction) else a for a in args],
            {a: (show(v) if isinstance(v, Fraction) else v) for a, v in dict(kw, rm=rm).items()}, k]


# ---------------------------------------------------------------------------
# gaps and operands

def side_grid(m, neg, tier):
    """Ascending magnitudes 0 = g0 < g1 < ... of the representable values of one sign inside the
    window; for bounded formats the list ends at the largest magnitude of that sign."""
    lim = limit(m, neg)
    if m.p is None:
        ulp = pow2(m.nmin + 1)
        if lim is not None:
            n = int(lim / ulp)
            return [i * ulp for i in range(0, n + 1)]
        idx = list(range(0, 7)) + [37, 38, 39] + [1 << 20, (1 << 20) + 1]
        return [i * ulp for i in idx]           # not contiguous: gaps are taken between ADJACENT grid points only
    if m.nmin is not None:
        lo_e = m.nmin + 1
    else:
        lo_e = -2
    if lim is not None:
        if lim == 0:
            return [Fraction(0)]
        hi_e = floor_log2(lim) + 1
    elif m.nmin is not None:
        hi_e = m.nmin + 1 + m.p + 2                  # subnormals + two normal binades (+ far binade below)
    else:
        hi_e = lo_e + 2
    g = F.grid_points(m, lo_e, hi_e)
    if lim is not None:
        g = [x for x in g if x <= lim]
    else:
        g.append(pow2(hi_e))
        # one far-away binade start (wide exponent)
        e = hi_e + 40
        g.append(pow2(e))
        g.append(pow2(e) + pow2(e - m.p + 1))
    return [Fraction(0)] + g if m.nmin is not None else g


def gaps_of(m, neg, tier, rnd, k=1):
    """Selected gaps [(lo, hi, classes)] between adjacent representable magnitudes of one sign."""
    g = side_grid(m, neg, tier)
    lim = limit(m, neg)
    allg = []
    for a, b in zip(g, g[1:]):
        # adjacent? (the list may have holes for unbounded formats)
        probe = (a + b) / 2
        lo, hi = neighbours(probe, m.p, m.nmin)
        if (lo, hi) != (a, b):
            continue
        cl = []
        if m.p is not None and m.nmin is not None and b <= pow2(m.nmin + m.p):
            cl.append('subnormal')
        if m.p is not None and m.nmin is not None and a == pow2(m.nmin + m.p):
            cl.append('above-2^emin')
        if lim is not None and b == lim:
            cl.append('topgap')
        if m.p is not None and b == pow2(floor_log2(b)) and a != 0 and 'subnormal' not in cl:
            cl.append('binade-end')
        allg.append((a, b, cl))
    if lim is None and allg:
        allg[-1][2].append('far')                  # wide exponent / large integer part, unbounded formats only
    big = k is not None and k >= 6
    cap = (40 if not big else (16 if k == 6 else (6 if k == 8 else 4))) if tier == 'thorough' else 14
    if len(allg) <= cap:
        return allg
    must = [x for x in allg if x[2] and 'binade-end' not in x[2]]
    rest = [x for x in allg if not (x[2] and 'binade-end' not in x[2])]
    if len(must) > cap - 2:
        # always: (0, minsub), the gaps on both sides of 2^emin, the last gap below maxval; then other subnormal gaps, evenly
        two_emin = pow2(m.nmin + m.p) if (m.p is not None and m.nmin is not None) else None
        top = [x for x in must if x[0] == 0 or 'topgap' in x[2] or 'above-2^emin' in x[2] or 'far' in x[2] or x[1] == two_emin]
        other = [x for x in must if x not in top]
        n_other = max(0, cap - 2 - len(top))
        step = max(1, len(other) // n_other) if n_other else 0
        must = top + (other[::step][:n_other] if n_other else [])
    room = max(2, cap - len(must))
    pick = sorted(rnd.sample(range(len(rest)), min(room, len(rest))))
    sel = must + [rest[i] for i in pick]
    sel.sort(key=lambda x: x[0])
    return sel


def positions(k, tier, rnd):
    """Numerators j of the positions j/2^(k+2) inside a gap (0 < j < 2^(k+2))."""
    d = k + 2
    n = 1 << d
    if k <= 3:
        return list(range(1, n))
    w = 9 if k <= 4 else 6
    keep = set(range(1, w + 1)) | set(range(n - w, n)) | set(range(n // 2 - 2, n // 2 + 3))
    # around a few interior extended-grid points: j = 4u, 4u +- 1, 4u + 2 (tie)
    T = tier == 'thorough'
    for _ in range((6 if k <= 6 else 3) if T else (3 if k <= 4 else 2)):
        u = rnd.randrange(1, 1 << k)
        keep |= {4 * u - 2, 4 * u - 1, 4 * u, 4 * u + 1, 4 * u + 2}
    for _ in range((12 if k <= 6 else 4) if T else 3):
        keep.add(rnd.randrange(1, n))
    return sorted(j for j in keep if 0 < j < n)


def operands_for_gap(k, tier, rnd):
    """Fractions of the gap (0 < f < 1), list of (f, tag)."""
    out = []
    if k is None:
        if tier == 'thorough':
            js = set(range(1, 32))
        else:
            js = set(range(2, 32, 2)) | {1, 31, 15, 17} | {2 * rnd.randrange(0, 16) + 1 for _ in range(4)}
        for j in sorted(js):
            out.append((Fraction(j, 32), 'dyadic'))
        if tier == 'thorough':
            for j in (1, 3, 127, 255, 129):
                out.append((Fraction(j, 256), 'dyadic'))
        return out
    d = k + 2
    for j in positions(k, tier, rnd):
        out.append((Fraction(j, 1 << d), 'dyadic'))
    # non-dyadic positions (travel through the MPFR round-to-odd conversion with round_params())
    n = 1 << d
    js = {0, 1, n - 1, n - 2, rnd.randrange(0, n), rnd.randrange(0, n)}
    for j in sorted(js):
        out.append(((Fraction(j) + Fraction(1, 3)) / n, 'nondyadic'))
    tiny = Fraction(1, 3 * (1 << (k + 12)))
    us = {0, (1 << k) - 1, rnd.randrange(0, 1 << k)}
    for u in sorted(us):
        tie = (Fraction(u) + Fraction(1, 2)) / (1 << k)
        out.append((tie - tiny, 'nondyadic'))
        out.append((tie + tiny, 'nondyadic'))
    return out


def minimal_float(q: Fraction) -> Float:
    """Float with an odd significand (largest possible exponent) denoting the dyadic q != 0."""
    f = to_float_obj(q)
    c, exp = f.c, f.exp
    tz = (c & -c).bit_length() - 1
    return Float(s=f.s, c=c >> tz, exp=exp + tz)


def carrier(q: Fraction, idx: int, k=0):
    """(name, object) for a finite non-zero rational."""
    if not F.dyadic(q):
        return 'Fraction', Fraction(q)
    f = minimal_float(q)
    c = idx % 5
    if k is None and abs(q) >= (1 << 20):
        c = 0       # "all bits" counts from the carrier's exponent: an int/Fraction carrier would ask for > 2^12 draws
    if c in (0, 3):
        return 'Float', f
    if c == 1:
        return 'RealFloat', RealFloat(s=f.s, c=f.c, exp=f.exp)
    if c == 2:
        return 'Fraction', Fraction(q)
    return 'Float*8', Float(s=f.s, c=f.c << 3, exp=f.exp - 3)


def carrier_by_name(q: Fraction, name: str):
    if name == 'Fraction':
        return Fraction(q)
    f = minimal_float(q)
    if name == 'Float':
        return f
    if name == 'RealFloat':
        return RealFloat(s=f.s, c=f.c, exp=f.exp)
    if name == 'Float*8':
        return Float(s=f.s, c=f.c << 3, exp=f.exp - 3)
    raise ValueError(name)


# ---------------------------------------------------------------------------
# the check of one operand under one context: all draws

CONTRACT_EXC = (ValueError, OverflowError)


def run_draws(rng, k_ctx, thunk, res, both_orders=True):
    """Executes thunk() for every scripted draw.  Returns (k_used, results, problems) where
    results[v] = denotation | ('raised', name) and problems is a list of (bucket, detail)."""
    problems = []
    # first draw: learn how many bits are requested
    def one(v):
        rng.value = v
        rng.calls = []
        try:
            r = thunk()
        except CONTRACT_EXC as e:
            return ('raised', type(e).__name__), list(rng.calls)
        except Exception as e:                      # unexpected exception type: a failure, not a harness error
            return ('raised!', type(e).__name__), list(rng.calls)
        if not isinstance(r, Float):
            return ('notfloat', repr(r)), list(rng.calls)
        return den(r), list(rng.calls)

    r0, calls0 = one(0)
    if k_ctx is None:
        if len(calls0) == 1 and isinstance(calls0[0], int) and 0 <= calls0[0] <= MAX_ALLBITS:
            k_used = calls0[0]
        elif len(calls0) == 1 and isinstance(calls0[0], int) and calls0[0] > MAX_ALLBITS:
            # legitimate (the carrier's exponent is far below the rounding position) but not enumerable
            res.skip('k=None: more than 2^12 draws requested, not enumerated')
            return None, {0: r0}, [], [calls0]
        else:
            return None, {0: r0}, [('draws', f'k=None: calls={calls0}')], [calls0]
    else:
        k_used = k_ctx
    results = {0: r0}
    calls = [calls0]
    for v in range(1, 1 << k_used):
        r, c = one(v)
        results[v] = r
        calls.append(c)
    if both_orders:
        for v in range((1 << k_used) - 1, -1, -1):
            r, c = one(v)
            res.count('roundings_2nd_pass')
            if r != results[v]:
                problems.append(('nondeterministic', f'draw {v}: {show_r(results[v])} then {show_r(r)}'))
                break
            if c != calls[v]:
                problems.append(('nondeterministic draws', f'draw {v}: calls {calls[v]} then {c}'))
                break
    res.count('roundings', 1 << k_used)
    return k_used, results, problems, calls


def show_r(r):
    return show(r) if not isinstance(r, tuple) else f'{r[0]} {r[1]}'


def check_value(res: Result, m, rng, k_ctx, label, case, x, thunk, nt_extra=(), classes=(), count_nt=True,
                both_orders=True):
    """x: exact finite value (Fraction, non-zero) that is being rounded by thunk() under the
    context mirrored by m (base mode m.rm) with k_ctx random bits.  All draws."""
    res.case()
    neg = x < 0
    a = -x if neg else x
    lo, hi = neighbours(a, m.p, m.nmin)
    lim = limit(m, neg)
    cl = list(classes)
    if neg:
        cl.append('negative')
    out = run_draws(rng, k_ctx, thunk, res, both_orders)
    k_used, results, problems, calls = out
    fails = []                       # (bucket, expected, got)
    for b, d in problems:
        fails.append((b, None, d))

    def finish(nt):
        for c in cl:
            res.cls(c)
        if nt and count_nt:
            res.nontrivial()
        if res.evaluations % 1499 == 1:
            res.sample(dict(case, classes=cl), nt=bool(nt))
        for b, e, g in fails:
            res.fail(b, case, expected=e, got=g)

    if k_used is None:
        finish(False)
        return

    # --- draw accounting: exactly one call with the context's k per rounding of a finite non-zero operand
    for v, c in enumerate(calls):
        if len(c) != 1:
            fails.append((f'draws/{len(c)} call(s) per rounding', 'exactly one getrandbits call', f'draw {v}: calls={c}'))
            break
        if c[0] != k_used:
            fails.append(('draws/wrong k', f'getrandbits({k_used})', f'draw {v}: calls={c}'))
            break

    above = lim is not None and hi > lim
    if above:
        # membership only
        cl.append('above-max')
        vals, rz = overflow_set(m, x, lo, hi, neg)
        for v, r in results.items():
            if isinstance(r, tuple):
                if r[0] == 'raised' and r[1] in rz:
                    continue
                fails.append((f'above-max/{r[0]} {r[1]}', {'values': sorted(map(show, vals)), 'raises': sorted(rz)}, f'draw {v}: {show_r(r)}'))
                break
            if r not in vals:
                fails.append(('above-max/not a neighbour or overflow outcome', {'values': sorted(map(show, vals)), 'raises': sorted(rz)},
                              f'draw {v}: {show_r(r)}'))
                break
        finish(False)
        return

    # --- in range: nothing may raise
    for v, r in results.items():
        if isinstance(r, tuple):
            fails.append((f'in-range/{r[0]} {r[1]}', 'a value', f'draw {v}: {show_r(r)}'))
            finish(False)
            return

    if lo == hi:
        cl.append('representable')
        bad = [(v, r) for v, r in results.items() if r != x]
        if bad:
            fails.append(('representable operand changed', show(x), f'draw {bad[0][0]}: {show_r(bad[0][1])} ({len(bad)} of {len(results)} draws)'))
        finish(False)
        return

    # --- unrepresentable, both neighbours in range
    gap = hi - lo
    frac = (a - lo) / gap
    vlo, vhi = sgn(lo, neg, m), sgn(hi, neg, m)
    ups = 0
    for v, r in results.items():
        if r == vhi:
            ups += 1
        elif r != vlo:
            fails.append(('result is not a neighbour', [show(vlo), show(vhi)], f'draw {v}: {show_r(r)}'))
            finish(True)
            return
    N = 1 << k_used
    scaled = frac * N
    if k_ctx is None and scaled.denominator != 1:
        fails.append(('k=None does not use all bits', f'k\' with frac*2^k\' integral (frac={show(frac)})', f'k\'={k_used}'))
    t = t_of(frac, k_used, m.rm, neg)
    if scaled.denominator != 1:
        cl.append('base-mode-matters')
        if (scaled * 2).denominator == 1:
            cl.append('tie-ext')
    if t == N:
        tc = 't=2^k (ext rounds onto hi)'
    elif t == 0:
        tc = 't=0 (ext rounds onto lo)'
    else:
        tc = 'interior'
    if scaled.denominator != 1 and t in (0, N):
        cl.append(tc)
    cl.append(f'k={k_ctx}')
    if ups != t:
        bias = abs(Fraction(ups, N) - frac)
        within = 'bias<=2^-k gap' if bias <= Fraction(1, N) else 'bias>2^-k gap'
        # root-cause signature: where the k-digit-extended value lands decides which code path chose the direction
        which = tc if (scaled.denominator != 1 and t in (0, N)) else 'ext value strictly between the neighbours'
        fails.append((f'count of away-from-zero draws/{which}',
                      {'t': t, 'of': N, 'frac': show(frac), 'lo': show(vlo), 'hi': show(vhi)},
                      {'ups': ups, 'bias_in_gaps': show(Fraction(ups, N) - frac), 'bound': within}))
    nt = scaled.denominator != 1 or 'subnormal' in cl or 'topgap' in cl
    finish(nt)


def check_zero_special(res, ctx, m, rng, k_ctx, label):
    """Zeros (representable => unchanged) and NaN/infinities (C01 oracle); draws only recorded."""
    for cname, obj, d in F.special_carriers():
        if cname not in ('Float+0', 'Float-0', 'RealFloat-0', 'int0', 'float-0', 'Fraction0', 'Float+inf', 'Float-inf', 'FloatNaN'):
            continue
        o = OR.expect(m, d)
        o.inexact = o.overflow = None          # flags are not this property's business
        res.case()
        zero = d in (PZERO, NZERO)
        res.cls('zero' if zero else 'special')
        case = {'sub': 'round', 'ctx': label, 'carrier': cname, 'operand': d}
        seen = set()
        for v in sorted({0, 1, (1 << (k_ctx or 1)) - 1}):
            rng.value = v
            rng.calls = []
            try:
                r = ctx.round(obj)
                got = den(r)
                why = OR.check_outcome(o, got)
            except CONTRACT_EXC as e:
                got = f'raised {type(e).__name__}'
                why = OR.check_outcome(o, raised=type(e).__name__)
            res.count('roundings')
            seen.add(got if isinstance(got, str) else show(got))
            res.count(f'draws on {"zero" if zero else "special"} operand: {len(rng.calls)}')
            if why is not None:
                res.fail(('zero operand changed' if zero else 'special operand') + f'/{why}', case,
                         expected={'values': sorted(map(show, o.values)), 'raises': sorted(o.raises)}, got=f'draw {v}: {got}')
                break
        if len(seen) > 1 and zero:
            res.fail('zero operand depends on draw', case, expected='one value', got=sorted(seen))


# ---------------------------------------------------------------------------
# shard bodies

def plan_operands(m, k, tier, rnd):
    """Operand list of one (format, k): [(x, carrier name, object, classes, second pass?)] and the number of
    non-dyadic operands left out under k=None.  Does not depend on the rounding mode."""
    every = 1 if (k is not None and k <= 2) else (3 if (k is None or k <= 4) else 8)      # second (reverse-order) pass
    plan, skipped = [], 0
    oi = 0
    for neg in (False, True):
        gl = gaps_of(m, neg, tier, rnd, k)
        lim = limit(m, neg)
        seen = set()
        for lo, hi, gcl in gl:
            gap = hi - lo
            fr = operands_for_gap(k, tier, rnd)
            pts = [(lo + f * gap, tag) for f, tag in fr]
            # both endpoints (representable)
            for e in (lo, hi):
                if e != 0:
                    pts.append((e, 'endpoint'))
            for a, tag in pts:
                if a in seen:
                    continue
                seen.add(a)
                if tag == 'nondyadic' and k is None:
                    skipped += 1
                    continue
                x = -a if neg else a
                oi += 1
                cname, obj = carrier(x, oi, k)
                cl = list(gcl)
                if tag == 'nondyadic':
                    cl.append('nondyadic')
                plan.append((x, cname, obj, cl, oi % every == 0))
        # first gap above the largest value of this sign, and far above: membership only
        if lim is not None:
            probe = lim + (pow2(m.nmin + 1) if m.p is None else (pow2(floor_log2(lim) - m.p + 1) if lim > 0 else pow2(m.nmin + 1))) / 2
            plo, phi = neighbours(probe, m.p, m.nmin)
            gap = phi - plo
            tops = [plo + gap * f for f in (Fraction(1, 4), Fraction(1, 2), Fraction(3, 4), Fraction(7, 8) + Fraction(1, 3 * 64))]
            tops.append(phi)                                   # representable on the unbounded grid but out of range
            tops.append((lim if lim > 0 else gap) * 5 + gap / 4)
            for a in tops:
                if k is None and not F.dyadic(a):
                    continue
                x = -a if neg else a
                oi += 1
                cname, obj = carrier(x, oi, k)
                plan.append((x, cname, obj, [], oi % every == 0))
    return plan, skipped


def run_round_shard(res: Result, idx, k, tier, seed):
    kind, args, kw = config_space(tier)[idx]
    plan = None
    for rm in MODES:
        rng = ScriptedRandom()
        try:
            ctx, m = build(kind, args, kw, rm, k, rng)
        except (ValueError, TypeError) as e:
            raise RuntimeError(f'configuration rejected: {kind} {args} {kw} {rm} k={k}: {e}')
        label = label_of(kind, args, kw, rm, k)
        res.count('contexts')
        if plan is None:
            # same operands for every mode (the grid does not depend on the mode)
            plan, skipped = plan_operands(m, k, tier, random.Random(h64(seed, 'C17', idx, k, 'ops')))
        if skipped:
            res.skip('k=None with non-dyadic operand (needs infinitely many bits)', skipped)
        for x, cname, obj, cl, second in plan:
            case = {'sub': 'round', 'ctx': label, 'carrier': cname, 'operand': show(x)}
            check_value(res, m, rng, k, label, case, x, (lambda o=obj: ctx.round(o)), classes=cl, both_orders=second)
        check_zero_special(res, ctx, m, rng, k, label)


OPS = {'add': (fp.ops.add, lambda a, b: a + b), 'mul': (fp.ops.mul, lambda a, b: a * b),
       'div': (fp.ops.div, lambda a, b: a / b)}


def op_scales(m):
    """Powers of two s such that values in [s, 4s) are interesting for the format."""
    out = []
    if m.p is None:
        ulp = pow2(m.nmin + 1)
        out.append(ulp)                 # results within the first few gaps
        if m.pos_max is None or m.pos_max >= 16 * ulp:
            out.append(4 * ulp)
        return out
    if m.nmin is not None:
        emin = m.nmin + m.p
        out.append(pow2(emin - 2))      # [2^(emin-2), 2^emin): subnormal results
        out.append(pow2(emin))
        if m.pos_max is not None and m.pos_max >= pow2(emin + 2):
            top = pow2(floor_log2(m.pos_max) - 1)      # results reach the top binade and beyond
            if top not in out:
                out.append(top)
    else:
        out.append(Fraction(1))
        out.append(pow2(-37))
    return out


def run_op_shard(res: Result, idx, k, tier, seed):
    kind, args, kw = config_space(tier)[idx]
    rnd = random.Random(h64(seed, 'C17', idx, k, 'oppairs'))
    A = [Fraction(16 + i, 16) for i in range(16)]
    npairs = 40 if tier == 'thorough' else 14
    pairs = []
    for _ in range(npairs):
        pairs.append((rnd.choice(A), rnd.choice(A)))
    pairs += [(Fraction(1), Fraction(1)), (Fraction(31, 16), Fraction(31, 16)), (Fraction(17, 16), Fraction(17, 16))]
    for rm in MODES:
        rng = ScriptedRandom()
        ctx, m = build(kind, args, kw, rm, k, rng)
        label = label_of(kind, args, kw, rm, k)
        res.count('contexts')
        seen = set()
        for s in op_scales(m):
            for (pa, pb) in pairs:
                for opname in ('add', 'mul', 'div'):
                    for neg in (False, True):
                        if opname == 'add':
                            a, b = pa * s, pb * s / 8
                            if neg:
                                a, b = -a, -b
                        elif opname == 'mul':
                            a, b = pa * s, pb
                            if neg:
                                b = -b
                        else:
                            a, b = pa * s * 2, pb + 2                                  # divisor 3.x: non-dyadic quotient
                            if k is None:
                                b = Fraction(4)                                        # keep the quotient dyadic
                            if neg:
                                a = -a
                        key = (opname, a, b)
                        if key in seen:
                            continue
                        seen.add(key)
                        fn, exact = OPS[opname]
                        q = exact(a, b)
                        if q == 0:
                            continue
                        if k is None and not F.dyadic(q):
                            res.skip('k=None with non-dyadic operand (needs infinitely many bits)')
                            continue
                        if k is None:
                            # the number of bits requested grows with the result's length: keep it enumerable
                            lo, hi = neighbours(abs(q), m.p, m.nmin)
                            if lo != hi and ((abs(q) - lo) / (hi - lo)).denominator > (1 << MAX_ALLBITS):
                                res.skip('k=None op result needs more than 2^12 draws')
                                continue
                        fa, fb = to_float_obj(a), to_float_obj(b)
                        case = {'sub': 'op', 'ctx': label, 'op': opname, 'a': show(a), 'b': show(b)}
                        cl = ['op', f'op:{opname}']
                        if not F.dyadic(q):
                            cl.append('nondyadic')
                        if m.p is not None and m.nmin is not None and abs(q) < pow2(m.nmin + m.p):
                            cl.append('subnormal')
                        check_value(res, m, rng, k, label, case, q, (lambda fn=fn, fa=fa, fb=fb: fn(fa, fb, ctx=ctx)),
                                    classes=cl, both_orders=(len(seen) % 3 == 0))


def run_shard(shard):
    res = Result()
    sub, idx, k, tier, seed = shard
    if sub == 'round':
        run_round_shard(res, idx, k, tier, seed)
    else:
        run_op_shard(res, idx, k, tier, seed)
    return res


# ---------------------------------------------------------------------------

def selftest():
    # t: frac*2^k rounded to an integer by the base mode
    f = Fraction
    assert t_of(f(27, 32), 1, 'RNE', False) == 2 and t_of(f(27, 32), 1, 'RTZ', False) == 1
    assert t_of(f(3, 4), 1, 'RNE', False) == 2 and t_of(f(1, 4), 1, 'RNE', False) == 0      # ties to even
    assert t_of(f(1, 4), 1, 'RNA', False) == 1 and t_of(f(1, 4), 1, 'RTO', False) == 1 and t_of(f(1, 4), 1, 'RTE', False) == 0
    assert t_of(f(3, 4), 1, 'RTO', False) == 1 and t_of(f(3, 4), 1, 'RTE', False) == 2
    assert t_of(f(1, 8), 1, 'RTP', False) == 1 and t_of(f(1, 8), 1, 'RTP', True) == 0
    assert t_of(f(1, 8), 1, 'RTN', False) == 0 and t_of(f(1, 8), 1, 'RTN', True) == 1
    assert t_of(f(1, 8), 1, 'RAZ', True) == 1 and t_of(f(7, 8), 1, 'RTZ', True) == 1
    assert t_of(f(5, 8), 3, 'RNE', False) == 5 and t_of(f(1, 3), 2, 'RNE', False) == 1 and t_of(f(1, 3), 0, 'RAZ', False) == 1
    # for every mode the count is one of the two integers around frac*2^k  => |E - x| <= gap*2^-k
    for mode in MODES:
        for neg in (False, True):
            for k in (1, 3):
                for j in range(0, 1 << (k + 3)):
                    fr = f(j, 1 << (k + 3))
                    t = t_of(fr, k, mode, neg)
                    assert abs(f(t, 1 << k) - fr) < f(1, 1 << k) or fr * (1 << k) == t
    # the scripted generator is a random.Random, records, and returns the script
    r = ScriptedRandom()
    assert isinstance(r, random.Random)
    r.value = 5
    assert r.getrandbits(3) == 5 and r.getrandbits(7) == 5 and r.calls == [3, 7]
    # it reaches the rounding code through the public parameter
    ctx, m = build('mp', (3,), {}, 'RTZ', 2, r)
    assert ctx.rng is r and ctx.num_randbits == 2
    # neighbours
    assert neighbours(f(5, 8), 2, -3) == (f(1, 2), f(3, 4)) and neighbours(f(1, 16), 3, -3) == (0, f(1, 4))


# ---------------------------------------------------------------------------

def _unshow(v):
    if isinstance(v, str):
        if v in (NAN, PINF, NINF, PZERO, NZERO) or v in MODES or v in F.OV:
            return v
        try:
            return Fraction(v)
        except ValueError:
            return v
    return v


def replay(case):
    res = Result()
    kind, args, kw, k = case['ctx']
    args = tuple(_unshow(a) if isinstance(a, str) else a for a in args)
    kw = {a: _unshow(v) for a, v in kw.items()}
    rm = kw.pop('rm')
    rng = ScriptedRandom()
    ctx, m = F.build((kind, args, dict(kw, rm=rm, num_randbits=k, rng=rng)))
    label = case['ctx']
    if case['sub'] == 'round':
        d = _unshow(case['operand'])
        if not isinstance(d, Fraction):
            check_zero_special(res, ctx, m, rng, k, label)
        else:
            obj = carrier_by_name(d, case['carrier'])
            check_value(res, m, rng, k, label, case, d, (lambda: ctx.round(obj)), count_nt=False)
    else:
        a, b = Fraction(case['a']), Fraction(case['b'])
        fn, exact = OPS[case['op']]
        fa, fb = to_float_obj(a), to_float_obj(b)
        check_value(res, m, rng, k, label, case, exact(a, b), (lambda: fn(fa, fb, ctx=ctx)), count_nt=False)
    return [f for fl in res.failures.values() for f in fl]
