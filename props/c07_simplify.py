"""
C07 — simplify never changes what a program returns.

Generated FPy source text (vlib.c07_gen: vlib.progen extended with copy/redefinition, context-dependent
constants, dead stores, stores through list aliases, helper calls, shadowing) is loaded through the real
`@fp.fpy` decorator; every program is rewritten by ConstFold / CopyPropagate / DeadCodeEliminate alone,
in each of the 6 orders, and by `fpy2.strategies.simplify` under switch combinations.  Oracle: differential,
`f(*args, ctx=c)` vs `T(f)(*args, ctx=c)` compared by denotation (sign of zero, NaN, inf, bools, list/tuple
structure) on every input on which the original returns.

Non-termination of `simplify` is decided soundly: the harness re-runs simplify's own loop pass by pass and
reports `simplify/diverges` when the program after an iteration is structurally equal (`is_equiv`) to the
program after an earlier iteration while some pass still reported a change -- the passes are deterministic
functions of the program, so the real loop can never exit.  Watchdog expiry alone is only "inconclusive".
"""

from __future__ import annotations

import ast as pyast
import hashlib
import itertools

import fpy2 as fp
from fpy2.ast import fpyast
from fpy2.ast.visitor import DefaultVisitor
from fpy2.function import Function
from fpy2.strategies import simplify
from fpy2.transform import ConstFold, CopyPropagate, DeadCodeEliminate

from vlib import c07_gen, difftest, progen
from vlib.difftest import decode_args, encode_args
from vlib.load import load_module, unload
from vlib.runner import Result, h64

PROPERTY = 'C07'
LEVEL = 'exploration'
RULE = ('Programs: vlib.c07_gen (progen + idioms: copy then redefinition of source/target straight, in branches, loops, by for/'
        'comprehension targets; constants computed under statically known contexts/modes incl. nested contexts, captured '
        'globals, phi merges of constants incl. +0/-0, loop-carried constants, constant conditions; dead stores incl. '
        'indexed reads, tuple leaves, helper calls; stores through list aliases incl. via mutating helpers; shadowed '
        'globals) plus hand-parameterised templates per shape; 0-2 helpers.  Transforms: each pass alone (ConstFold also '
        'with enable_context/enable_op off), the 6 orders of the three passes, simplify under enable_* masks (all 32 in '
        'thorough, the full mask + sampled ones in quick).  Each (program, transform) runs on 5 argument tuples (specials, '
        'zeros of both signs, non-representable values) with and without a caller context.  Non-trivial = the transformed '
        'AST differs from the original (not is_equiv) AND the program has a copy whose source/target is redefined, a '
        'constant computed under a statically known context, a store through a list alias, or a dead store, AND the '
        'original returns on the input; distinct by (source hash, transform id, input index).')
ASSUMPTIONS = [
    'Differential oracle: the unmodified program run by the same interpreter is the reference (the property is relative by definition).',
    'Inputs on which the original raises (failed assert, bad index, sqrt under REAL, ...) are out of scope and counted.',
    'A transform raising at transform time is counted as `refuses` (not a violation of this property).',
    'Divergence: deterministic passes + a repeated (is_equiv) program state with changed=True => the real loop never exits; '
    'the iteration cap (64) and the SIGALRM watchdog only ever yield "inconclusive" skips.',
    'A transformed AST that is is_equiv to the original (or to an already evaluated result for the same program) is not re-executed.',
]
EXHAUSTIVE = {'quick': False, 'thorough': False}
FLOORS = {'ast-changed': 0.3, 'tag:copy-redef': 0.05, 'tag:ctx-const': 0.05, 'tag:alias-store': 0.05, 'tag:dead-store': 0.05,
          'returned': 0.5}

N_INPUTS = 5
ITER_CAP = 64
N_TMPL_SHARDS = 6

PASS = {'F': ConstFold, 'P': CopyPropagate, 'D': DeadCodeEliminate}
PASS_NAME = {'F': 'constfold', 'P': 'copyprop', 'D': 'dce'}
NT_TAGS = {'copy-redef', 'ctx-const', 'alias-store', 'dead-store'}

# Buckets of open findings without an accepted fix are excluded by construction here (bucket -> predicate on static facts).
EXCLUDED: dict = {}


# ---------------------------------------------------------------------------
# transform space

def step(code, ast):
    """One application of one pass: (new_ast, changed).  code: 'F' | 'F-ctx' | 'F-op' | 'P' | 'D'."""
    if code == 'F':
        return ConstFold.apply_with_status(ast)
    if code == 'F-ctx':
        return ConstFold.apply_with_status(ast, enable_context=False)
    if code == 'F-op':
        return ConstFold.apply_with_status(ast, enable_op=False)
    if code == 'F-none':
        return ConstFold.apply_with_status(ast, enable_context=False, enable_op=False)
    if code == 'P':
        return CopyPropagate.apply_with_status(ast)
    if code == 'D':
        return DeadCodeEliminate.apply_with_status(ast)
    raise ValueError(code)


def mask_kwargs(mask: str):
    b = [c == '1' for c in mask]
    return dict(enable_const_fold=b[0], enable_const_fold_context=b[1], enable_const_fold_op=b[2],
                enable_copy_prop=b[3], enable_dead_code_elim=b[4])


def mask_steps(mask: str):
    """The pass applications of one iteration of simplify's loop under `mask`."""
    b = [c == '1' for c in mask]
    out = []
    if b[0]:
        out.append('F' if (b[1] and b[2]) else 'F-ctx' if b[2] else 'F-op' if b[1] else 'F-none')
    if b[3]:
        out.append('P')
    if b[4]:
        out.append('D')
    return out


def all_transforms():
    ts = ['pass:F', 'pass:F-ctx', 'pass:F-op', 'pass:P', 'pass:D']
    ts += ['order:' + ''.join(p) for p in itertools.permutations('FPD')]
    ts += ['simplify:' + format(m, '05b') for m in range(32)]
    return ts


def sample_transforms(ch, tier):
    if tier == 'thorough':
        return all_transforms()
    orders = ['order:' + ''.join(p) for p in itertools.permutations('FPD')]
    masks = [format(m, '05b') for m in range(32) if m != 31 and mask_steps(format(m, '05b'))]
    i = ch.int(0, len(orders) - 1)
    j = (i + ch.int(1, len(orders) - 1)) % len(orders)
    ts = ['pass:F', 'pass:P', 'pass:D', ch.choice(['pass:F-ctx', 'pass:F-op']), orders[i], orders[j], 'simplify:11111']
    a = ch.int(0, len(masks) - 1)
    b = (a + ch.int(1, len(masks) - 1)) % len(masks)
    ts += ['simplify:' + masks[a], 'simplify:' + masks[b]]
    return ts


def replica_simplify(ast, mask):
    """simplify's fixed-point loop, re-run pass by pass with state memoisation.
    ('fixpoint', ast, trace) | ('diverges', iteration, pass_code, trace) | ('cap', trace)
    trace: list of (pass_code, ast_after) in application order."""
    steps = mask_steps(mask)
    seen = [(ast.format(), ast)]
    trace = []
    for it in range(ITER_CAP):
        changed = False
        last_changed = None
        for code in steps:
            ast, c = step(code, ast)
            trace.append((code, ast))
            if c:
                changed = True
                last_changed = code
        if not changed:
            return ('fixpoint', ast, trace)
        text = ast.format()
        for t, a in seen:
            if t == text and a.is_equiv(ast):
                return ('diverges', it, last_changed, trace)
        seen.append((text, ast))
    return ('cap', trace)


def apply_transform(f: Function, tid: str):
    """-> ('ok', Function, trace) | ('refuses', Exc, msg) | ('timeout',) | ('diverges', it, pass, trace) | ('cap',)
    trace = [(pass_code, ast_after)] used to localise a failure to one pass application."""
    kind, arg = tid.split(':')
    trace = []

    def T(fn):
        ast = fn.ast
        if kind == 'pass':
            ast, _ = step(arg, ast)
            trace.append((arg, ast))
            return fn.with_ast(ast)
        if kind == 'order':
            for code in arg:
                ast, _ = step(code, ast)
                trace.append((code, ast))
            return fn.with_ast(ast)
        raise ValueError(tid)

    if kind in ('pass', 'order'):
        st = difftest.transform(f, T)
        return st + (trace,) if st[0] == 'ok' else st
    # simplify: first the sound divergence decision, then the real thing
    st = difftest.transform(f, lambda fn: replica_simplify(fn.ast, arg))
    if st[0] != 'ok':
        return st
    rep = st[1]
    if rep[0] == 'diverges':
        return rep
    if rep[0] == 'cap':
        return ('cap',)
    st = difftest.transform(f, lambda fn: simplify(fn, **mask_kwargs(arg)))
    if st[0] != 'ok':
        return st
    g = st[1]
    return ('ok', g, rep[2], g.ast.is_equiv(rep[1]))


# ---------------------------------------------------------------------------
# static tags of a program (Python `ast` of the source text; independent of fpy2's analyses)

def static_tags(src: str):
    tags = set()
    try:
        mod = pyast.parse(src)
    except SyntaxError:
        return tags
    glob = {t.id for n in mod.body if isinstance(n, pyast.Assign) for t in n.targets if isinstance(t, pyast.Name)} | {'fp'}
    for fn in mod.body:
        if not isinstance(fn, pyast.FunctionDef):
            continue
        stores, loads, sub_stores, call_args = {}, set(), set(), set()
        for n in pyast.walk(fn):
            if isinstance(n, pyast.Name):
                if isinstance(n.ctx, pyast.Store):
                    stores.setdefault(n.id, []).append(n.lineno)
                else:
                    loads.add(n.id)
            if isinstance(n, pyast.Subscript) and isinstance(n.ctx, pyast.Store) and isinstance(n.value, pyast.Name):
                sub_stores.add(n.value.id)
            if isinstance(n, pyast.Call) and isinstance(n.func, pyast.Name):
                for a in n.args:
                    if isinstance(a, pyast.Name):
                        call_args.add(a.id)
        loops = [(n.lineno, n.end_lineno) for n in pyast.walk(fn) if isinstance(n, (pyast.For, pyast.While))]
        params = {a.arg for a in fn.args.args}
        for n in pyast.walk(fn):
            if isinstance(n, pyast.Assign) and len(n.targets) == 1 and isinstance(n.targets[0], pyast.Name) and isinstance(n.value, pyast.Name):
                y, x = n.targets[0].id, n.value.id
                for v in (x, y):
                    for ln in stores.get(v, []):
                        inloop = any(lo <= n.lineno <= hi and lo <= ln <= hi for lo, hi in loops)
                        if (ln > n.lineno or inloop) and not (v == y and ln == n.lineno):
                            tags.add('copy-redef')
                if x in sub_stores or y in sub_stores or x in call_args or y in call_args:
                    tags.add('alias-store')
        for v, lns in stores.items():
            if v not in loads and v not in sub_stores and v != '_':
                tags.add('dead-store')
        # constants under a statically known context
        declared = any(isinstance(d, pyast.Call) and any(k.arg == 'ctx' for k in d.keywords) for d in fn.decorator_list)
        consts = set(glob)

        def is_const(e):
            ops = False
            for m in pyast.walk(e):
                if isinstance(m, pyast.Name) and m.id not in consts:
                    return False, False
                if isinstance(m, (pyast.Subscript, pyast.ListComp, pyast.List)):
                    return False, False
                if isinstance(m, (pyast.BinOp, pyast.Call, pyast.Compare)):
                    ops = True
            return True, ops

        def scan(body, known):
            for s in body:
                if isinstance(s, pyast.With):
                    scan(s.body, True)
                elif isinstance(s, pyast.Assign) and len(s.targets) == 1 and isinstance(s.targets[0], pyast.Name):
                    c, ops = is_const(s.value)
                    if c and len(stores.get(s.targets[0].id, [])) == 1 and s.targets[0].id not in params:
                        consts.add(s.targets[0].id)
                    if c and ops and known:
                        tags.add('ctx-const')
                for fld in ('body', 'orelse'):
                    sub = getattr(s, fld, None)
                    if sub and not isinstance(s, pyast.With):
                        scan(sub, known)
        scan(fn.body, declared)
    return tags


# ---------------------------------------------------------------------------
# facts about an fpy AST, used only to name the root cause of an observed failure

class _Facts(DefaultVisitor):
    def __init__(self):
        self.indexed_assign = 0
        self.user_calls = 0
        self.copies = []            # (target, source)
        self.bindings = {}          # name -> number of binding sites
        self.for_targets = set()
        self.const_while = 0        # while statements whose condition is a literal boolean
        self.stmts = 0

    def bind(self, target):
        for n in target.names():
            self.bindings[str(n)] = self.bindings.get(str(n), 0) + 1

    def _visit_call(self, e, ctx):
        if isinstance(e.fn, Function):
            self.user_calls += 1
        super()._visit_call(e, ctx)

    def _visit_list_comp(self, e, ctx):
        for t in e.targets:
            self.bind(t)
        super()._visit_list_comp(e, ctx)

    def _visit_assign(self, stmt, ctx):
        self.stmts += 1
        self.bind(stmt.target)
        if isinstance(stmt.target, fpyast.NamedId) and isinstance(stmt.expr, fpyast.Var):
            self.copies.append((str(stmt.target), str(stmt.expr.name)))
        super()._visit_assign(stmt, ctx)

    def _visit_indexed_assign(self, stmt, ctx):
        self.stmts += 1
        self.indexed_assign += 1
        super()._visit_indexed_assign(stmt, ctx)

    def _visit_while(self, stmt, ctx):
        if isinstance(stmt.cond, fpyast.BoolVal):
            self.const_while += 1
        super()._visit_while(stmt, ctx)

    def _visit_for(self, stmt, ctx):
        self.bind(stmt.target)
        self.for_targets |= {str(n) for n in stmt.target.names()}
        super()._visit_for(stmt, ctx)


def facts(ast):
    f = _Facts()
    f._visit_function(ast, None)
    for a in ast.args:
        if isinstance(a.name, fpyast.NamedId):
            f.bindings[str(a.name)] = f.bindings.get(str(a.name), 0) + 1
    return f


def _dce_call_detail(before):
    """Why did DCE think a call statement was removable?  (fpy2's own def-use analysis, used for naming only.)"""
    try:
        from fpy2.analysis import AssignDef, DefineUse, PhiDef
        du = DefineUse.analyze(before)
        kinds = set()
        for d in du.defs:
            if isinstance(d, AssignDef) and isinstance(d.site, fpyast.Assign) and not du.uses[d]:
                f = _Facts()
                f._visit_expr(d.site.expr, None)
                if f.user_calls:
                    kinds.add('via-unused-phi' if any(isinstance(x, PhiDef) for x in du.successors[d]) else 'deemed-pure')
        return '+'.join(sorted(kinds)) or 'unknown'
    except Exception:
        return 'unknown'


def root_cause(code, before, after, exp, got):
    """Bucket name (root-cause signature) for a failure localised to one application of pass `code` (before -> after)."""
    fb = facts(before)
    base = PASS_NAME[code[0]]
    if got[0] == 'raise':
        sym = f'raises:{got[1]}'
    elif difftest.zero_sign_only(exp, got[1]):
        sym = 'zero-sign'
    else:
        sym = 'wrong-value'
    if code[0] in 'PF' and any(fb.bindings.get(t, 0) > 1 for t in fb.for_targets):
        # a loop target re-binding an existing name: the reaching-definitions analysis both passes rely on
        return f'{base}/for-target-rebound'
    if code[0] == 'P':
        redef = any(fb.bindings.get(x, 0) > 1 or fb.bindings.get(y, 0) > 1 for y, x in fb.copies)
        return 'copyprop/source-redefined' if redef else f'copyprop/other/{sym}'
    if code[0] == 'F':
        if facts(after).const_while > fb.const_while:
            return 'constfold/while-condition-folded'
        if sym == 'zero-sign':
            return 'constfold/zero-sign'
        if fb.indexed_assign or fb.user_calls:
            return 'constfold/mutable-list'
        return f'constfold/other/{sym}'
    fa = facts(after)
    if fa.user_calls < fb.user_calls:
        return 'dce/call-removed:' + _dce_call_detail(before)
    if fa.indexed_assign < fb.indexed_assign:
        return 'dce/store-removed'
    if fa.stmts < fb.stmts and sym != 'zero-sign':
        return 'dce/live-assignment-removed'
    return f'dce/other/{sym}'


def localise(f, trace, args, ctx, orig):
    """First pass application whose output program no longer returns the original's value on this input."""
    cur = f.ast
    for code, nxt in trace:
        if nxt is not cur and not nxt.is_equiv(cur):
            o = difftest.call(f.with_ast(nxt), args, ctx)
            if o[0] == 'timeout':
                return None
            if o != orig:
                return code, cur, nxt, o
        cur = nxt
    return None


# ---------------------------------------------------------------------------

def check_program(res: Result, src, main, inputs, tids, gen_features, origin, count_program=True):
    """inputs: [(args, ctx_text)];  tids: transform ids."""
    try:
        mod = load_module(src)
    except Exception as e:
        res.skip(f'rejected:{type(e).__name__}')
        res.count('rejected')
        if res.extra.get('rejected', 0) <= 3:
            res.sample({'rejected': src, 'error': f'{type(e).__name__}: {str(e)[:300]}'})
        return
    try:
        f = getattr(mod, main)
        if count_program:
            res.count('programs')
        tags = static_tags(src)
        for t in sorted(tags):
            res.count('programs:' + t)
        sh = hashlib.blake2b(src.encode(), digest_size=8).hexdigest()
        orig = [difftest.call(f, args, ctx) for args, ctx in inputs]
        for o in orig:
            res.count('orig:' + (o[0] if o[0] != 'raise' else 'raise:' + o[1]))
        done = []        # (format text, ast, verdicts) of results already evaluated for this program
        for tid in tids:
            kind = tid.split(':')[0]
            case0 = {'src': src, 'main': main, 'transform': tid, 'origin': origin}
            st = apply_transform(f, tid)
            res.count('transforms')
            if st[0] == 'refuses':
                res.count(f'refuses:{kind}:{st[1]}')
                res.skip('refuses')
                if res.extra.get('refuses-sampled', 0) < 2:
                    res.count('refuses-sampled')
                    res.sample({'refuses': case0, 'error': f'{st[1]}: {st[2]}'})
                continue
            if st[0] == 'timeout':
                res.skip('transform-timeout-inconclusive')
                continue
            if st[0] == 'cap':
                res.skip('iteration-cap-inconclusive')
                continue
            if st[0] == 'diverges':
                res.case()
                res.cls('diverges')
                res.fail(f'simplify/diverges/{PASS_NAME[st[2][0]]}-reports-change', dict(case0, args=None, ctx=None),
                         expected='simplify reaches a fixed point',
                         got=f'state after iteration {st[1] + 1} repeats an earlier one while {PASS_NAME[st[2][0]]} reports changed=True')
                continue
            g, trace = st[1], st[2]
            if kind == 'simplify' and not st[3]:
                res.count('replica-mismatch')
            changed = difftest.ast_changed(f, g)
            res.count('transforms-changed' if changed else 'transforms-unchanged')
            if not changed:
                # identical program: nothing to execute
                res.skip('ast-unchanged', len(inputs))
                continue
            text = g.ast.format()
            if any(t == text and a.is_equiv(g.ast) for t, a in done):
                res.skip('same-result-as-earlier-transform', len(inputs))
                continue
            done.append((text, g.ast))
            for idx, v, o, n in difftest.diff_inputs(f, g, inputs, orig=orig):
                res.case()
                res.cls('ast-changed')
                res.cls('t:' + kind)
                if v == 'out-of-scope':
                    res.cls('orig-raises')
                    continue
                if v == 'inconclusive':
                    res.skip('run-timeout-inconclusive')
                    continue
                res.cls('returned')
                for t in tags:
                    res.cls('tag:' + t)
                args, ctx = inputs[idx]
                case = dict(case0, args=encode_args(args), ctx=ctx)
                if tags & NT_TAGS:
                    res.nontrivial((sh, tid, idx))
                    if res.evaluations % 997 == 0:
                        res.sample(case, nt=True)
                elif res.evaluations % 4999 == 0:
                    res.sample(case)
                if v == 'same':
                    continue
                loc = localise(f, trace, args, ctx, o)
                if loc is None:
                    bucket = 'unlocalised/' + (v[0] if isinstance(v, tuple) else str(v))
                else:
                    bucket = root_cause(loc[0], loc[1], loc[2], o[1], loc[3])
                if bucket in EXCLUDED:
                    res.skip('excluded:' + bucket)
                    continue
                res.fail(bucket, case, expected=o[1], got=(n[1] if n[0] == 'value' else f'{n[1]}: {n[2]}'))
    finally:
        unload(mod)


# ---------------------------------------------------------------------------
# targeted templates, one per shape named in the statement

RMS = ['RNE', 'RNA', 'RTP', 'RTZ', 'RAZ', 'RTN', 'RTO', 'RTE']
OPS = ['+', '-', '*']

TEMPLATES = [
    ('copy-redef-branch', '''
@fp.fpy
def main(a0, a1):
    y = a0
    if a1 > {lit}:
        a0 = a0 {op} {lit2}
    return y {op2} a0
''', ['R', 'R']),
    ('copy-redef-target', '''
@fp.fpy
def main(a0, a1):
    y = a0
    if a1 > {lit}:
        y = y {op} {lit2}
    z = y
    y = y {op2} a1
    return z {op} y
''', ['R', 'R']),
    ('copy-redef-loop', '''
@fp.fpy
def main(a0, a1):
    y = a0
    x = 0
    for i in range({n}):
        z = y
        y = y {op} {lit2}
        x = z
    return x {op2} y
''', ['R', 'R']),
    ('copy-before-loop', '''
@fp.fpy
def main(a0, a1):
    z = a0
    acc = a1
    for i in range({n}):
        acc = acc {op} z
        a0 = a0 {op2} {lit}
    return acc + a0
''', ['R', 'R']),
    ('copy-redef-while', '''
@fp.fpy
def main(a0, a1):
    with fp.FP64:
        k = {n}
        y = a0
        while k > 0:
            a0 = a0 {op} y
            k = k - 1
        return y {op2} a0
''', ['R', 'R']),
    ('copy-read-only-in-while-cond', '''
@fp.fpy
def main(a0, a1):
    with fp.FP64:
        n = {n} + 2
        bound = n
        i = 0
        acc = a0
        while i < bound:
            acc = acc {op} a1
            n = n - 1
            i = i + 1
        lim = a1
        j = 0
        while j < lim and j < 4:
            a1 = a1 {op2} {lit}
            j = j + 1
    return (acc, i, n, j, a1)
''', ['R', 'R']),
    ('dead-call-stores-through-rows', '''
@fp.fpy
def h0(p0, p1):
    rows = [r for r in p0]
    rows[0][1] = p1 {op} {lit}
    return p1

@fp.fpy
def h1(p0, p1):
    both = [p0[0], p0[1]]
    both[1][0] = p1 {op2} {lit2}
    return p1

@fp.fpy
def main(a0, a1):
    m = [[a0, {lit}], [{lit2}, a1]]
    d1 = h0(m, a1)
    d2 = h1(m, a0)
    t = (m, a1)
    return (m[0][0], m[0][1], m[1][0], m[1][1])
''', ['R', 'R']),
    ('copy-for-target', '''
@fp.fpy
def main(a0, a1):
    y = a1
    acc = 0
    for a1 in a0:
        acc = acc + y {op} a1
    return acc {op2} y
''', ['L2', 'R']),
    ('copy-comp-target', '''
@fp.fpy
def main(a0, a1):
    y = a1
    zs = [y {op} a1 for a1 in a0]
    return sum(zs) {op2} y
''', ['L2', 'R']),
    ('copy-list-rebind', '''
@fp.fpy
def main(a0, a1):
    ys = a0
    if a1 > {lit}:
        a0 = [a1, a1 {op} {lit2}]
    a0[0] = a1 {op2} 1
    return ys[0] + a0[1]
''', ['L2', 'R']),
    ('copy-chain-swap', '''
@fp.fpy
def main(a0, a1):
    t = a0
    a0 = a1
    a1 = t
    u = a0
    a0 = a0 {op} a1
    return (u, a0, a1, t)
''', ['R', 'R']),
    ('const-ctx', '''
@fp.fpy
def main(a0, a1):
    with fp.MPFloatContext({p}, fp.RM.{rm1}):
        a = {lit} / 3
        b = a {op} {lit2}
        with fp.MPFloatContext({p2}, fp.RM.{rm2}):
            c = b {op2} a
            d = fp.sqrt(c * c + 1)
        e = c {op} d
    return (a, b, c, d, e, e {op2} a0)
''', ['R', 'R']),
    ('const-declared-ctx', '''
@fp.fpy(ctx=fp.MPFloatContext({p}, fp.RM.{rm1}))
def h0(p0):
    a = {lit} / 7
    return a {op} p0

@fp.fpy
def main(a0, a1):
    with fp.IEEEContext(4, 8, fp.RM.{rm2}):
        b = {lit2} / 7
        r = h0(b)
    return (r, h0(a0), b {op2} a1)
''', ['R', 'R']),
    ('const-global-ctx', '''
SC = {lit}
CX = fp.MPFloatContext({p}, fp.RM.{rm1})

@fp.fpy
def main(a0, a1):
    with CX:
        a = SC / 3
        with fp.MPFloatContext({p2}, fp.RM.{rm2}) as c:
            b = a {op} SC
        with c:
            d = b / 7
    return (a, b, d, d {op2} a0)
''', ['R', 'R']),
    ('const-phi-zero', '''
@fp.fpy
def main(a0, a1):
    with fp.FP64:
        if a0 > {lit}:
            z = {z1}
        else:
            z = {z2}
        w = {z1}
        for i in range({n}):
            w = -w
        return (z, w, fp.copysign(1, z), fp.copysign(a1, w))
''', ['R', 'R']),
    ('const-cond', '''
@fp.fpy
def main(a0, a1):
    with fp.MPFloatContext({p}, fp.RM.{rm1}):
        a = {lit} / 3
        r = a0
        if a * 3 < {lit}:
            r = r {op} a1
        else:
            r = r {op2} a1
        s = a1 if (a * 3 == {lit}) else a0
        assert a * 3 <= {lit} or a * 3 > {lit}
        if a < a + 1:
            t = r {op} 1
        else:
            t = r {op2} 2
        if a > a + 1:
            u = t {op} 3
        else:
            u = t {op2} 4
        if 1 < 2:
            u = u * 2
    return (r, s, t, u)
''', ['R', 'R']),
    ('const-loop-carried', '''
@fp.fpy
def main(a0, a1):
    with fp.MPFloatContext({p}, fp.RM.{rm1}):
        k = {lit}
        m = {lit2}
        for i in range({n}):
            k = k / 3
            m = m * 1
        j = {lit}
        for e in a0:
            j = j {op} {lit2}
    return (k, m, j, k {op2} a1)
''', ['L2', 'R']),
    ('const-while-nested', '''
@fp.fpy
def main(a0, a1):
    with fp.FP64:
        k = 0
        acc = a1
        for i in range({n}):
            while k > 0:
                k = k - k
                acc = acc {op} a0
            k = 2
    return acc
''', ['R', 'R']),
    ('tuple-carried-loop', '''
@fp.fpy
def main(a0, a1):
    with fp.FP64:
        a = {lit}
        s = 0.0
        c = 1.0
        for i in range({n} + 1):
            (a, b) = (a + 1.0, {lit2})
            s = s {op} a * b
            t = (2.0, c {op2} a1)
            d, c = t
            s = s + c * d
        k = 2
        w = {lit}
        while k > 0:
            (w, k) = (w * 2 + 1, k - 1)
            a1 = a1 {op} w
    return (s, a, c, w, a1)
''', ['R', 'R']),
    ('tuple-argmax', '''
@fp.fpy
def hp(p0, p1):
    return (p0, p1)

@fp.fpy
def main(a0, a1):
    with fp.FP64:
        best = -1.0
        idx = -1.0
        for i, x in enumerate(a0):
            if x > best:
                (best, idx) = (x, i)
        lo = 1e3
        at = -1
        n = 0
        for i, x in enumerate(a0):
            if x < lo:
                lo, at = hp(x, i)
            else:
                (n, _) = (n + 1, x)
        m = a1
        j = 0
        for x in a0:
            if x {op} a1 >= m:
                t = (x {op} a1, j + 1)
                (m, _) = t
                (_, j) = t
    return (idx, at, n, j, best {op2} lo, m)
''', ['L2', 'R']),
    ('tuple-nested-if', '''
@fp.fpy
def main(a0, a1):
    with fp.FP64:
        a = 0.0
        b = 0.0
        if a0 > {lit}:
            if a1 > {lit2}:
                (a, b) = (a0 + a1, a0 - a1)
        c = {lit}
        d = {lit2}
        if a0 == a0:
            if a1 <= a1:
                (c, d) = (d, c {op} a0)
            else:
                (c, _) = (a1, d)
        e = 1.0
        for i in range({n} + 1):
            if a0 {op2} i > a1:
                for j in range(2):
                    (e, f) = (e * 2, j)
    return (a, b, c, d, e)
''', ['R', 'R']),
    ('dead-stores', '''
@fp.fpy
def h0(p0):
    assert p0 == p0 or fp.isnan(p0)
    return p0 {op} {lit}

@fp.fpy
def main(a0, a1):
    d1 = a0[0] {op} a1
    d2 = h0(a1)
    d3 = a0[1]
    d3 = a1 {op2} {lit2}
    p, q = (a1, a0[0])
    if a1 > {lit}:
        d4 = a1 * 2
        d5 = [a1, d4]
    ds = [a1, a1]
    ds[0] = {lit}
    return p {op} d3
''', ['L2', 'R']),
    ('dead-phi', '''
@fp.fpy
def main(a0, a1):
    x = a0 {op} {lit}
    y = x {op2} 2
    if a1 > {lit2}:
        x = {lit}
    for i in range({n}):
        x = x + 1
    return y
''', ['R', 'R']),
    ('dead-mutating-call', '''
@fp.fpy
def h0(p0, p1):
    p0[0] = p1 {op} {lit}
    return p1

@fp.fpy
def h1(p0, p1):
    qs = p0
    for i in range(1):
        qs[i] = p1 {op2} {lit2}
    return p1

@fp.fpy
def main(a0, a1):
    d1 = h0(a0, a1)
    x = {lit}
    if a1 > {lit2}:
        x = h1(a0, a1)
    d2 = h1(a0, a1)
    return (a0[0], a0[1])
''', ['L2', 'R']),
    ('alias-store-param', '''
@fp.fpy
def main(a0, a1):
    ys = a0
    t = a0[0]
    ys[0] = a1 {op} {lit}
    u = a0[0]
    zs = ys
    if a1 > {lit2}:
        zs[1] = t
    return (t {op2} u, a0[1], ys[0])
''', ['L2', 'R']),
    ('alias-store-const-list', '''
@fp.fpy
def h0(p0, p1):
    p0[0] = p1
    return p1

@fp.fpy
def main(a0, a1):
    with fp.FP64:
        xs = [{lit}, {lit2}]
        ys = xs
        t = xs[0]
        ys[0] = a0 {op} 1
        u = xs[0]
        ws = [{lit2}, {lit}]
        d = h0(ws, a1)
        cs = [1, 2, 3]
        vs = cs
        for i in range({n}):
            vs[i] = {lit}
    return (t, u, xs[1], ws[0], sum(cs), len(cs))
''', ['R', 'R']),
    ('alias-nested-list', '''
@fp.fpy
def main(a0, a1):
    xs = [a1, {lit}]
    rows = [xs, xs]
    r0 = rows[0]
    r0[0] = a1 {op} {lit2}
    t = (xs, a1)
    p, q = t
    p[1] = q {op2} 1
    return (xs[0], xs[1], rows[1][0], a0)
''', ['R', 'R']),
    ('impure-looking', '''
@fp.fpy
def main(a0, a1):
    assert len(a0) >= 2
    d = a0[1]
    if len(a0) > 5:
        e = a0[5]
    assert True
    assert 1 < 2, "never"
    a1 {op} 1
    if a1 > {lit}:
        pass
    else:
        pass
    if a1 > {lit2}:
        pass
    else:
        a1 = a1 {op2} 1
    while False:
        a1 = a1 + 1
    with fp.MPFloatContext({p}, fp.RM.{rm1}) as c:
        with fp.MPFloatContext({p2}, fp.RM.{rm2}):
            r = a1 / 3
    a1 = a1
    return r
''', ['L2', 'R']),
    ('shadow-global', '''
SC = {lit}

@fp.fpy
def h0(p0):
    return p0 {op} SC

@fp.fpy
def main(a0, a1):
    SC = a0 {op2} 1
    y = SC
    SC = SC * 2
    with fp.MPFloatContext({p}, fp.RM.{rm1}):
        z = h0({lit2}) / 3
    return (y, SC, z, h0(a1))
''', ['R', 'R']),
]

LITS = ['0', '1', '3', '0.1', '2.5', '0.3', '7', '1e-3', '100', '-0.0', '0.0']
ZEROS = [('0.0', '-0.0'), ('-0.0', '0.0'), ('0', '-0.0'), ('-0.0', '0'), ('0.0', '0.0')]


def template_cases(seed, tier):
    ch = progen.RandChooser(h64(seed, 'C07', 'tmpl'))
    n_var = 16 if tier == 'thorough' else 5
    out = []
    for name, tmpl, tys in TEMPLATES:
        for v in range(n_var):
            z1, z2 = ch.choice(ZEROS)
            src = tmpl.format(rm1=ch.choice(RMS), rm2=ch.choice(RMS), op=ch.choice(OPS), op2=ch.choice(OPS), lit=ch.choice(LITS),
                              lit2=ch.choice(LITS), n=ch.int(0, 3), p=ch.int(2, 6), p2=ch.int(2, 6), z1=z1, z2=z2).lstrip('\n')
            inputs = []
            for _ in range(8 if tier == 'thorough' else N_INPUTS):
                args = []
                for t in tys:
                    if t == 'R':
                        args.append(ch.choice(progen.R_POOL))
                    else:
                        args.append([ch.choice(progen.R_POOL) for _ in range(ch.int(2, 4))])
                inputs.append((args, ch.choice(progen.CALLER_CTXS)))
            out.append((name, src, inputs))
    return out


# ---------------------------------------------------------------------------

def shards(tier, seed):
    n_shards = 128 if tier == 'thorough' else 48
    per = 250 if tier == 'thorough' else 100
    out = [('gen', i, per, seed, tier) for i in range(n_shards)]
    out += [('base', i, per // 4, seed, tier) for i in range(8)]
    out += [('tmpl', k, seed, tier) for k in range(N_TMPL_SHARDS)]
    return out


def run_shard(shard):
    res = Result()
    kind = shard[0]
    if kind == 'tmpl':
        _, k, seed, tier = shard
        tids = all_transforms()
        for n, (name, src, inputs) in enumerate(template_cases(seed, tier)):
            if n % N_TMPL_SHARDS != k:
                continue
            check_program(res, src, 'main', inputs, tids, {'template:' + name}, 'template:' + name)
        return res
    _, i, per, seed, tier = shard
    for j in range(per):
        ch = progen.RandChooser(h64(seed, 'C07', kind, i, j))
        if kind == 'gen':
            prog = c07_gen.gen_program(ch, c07_gen.c07_profile(i))
        else:       # plain progen programs (general profile), for shapes the idioms do not produce
            p = progen.Profile()
            p.max_stmts = 5
            prog = progen.gen_program(ch, p)
        inputs = [(progen.gen_inputs(ch, prog), ch.choice(progen.CALLER_CTXS)) for _ in range(N_INPUTS)]
        check_program(res, prog.src, prog.main, inputs, sample_transforms(ch, tier), prog.features, f'{kind}:{seed}:{i}:{j}')
    return res


def replay(case):
    res = Result()
    inputs = [(decode_args(case['args']), case['ctx'])] if case.get('args') is not None else []
    check_program(res, case['src'], case['main'], inputs, [case['transform']], set(), case.get('origin', 'replay'))
    return [f for fl in res.failures.values() for f in fl]


def selftest():
    src = ('@fp.fpy\ndef main(a0, a1):\n    with fp.MPFloatContext(2, fp.RM.RTZ):\n        a = 1 / 3\n    y = a0\n    d = a1 * 2\n'
           '    return y + a\n')
    mod = load_module(src)
    try:
        f = mod.main
        # the replica of simplify's loop agrees with the real simplify, and the folded constant is 1/4 (RTZ at 2 bits)
        rep = replica_simplify(f.ast, '11111')
        assert rep[0] == 'fixpoint', rep[0]
        g = simplify(f)
        assert g.ast.is_equiv(rep[1])
        assert difftest.ast_changed(f, g)
        assert difftest.call(g, [1, 2], None) == difftest.call(f, [1, 2], None) == ('value', __import__('fractions').Fraction(5, 4))
        # the differential oracle sees a wrong rewrite, a sign-of-zero change and a raise
        bad = load_module('@fp.fpy\ndef main(a0, a1):\n    return a0 + 0.5\n')
        try:
            vs = [v for _, v, _, _ in difftest.diff_inputs(f, bad.main, [([1, 2], None)])]
            assert vs[0][0] == 'differs', vs
        finally:
            unload(bad)
        assert difftest.verdict(('value', '+0'), ('value', '-0'))[0] == 'differs'
        assert difftest.zero_sign_only(('T', '+0', 1), ('T', '-0', 1))
        assert difftest.verdict(('value', 1), ('raise', 'KeyError', ''))[0] == 'raises'
        assert difftest.verdict(('raise', 'X', ''), ('value', 1)) == 'out-of-scope'
        # a cycling state is reported as divergence, a terminating one is not
        assert 'copy-redef' in static_tags('def f(x, c):\n    y = x\n    if c:\n        x = x + 1\n    return y + x\n')
        assert 'ctx-const' in static_tags(src) and 'dead-store' in static_tags(src)
    finally:
        unload(mod)
