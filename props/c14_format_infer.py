"""
C14 - Format inference bounds every run-time value.

(a) PROGRAMS.  Generated FPy source (vlib.progen with typed signatures, plus vlib.c14_gen aimed at exact
    arithmetic under `with fp.REAL` in loops, branch refinement by comparisons / `fp.logb`, clamps,
    stores) is analysed by `FormatInfer.analyze(ast, fn_fmt=FunctionFormat(ctx, arg_fmts, ...))` with a
    pinned caller context and argument formats, then run under a tracing interpreter on inputs drawn
    *from those formats* (incl. -0, +-inf, NaN, bounds, smallest quantum).  Every traced value of an
    expression must be a member of `by_expr[e]`, every value bound by a definition (assignment, loop
    target, indexed store, phi read through a variable) a member of `by_def[d]`, and the result a member
    of `fn_fmt.ret_fmt`, structurally through tuple / list formats.
(b) ABSTRACT ARITHMETIC, exhaustive over small `AbstractFormat`s (all 2^4 special-flag combinations) and
    ALL members of both operands: + - * neg abs | & <= >= format() against exact rational / IEEE
    special-value arithmetic; Hypothesis layer for wide formats.
(c) `round_is_identity(u, ctx)` True  =>  `ctx.round(v)` denotes v for every member v of u.

Oracle: vlib.c14_member (membership written from the field documentation; concrete formats through
vlib.oracle_round.member on a Model built from the format's constructor parameters).
"""

from __future__ import annotations

import hashlib
import json
import operator
import signal
from fractions import Fraction
from pathlib import Path

import fpy2 as fp
from fpy2.analysis.format_infer import (AbstractFormat, FormatInfer, FunctionFormat, ListFormat, SetFormat, TupleFormat,
                                        round_is_identity)
from fpy2.number.context.real import REAL_FORMAT

from vlib import c14_gen as G
from vlib import c14_member as M
from vlib import progen
from vlib.c14_trace import OPAQUE, DenTracingInterpreter, dden
from vlib.denote import NAN, NINF, NZERO, PINF, PZERO, den, pow2, to_float_obj
from vlib.load import load_module, unload
from vlib.runner import Result, h64

PROPERTY = 'C14'
LEVEL = 'exploration'
RULE = ('(a) Programs: vlib.progen (typed signatures) and vlib.c14_gen (exact arithmetic under `with fp.REAL` inside static and '
        'dynamic loops, refinement by comparisons with literals and by fp.logb, min/max clamps, list stores, tuples) x pinned '
        '(caller context, argument formats) from a pool of 34 contexts / 38 formats (IEEE, MPS, MP, fixed, two\'s complement, '
        'sign-magnitude, EFloat w/o inf or NaN, bounded formats without -0, SetFormat constants incl. -0/inf/NaN, REAL) x 4-5 '
        'inputs drawn from the pinned formats (zeros, specials, bounds, smallest quantum, full-precision grid points). One '
        'evaluation = one distinct (node or definition, value) observation checked for membership. Non-trivial = the fact is '
        'strictly tighter than REAL_FORMAT and the value sits on its boundary (max bound, min exponent, full precision, -0, '
        'special) or the observation lies in a loop with >= 2 iterations; distinct by (source, pins, input, node, value). '
        '(b) all AbstractFormat(prec in {1,2,3,inf}, exp in [-2,1], bounds from a small set, 2^4 flags) pairs x all members of '
        'both for + - * | & <= >= and neg abs format() per format; one evaluation = one (format pair, member pair); distinct by '
        'construction. (c) round_is_identity(u, ctx) over the same small formats and SetFormats x 30 contexts, all members '
        'enumerated (sampled for wide u).')
ASSUMPTIONS = [
    'Membership oracle vlib/c14_member.py encodes only the field documentation of AbstractFormat / SetFormat / the Format '
    'constructors; +0 is a member of every format (documented convention), ExpFormat excepted (oracle_round.member).',
    'Exact results of + - * neg abs on members follow IEEE 754 section 6.3 sign rules (x + (-x) = +0; a zero product/negation '
    'takes the xor / flipped sign), which is what the interpreter computes under fp.REAL.',
    'Analyses raising an exception are "not accepted" (skipped, counted by exception type); executions that raise contribute '
    'the values observed before the raise only.',
    'Only the analysed function itself is traced; callee sub-analyses (by_call) are not checked, and a call result outside '
    'the call\'s inferred format is counted as undecided (its root lies in the untraced callee body).',
    'A non-member derived from an earlier non-member of the same execution (operand, definition read, return of a failing '
    'expression) is attributed to that root and counted as derived, not reported separately.',
]
EXHAUSTIVE = {'quick': False, 'thorough': False}
FLOORS = {'tighter-than-real': 100000, 'boundary:max-bound': 200, 'boundary:min-exp': 200, 'boundary:full-prec': 200,
          'boundary:neg-zero': 100, 'boundary:special': 200, 'loop>=2': 200, 'abs:pairs': 1000, 'ident:true': 200}

KNOWN_BUCKET = 'neg-zero-from-exact-op'
# Root causes that are excluded by construction (generators avoid them; a dedicated witness is run every time and
# classified into its own bucket).  Each is reported through res.fail only when known_findings.json lists it.
KNOWN_BUCKETS = (KNOWN_BUCKET, 'for-target/iterated-list-mutated', 'call/callee-mutates-list-argument',
                 'sum/element-returned-unrounded')
HERE = Path(__file__).resolve().parent.parent

N_INPUTS = 5


# ---------------------------------------------------------------------------
# known-finding policy: the bucket KNOWN_BUCKET is excluded by construction (counted) unless
# known_findings.json lists it (open -> the runner prints KNOWN-FINDING; fixed -> a regression alarms).

_KNOWN_STATUS = None


def known_status(bucket):
    global _KNOWN_STATUS
    if _KNOWN_STATUS is None:
        _KNOWN_STATUS = {}
        try:
            data = json.loads((HERE / 'known_findings.json').read_text())
            for k in data.get('findings', []):
                if k.get('property') == PROPERTY:
                    _KNOWN_STATUS[k.get('bucket')] = k.get('status', 'open')
        except Exception:
            _KNOWN_STATUS = {}
    return _KNOWN_STATUS.get(bucket, 'absent')


def report(res: Result, bucket, case, expected=None, got=None):
    if bucket.startswith('undecided:'):
        # the value returned by a call is outside the call's inferred format, but the callee body is not traced, so
        # the root (possibly one of the known findings inside the callee) cannot be told: counted, never a violation
        res.skip(bucket)
        return
    if bucket in KNOWN_BUCKETS and known_status(bucket) == 'absent':
        res.skip('excluded:' + bucket)
        res.count('excluded:' + bucket)
        return
    res.fail(bucket, case, expected=expected, got=got)


# ---------------------------------------------------------------------------
# exact arithmetic on denotations (IEEE 754 6.1-6.3), written here so the abstract check is self-contained

def _fin(d):
    return isinstance(d, Fraction) or d in (PZERO, NZERO)


def _val(d):
    return d if isinstance(d, Fraction) else Fraction(0)


def _neg_sign(d):
    return d in (NZERO, NINF) or (isinstance(d, Fraction) and d < 0)


def x_neg(a):
    if a == NAN:
        return NAN
    if a == PINF:
        return NINF
    if a == NINF:
        return PINF
    if a == PZERO:
        return NZERO
    if a == NZERO:
        return PZERO
    return -a


def x_abs(a):
    if a == NAN:
        return NAN
    if a in (PINF, NINF):
        return PINF
    if a in (PZERO, NZERO):
        return PZERO
    return abs(a)


def x_add(a, b):
    if a == NAN or b == NAN:
        return NAN
    ai, bi = a in (PINF, NINF), b in (PINF, NINF)
    if ai and bi:
        return a if a == b else NAN
    if ai:
        return a
    if bi:
        return b
    if a == NZERO and b == NZERO:
        return NZERO
    s = _val(a) + _val(b)
    return s if s != 0 else PZERO


def x_sub(a, b):
    return x_add(a, x_neg(b))


def x_mul(a, b):
    if a == NAN or b == NAN:
        return NAN
    neg = _neg_sign(a) != _neg_sign(b)
    ai, bi = a in (PINF, NINF), b in (PINF, NINF)
    if ai or bi:
        if (not ai and _val(a) == 0) or (not bi and _val(b) == 0):
            return NAN
        return NINF if neg else PINF
    p = _val(a) * _val(b)
    if p != 0:
        return p
    return NZERO if neg else PZERO


# ---------------------------------------------------------------------------
# (a) programs

class _Timeout(Exception):
    pass


def _alarm(signum, frame):
    raise _Timeout()


def enc_den(d):
    if isinstance(d, list):
        return [enc_den(x) for x in d]
    if isinstance(d, Fraction):
        return f'{d.numerator}/{d.denominator}'
    return d


def dec_den(e):
    if isinstance(e, list):
        return [dec_den(x) for x in e]
    if e in (NAN, PINF, NINF, PZERO, NZERO):
        return e
    return Fraction(e)


def show(d):
    if isinstance(d, Fraction):
        return f'{d.numerator}/{d.denominator}' if d.denominator != 1 else str(d.numerator)
    return str(d)


def _scope_kind(fa, node):
    try:
        sc = fa.ctx_use.find_scope_from_use(node)
    except Exception:
        return 'na'
    c = sc.ctx
    if c is fp.REAL:
        return 'real'
    if isinstance(c, fp.Context):
        return 'rounded'
    return 'outer'


class ProgramCheck:
    """One analysed program under one pin; `run(dens)` checks one execution."""

    def __init__(self, res: Result, src, main, ctx_text, fmt_texts, origin, features=()):
        self.res = res
        self.src = src
        self.main = main
        self.ctx_text = ctx_text
        self.fmt_texts = list(fmt_texts)
        self.origin = origin
        self.features = set(features)
        self.ok = False
        self.mod = None
        self.sh = hashlib.blake2b((src + ctx_text + '|'.join(fmt_texts)).encode(), digest_size=8).hexdigest()

    def case(self, dens):
        return {'kind': 'prog', 'src': self.src, 'main': self.main, 'ctx': self.ctx_text, 'arg_fmts': self.fmt_texts,
                'args': enc_den(dens), 'origin': self.origin}

    def prepare(self):
        res = self.res
        try:
            self.mod = load_module(self.src)
        except Exception as e:
            res.skip(f'rejected:{type(e).__name__}')
            return False
        self.fn = getattr(self.mod, self.main)
        self.ctx = G.ev(self.ctx_text)
        self.bounds = [G.ev(t) for t in self.fmt_texts]
        old = signal.signal(signal.SIGALRM, _alarm)
        signal.alarm(30)
        try:
            self.fa = FormatInfer.analyze(self.fn.ast, fn_fmt=FunctionFormat(self.ctx, tuple(self.bounds), REAL_FORMAT))
        except _Timeout:
            res.skip('analysis-timeout-inconclusive')
            return False
        except Exception as e:       # documented escape: the analysis does not accept the program/pin
            res.skip(f'analysis-raises:{type(e).__name__}')
            res.count('not-accepted')
            if res.extra.get('not-accepted', 0) <= 2:
                res.sample({'not_accepted': self.src, 'ctx': self.ctx_text, 'arg_fmts': self.fmt_texts,
                            'error': f'{type(e).__name__}: {str(e)[:200]}'})
            return False
        finally:
            signal.alarm(0)
            signal.signal(signal.SIGALRM, old)
        res.count('programs-analysed')
        fa = self.fa
        self.du = fa.type_info.def_use
        self.def_index = {}
        for d in fa.by_def:
            if hasattr(d, 'site') and not hasattr(d, 'lhs'):
                self.def_index[(id(d.site), str(d.name))] = d
        self.rt = DenTracingInterpreter()
        self.has_list_call = self._has_list_call()
        self.ok = True
        return True

    def _has_list_call(self):
        """Does the function call an FPy function with a list-typed argument?"""
        fa = self.fa
        for e, b in fa.by_expr.items():
            if type(e).__name__ == 'Call':
                for a in e.args:
                    if M.kind_of(fa.by_expr.get(a)) == 'list':
                        return True
        return False

    def close(self):
        if self.mod is not None:
            unload(self.mod)

    # -- one execution -------------------------------------------------------
    def run(self, dens):
        res = self.res
        fa = self.fa
        args = G.args_from_dens(dens)
        rec = self.rt.recorder(self.fn)
        if rec is not None:
            rec.reset()
        old = signal.signal(signal.SIGALRM, _alarm)
        signal.alarm(20)
        result = None
        status = 'ok'
        try:
            result = self.fn.with_rt(self.rt)(*args, ctx=self.ctx)
        except _Timeout:
            status = 'timeout'
        except Exception as e:      # the property speaks about values taken; a raising execution took those before the raise
            status = 'raise:' + type(e).__name__
        finally:
            signal.alarm(0)
            signal.signal(signal.SIGALRM, old)
        res.count('executions')
        if status != 'ok':
            res.count('executions-' + ('timeout' if status == 'timeout' else 'raised'))
            if status == 'timeout':
                res.skip('execution-timeout-inconclusive')
                return
        rec = self.rt.recorder(self.fn)
        if rec is None:
            return
        if rec.truncated:
            res.count('log-truncated')
        many_iters = {i for i, n in rec.loop_iters.items() if n >= 2}
        loop_ranges = self._loop_members(rec, many_iters)
        failed_nodes = set()
        failed_defs = set()
        case = None

        def check(site, bound, dv, node_idx, in_loop):
            """Returns list of (aspect, leaf bound, leaf value) failures."""
            fails = []
            try:
                for path, b, x in M.walk(bound, dv):
                    res.case()
                    if b == 'shape':
                        fails.append(('shape', bound, x))
                        continue
                    tight = M.tighter_than_real(b)
                    if tight:
                        res.cls('tighter-than-real')
                    okm = M.scalar_member(b, x)
                    if not okm:
                        fails.append((M.aspect(b, x), b, x))
                        continue
                    nt = False
                    if tight:
                        for c in M.boundary_classes(b, x):
                            res.cls('boundary:' + c)
                            nt = True
                    if in_loop:
                        res.cls('loop>=2')
                        nt = nt or tight
                    if nt:
                        res.nontrivial((self.sh, site, node_idx, path, str(x), enc_den(dens)))
                        if res.evaluations % 4001 == 0:
                            res.sample({'src': self.src, 'ctx': self.ctx_text, 'arg_fmts': self.fmt_texts, 'args': enc_den(dens),
                                        'site': site, 'bound': repr(b)[:200], 'value': show(x)}, nt=True)
            except M.NoMirror as e:
                res.skip(f'no-mirror:{e}')
            return fails

        for ev in rec.log:
            if ev[0] == 'expr':
                _, idx, dv, ops = ev
                if dv == OPAQUE:
                    continue
                node = rec.nodes[idx]
                in_loop = idx in loop_ranges
                if node not in fa.by_expr:
                    res.count('expr-without-fact')
                    continue
                bound = fa.by_expr[node]
                fails = check('expr', bound, dv, idx, in_loop)
                is_var = type(node).__name__ == 'Var'
                d = None
                dfails = []
                if is_var:
                    try:
                        d = self.du.find_def_from_use(node)
                    except Exception:
                        d = None
                    if d is not None and d in fa.by_def:
                        dfails = check('def', fa.by_def[d], dv, idx, in_loop)
                if dfails:
                    derived = d in failed_defs or self._def_inputs_failed(d, failed_defs)
                    failed_defs.add(d)
                    if derived:
                        res.count('derived-failures')
                    else:
                        kind = self._def_kind(d)
                        a, b, x = dfails[0]
                        if case is None:
                            case = self.case(dens)
                        report(res, self._def_bucket(kind, a, isinstance(dv, tuple)), case, expected=f'member of by_def[{d.name}] = {repr(b)[:300]}', got=show(x))
                if fails:
                    kids = rec._children(idx)
                    derived = any(k in failed_nodes for k in kids) or (
                        is_var and (bool(dfails) or (d is not None and (d in failed_defs or self._def_inputs_failed(d, failed_defs)))))
                    failed_nodes.add(idx)
                    if derived:
                        res.count('derived-failures')
                        continue
                    a, b, x = fails[0]
                    if case is None:
                        case = self.case(dens)
                    bucket = self._expr_bucket(node, a, b, x, ops, is_var)
                    report(res, bucket, case,
                           expected=f'member of by_expr[{node.format()[:80]}] = {repr(b)[:300]}', got=f'{show(x)} (operands {[show(o) if not isinstance(o, tuple) else "..." for o in ops]})')
            else:
                _, idx, name, dv = ev
                stmt = rec.nodes[idx]
                d = self.def_index.get((id(stmt), name))
                if d is None or d not in fa.by_def:
                    res.count('bind-without-def')
                    continue
                in_loop = idx in loop_ranges
                fails = check('def', fa.by_def[d], dv, idx, in_loop)
                src_expr = getattr(stmt, 'expr', None) if type(stmt).__name__ != 'ForStmt' else getattr(stmt, 'iterable', None)
                ei = rec.index.get(id(src_expr)) if src_expr is not None else None
                if ei in failed_nodes:
                    # the value bound here comes from an expression that already failed: whatever is read through this
                    # definition later is derived from that root, even where a widened by_def happens to admit it
                    failed_defs.add(d)
                if fails:
                    derived = (ei in failed_nodes) or d in failed_defs
                    if type(stmt).__name__ == 'IndexedAssign':
                        try:
                            prev = self.du.find_def_from_use(stmt)
                            derived = derived or prev in failed_defs
                        except Exception:
                            pass
                    failed_defs.add(d)
                    if derived:
                        res.count('derived-failures')
                        continue
                    a, b, x = fails[0]
                    if case is None:
                        case = self.case(dens)
                    report(res, self._def_bucket(self._def_kind(d), a, isinstance(dv, tuple) and type(stmt).__name__ == 'IndexedAssign'), case,
                           expected=f'member of by_def[{name}] = {repr(b)[:300]}', got=show(x))
        if status == 'ok':
            dv = dden(result)
            fails = check('ret', fa.fn_fmt.ret_fmt, dv, -1, False)
            if fails:
                ret_nodes = [i for i, n in enumerate(rec.nodes) if type(n).__name__ == 'ReturnStmt']
                derived = bool(failed_nodes) or bool(failed_defs)
                if derived:
                    res.count('derived-failures')
                else:
                    a, b, x = fails[0]
                    if case is None:
                        case = self.case(dens)
                    report(res, f'ret/{a}', case, expected=f'member of ret_fmt = {repr(b)[:300]}', got=show(x))

    def _loop_members(self, rec, many_iters):
        """Indices of nodes/statements lying inside a `for` statement that ran >= 2 iterations this execution."""
        if not many_iters:
            return set()
        out = set()
        for li in many_iters:
            stmt = rec.nodes[li]
            stack = [stmt.body]
            while stack:
                x = stack.pop()
                i = rec.index.get(id(x))
                if i is not None:
                    out.add(i)
                for attr in ('stmts', 'args', 'elts', 'iterables'):
                    for y in getattr(x, attr, None) or ():
                        if hasattr(y, '__slots__') or hasattr(y, '__dict__'):
                            stack.append(y)
                for attr in ('body', 'ift', 'iff', 'expr', 'cond', 'value', 'index', 'elt', 'iterable', 'start', 'stop', 'test'):
                    y = getattr(x, attr, None)
                    if y is not None and not isinstance(y, (str, int, bool, float)):
                        stack.append(y)
        return out

    def _def_inputs_failed(self, d, failed_defs):
        """Does a phi (transitively through phis) merge a definition that already failed?"""
        seen = set()
        stack = [d]
        while stack:
            x = stack.pop()
            if id(x) in seen:
                continue
            seen.add(id(x))
            if x is not d and x in failed_defs:
                return True
            if hasattr(x, 'lhs'):
                try:
                    stack.append(self.du.defs[x.lhs])
                    stack.append(self.du.defs[x.rhs])
                except Exception:
                    pass
        return False

    def _def_bucket(self, kind, a, is_list=False):
        if kind == 'comp-target' and self.has_list_call:
            return 'call/callee-mutates-list-argument'
        if kind == 'for-target':
            # the iterable's value passed its own check when it was evaluated (else this would be derived), so the
            # list changed while the loop ran: the target's bound is the element format at loop entry
            return 'for-target/iterated-list-mutated'
        if is_list and self.has_list_call:
            # a list definition that was a member when bound and is not when read: stores through this name or an
            # alias in the same function are tracked (region inserts), a store made by a callee is not
            return 'call/callee-mutates-list-argument'
        if kind in ('phi-if', 'indexed-assign'):
            return f'join/{a}'          # by_def = join(old, new): same mechanism as IfExpr / list literal
        return f'def/{kind}/{a}'

    def _def_kind(self, d):
        if hasattr(d, 'lhs'):
            sn = type(d.site).__name__
            return 'phi-loop' if sn in ('WhileStmt', 'ForStmt') else 'phi-if'
        sn = type(d.site).__name__
        return {'Assign': 'assign', 'ForStmt': 'for-target', 'IndexedAssign': 'indexed-assign', 'ListComp': 'comp-target',
                'Argument': 'argument', 'FuncDef': 'free-var'}.get(sn, sn)

    def _expr_bucket(self, node, a, b, x, ops, is_var):
        """Root-cause signature of a non-member observed at an expression node.

        The *path* the analysis took is reconstructed from its public pieces (exact_unop/exact_binop,
        round_is_identity); this only names the bucket, it never decides membership."""
        fa = self.fa
        nm = type(node).__name__
        if is_var:
            if M.kind_of(fa.by_expr.get(node)) == 'list' and self.has_list_call:
                return 'call/callee-mutates-list-argument'
            return f'refine/{a}'
        if nm in ('ListRef', 'ListSlice') and self.has_list_call:
            return 'call/callee-mutates-list-argument'
        if nm == 'Call':
            return 'undecided:callee-internal'
        if nm in ('IfExpr', 'ListExpr'):
            return f'join/{a}'
        if nm in ('Min', 'Max', 'AMin', 'AMax'):
            return f'select/{a}'
        path, resolved = self._path(node)
        if path == 'na':
            return f'expr/{nm}/{a}'
        if path == 'symbolic-with':
            # a `with` whose context expression the analysis could not resolve (e.g. a context variable) is
            # analysed as if it were the caller's context
            return 'ctx/unresolved-with-takes-outer-context'
        if path == 'scope':
            if nm == 'Sum':
                sz = fa.array_size.by_expr.get(node.args[0])
                if getattr(sz, 'size', None) == 1:
                    return 'sum/static-singleton-unrounded'      # length known to the analysis: fixable, not excluded
                return 'sum/element-returned-unrounded'
            return f'scope-format/{nm}/{a}'
        if path in ('exact', 'identity', 'overlap') and M.kind_of(b) == 'set' and M.set_values(b) <= {PZERO, NZERO} \
                and a in ('nan', '+inf', '-inf'):
            return 'materialize/zero-only-drops-specials'
        if path in ('exact', 'identity', 'overlap'):
            if a == 'neg-zero' and nm in ('Neg', 'Mul') and all(not isinstance(o, tuple) and o is not None for o in ops):
                # F15 signature: the exact IEEE result of the operand values is -0 while every operand *format* lacks -0
                exact = x_neg(ops[0]) if nm == 'Neg' else x_mul(ops[0], ops[1])
                lacks = True
                for child in node.args:
                    cb = fa.by_expr.get(child)
                    try:
                        if cb is None or M.kind_of(cb) in ('list', 'tuple') or M.scalar_member(cb, NZERO):
                            lacks = False
                    except M.NoMirror:
                        lacks = False
                if exact == NZERO and lacks:
                    return KNOWN_BUCKET
        if path in ('exact', 'identity'):
            return f'abstract/{nm.lower()}/{a}'
        if path == 'overlap':
            if a in ('nan', '+inf', '-inf', 'neg-zero'):
                return 'round-overlap/specials-dropped'
            return f'round-overlap/{a}'
        return f'expr/{nm}/{path}/{a}'

    def _path(self, node):
        """('scope' | 'exact' | 'identity' | 'overlap' | 'unknown' | 'na', resolved ctx)"""
        from fpy2.analysis.format_infer import exact_binop, exact_exp2, exact_logb, exact_unop
        fa = self.fa
        try:
            sc = fa.ctx_use.find_scope_from_use(node)
        except Exception:
            return 'na', None
        resolved = sc.ctx if isinstance(sc.ctx, fp.Context) else self.ctx
        if not isinstance(sc.ctx, fp.Context) and type(sc.site).__name__ == 'ContextStmt':
            return 'symbolic-with', None
        if resolved is None:
            return 'unknown', None
        try:
            bound = fa.by_expr.get(node)
            if M.kind_of(bound) == 'format' and bound == resolved.format() and resolved is not fp.REAL:
                return 'scope', resolved
            if resolved is fp.REAL:
                return 'exact', resolved
            nm = type(node).__name__
            kids = [fa.by_expr.get(c) for c in node.args]
            if nm == 'Neg':
                ex = exact_unop(kids[0], operator.neg)
            elif nm == 'Abs':
                ex = exact_unop(kids[0], abs)
            elif nm in ('Add', 'Sub', 'Mul'):
                ex = exact_binop(kids[0], kids[1], {'Add': operator.add, 'Sub': operator.sub, 'Mul': operator.mul}[nm])
            elif nm == 'Logb':
                ex = exact_logb(kids[0])
            elif nm == 'Exp2':
                ex = exact_exp2(kids[0])
            elif nm == 'Pow':
                ex = exact_exp2(kids[1])
            elif nm in ('Round', 'Cast'):
                k0 = kids[0]
                ex = k0 if isinstance(k0, SetFormat) else AbstractFormat.from_format(k0)
            elif nm == 'Sum':
                return 'sum', resolved
            else:
                return 'unknown', resolved
            return ('identity' if round_is_identity(ex, resolved) else 'overlap'), resolved
        except Exception:
            return 'unknown', resolved


def check_program(res: Result, src, main, ctx_text, fmt_texts, inputs, origin, features=()):
    pc = ProgramCheck(res, src, main, ctx_text, fmt_texts, origin, features)
    try:
        if not pc.prepare():
            return
        for f in sorted(pc.features):
            res.cls('f:' + f)
        for dens in inputs:
            pc.run(dens)
    finally:
        pc.close()


def gen_and_check(res: Result, ch, kind, origin):
    if kind == 'x':
        prog = G.gen_xprogram(ch)
    else:
        prof = progen.Profile(typed_signature=True)
        prof.sqrt = False
        prof.helpers_mutate = False      # known finding call/callee-mutates-list-argument: see KNOWN_WITNESSES
        if kind == 'p-small':
            prof.max_stmts = 4
            prof.expr_depth = 2
        prog = progen.gen_program(ch, prof)
    if any(t not in ('R', 'L') for _, t in prog.params):
        res.skip('param-type')
        return
    ctx_text, fmt_texts = G.choose_pin(ch, prog.params)
    try:
        bounds = [G.ev(t) for t in fmt_texts]
    except Exception as e:
        raise RuntimeError(f'bad pin {fmt_texts}: {e}')
    inputs = [G.gen_args(ch, prog.params, prog.min_len, bounds) for _ in range(N_INPUTS)]
    check_program(res, prog.src, prog.main, ctx_text, fmt_texts, inputs, origin, prog.features)


# ---------------------------------------------------------------------------
# (b) abstract arithmetic, exhaustive over small formats

INF = float('inf')
F_PINF, F_NINF, F_NAN, F_NZ = 1, 2, 4, 8
SPECIALS = [(NZERO, F_NZ), (PINF, F_PINF), (NINF, F_NINF), (NAN, F_NAN)]
FIVE = (PZERO, NZERO, PINF, NINF, NAN)


def shapes_for(tier):
    """[(prec, exp, pos, neg)] - pos/neg Fractions or +-INF."""
    q = Fraction
    if tier == 'thorough':
        precs, exps = [1, 2, 3, 4, INF], [-2, -1, 0, 1, 2]
        bounds = [(q(3), q(-3)), (q(4), q(0)), (q(0), q(-3)), (q(3, 4), q(-3, 2)), (q(6), q(-1)), (q(5, 2), q(-5, 2))]
    else:
        precs, exps = [1, 2, 3, INF], [-2, -1, 0, 1]
        bounds = [(q(3), q(-3)), (q(4), q(0)), (q(3, 4), q(-3, 2))]
    out = [(p, e, b[0], b[1]) for p in precs for e in exps for b in bounds]
    # degenerate / unbounded shapes (members enumerated in a window)
    out += [(1, 0, q(0), q(0)), (INF, -1, q(0), q(-3))]
    out += [(p, -INF, q(3), q(-3)) for p in (1, 2, 3)]
    out += [(2, 0, INF, -INF), (INF, 0, INF, -INF), (INF, -INF, INF, -INF), (2, -INF, INF, -INF), (3, -1, INF, q(0)), (INF, -2, q(2), -INF)]
    if tier == 'thorough':
        out += [(4, -INF, q(6), q(-1)), (INF, -INF, q(3), q(-3)), (1, -INF, INF, -INF), (3, 1, INF, -INF), (INF, 2, q(8), -INF)]
    return out


def shape_bounded(sh):
    return not isinstance(sh[1], float) and not isinstance(sh[2], float) and not isinstance(sh[3], float)


def mk_af(sh, mask):
    prec, exp, pos, neg = sh
    pb = pos if isinstance(pos, float) else G.RF(pos)
    nb = neg if isinstance(neg, float) else G.RF(neg)
    return AbstractFormat(prec, exp, pb, neg_bound=nb, has_pos_inf=bool(mask & F_PINF), has_neg_inf=bool(mask & F_NINF),
                          has_nan=bool(mask & F_NAN), has_neg_zero=bool(mask & F_NZ))


_WINDOW = [Fraction(k) * pow2(e) for e in range(-4, 4) for k in (1, 3, 5, 7)]


def shape_members(sh):
    """Finite non-zero members: all of them for a bounded shape, a window for an unbounded one."""
    prec, exp, pos, neg = sh
    if shape_bounded(sh):
        fin = M.af_finite_members(mk_af(sh, 0))
        assert fin is not None
        return fin
    out = []
    for v in _WINDOW:
        for w in (v, -v):
            if M.finite_in(prec, exp, pos, neg, w):
                out.append(w)
    return sorted(set(out))


def enc_shape(sh, mask):
    return {'prec': 'inf' if isinstance(sh[0], float) else sh[0], 'exp': '-inf' if isinstance(sh[1], float) else sh[1],
            'pos': 'inf' if isinstance(sh[2], float) else f'{sh[2].numerator}/{sh[2].denominator}',
            'neg': '-inf' if isinstance(sh[3], float) else f'{sh[3].numerator}/{sh[3].denominator}', 'mask': mask}


def dec_shape(e):
    sh = (INF if e['prec'] == 'inf' else int(e['prec']), -INF if e['exp'] == '-inf' else int(e['exp']),
          INF if e['pos'] == 'inf' else Fraction(e['pos']), -INF if e['neg'] == '-inf' else Fraction(e['neg']))
    return sh, int(e['mask'])


XOPS = {'add': x_add, 'sub': x_sub, 'mul': x_mul}
PYOPS = {'add': operator.add, 'sub': operator.sub, 'mul': operator.mul, 'or': operator.or_, 'and': operator.and_}


def _ext(fin):
    return [(PZERO, 0)] + [(v, 0) for v in fin] + SPECIALS


def _tables(ea, eb, xop):
    fnz = set()
    trip = set()
    for a, na in ea:
        for b, nb in eb:
            r = xop(a, b)
            if isinstance(r, Fraction):
                fnz.add(r)
            else:
                trip.add((na, nb, r))
    # drop dominated requirements
    keep = [t for t in trip if not any(o != t and o[2] == t[2] and (o[0] & ~t[0]) == 0 and (o[1] & ~t[1]) == 0 for o in trip)]
    return fnz, keep


def _members_of(fin, mask):
    return [PZERO] + list(fin) + [d for d, f in SPECIALS if mask & f]


def _abs_bucket(op, R, r):
    a = M.aspect(R, r)
    if a == 'neg-zero' and op in ('neg', 'mul'):
        return KNOWN_BUCKET
    return f'abstract/{op}/{a}'


def _witness(op, fa, ma, fb, mb, r):
    A, B = _members_of(fa, ma), _members_of(fb, mb)
    for a in A:
        for b in B:
            if XOPS[op](a, b) == r:
                return a, b
    return None, None


def check_abs_pair(res: Result, sa, sb, fin_a, fin_b, insts_a, insts_b, full=True):
    """All 16 x 16 flag combinations of one shape pair, all binary operators."""
    ea, eb = _ext(fin_a), _ext(fin_b)
    set_a, set_b = set(fin_a), set(fin_b)
    for op in ('add', 'sub', 'mul'):
        fnz, trip = _tables(ea, eb, XOPS[op])
        okkeys = {}
        pyop = PYOPS[op]
        for ma in range(16):
            A = insts_a[ma]
            na = len(fin_a) + 1 + bin(ma).count('1')
            for mb in range(16):
                B = insts_b[mb]
                try:
                    R = pyop(A, B)
                except Exception as e:     # not accepted (off-grid bounds make effective_prec raise): skipped, counted
                    res.skip(f'abstract-op-raises:{op}:{type(e).__name__}')
                    continue
                res.case(na * (len(fin_b) + 1 + bin(mb).count('1')))
                res.nt_count += 1
                f = M.af_fields(R)
                key = f[:4]
                bad = okkeys.get(key)
                if bad is None:
                    bad = [v for v in fnz if not M.finite_in(*key, v)]
                    okkeys[key] = bad
                fails = list(bad[:1])
                mem5 = (True, f[7], f[4], f[5], f[6])
                for qa, qb, r in trip:
                    if (qa & ~ma) == 0 and (qb & ~mb) == 0 and not mem5[FIVE.index(r)]:
                        fails.append(r)
                seen_b = set()
                for r in fails:
                    bucket = _abs_bucket(op, R, r)
                    if bucket in seen_b:
                        continue
                    seen_b.add(bucket)
                    wa, wb = _witness(op, fin_a, ma, fin_b, mb, r)
                    report(res, bucket, {'kind': 'abs', 'op': op, 'a': enc_shape(sa, ma), 'b': enc_shape(sb, mb),
                                         'ma': enc_den(wa), 'mb': enc_den(wb)},
                           expected=f'{show(wa)} {op} {show(wb)} = {show(r)} is a member of the result', got=str(R))
    # lattice operators and containment
    common = set_a & set_b
    fin_cache = {}

    def bad_finite(key, tag, vals):
        k = (key, tag)
        b = fin_cache.get(k)
        if b is None:
            b = fin_cache[k] = [v for v in vals if not M.finite_in(*key, v)]
        return b
    for ma in range(16):
        A = insts_a[ma]
        for mb in range(16):
            B = insts_b[mb]
            res.case(2 * (len(fin_a) + len(fin_b) + 2))
            res.nt_count += 1
            for op, fin_req, spec_req in (('or', set_a | set_b, ma | mb), ('and', common, ma & mb)):
                try:
                    R = PYOPS[op](A, B)
                except Exception as e:
                    res.skip(f'abstract-op-raises:{op}:{type(e).__name__}')
                    continue
                f = M.af_fields(R)
                bad = list(bad_finite(f[:4], op, fin_req)[:1])
                mem5 = (True, f[7], f[4], f[5], f[6])
                bad += [d for d, fl in SPECIALS if (spec_req & fl) and not mem5[FIVE.index(d)]]
                if bad:
                    r = bad[0]
                    report(res, f'abstract/{op}/{M.aspect(R, r)}', {'kind': 'abs', 'op': op, 'a': enc_shape(sa, ma), 'b': enc_shape(sb, mb), 'ma': enc_den(r)},
                           expected=f'{show(r)} (a member of {"either" if op == "or" else "both"}) is a member of the result', got=str(R))
            for op, X, Y, finx, mx, tag in (('le', A, B, fin_a, ma, 'a'), ('ge', B, A, fin_b, mb, 'b')):
                # X <= Y claimed  =>  members(X) subset of members(Y)
                try:
                    claim = (X <= Y) if op == 'le' else (Y >= X)
                except Exception as e:
                    res.skip(f'abstract-op-raises:{op}:{type(e).__name__}')
                    continue
                if claim:
                    res.cls('abs:contained')
                    fy = M.af_fields(Y)
                    bad = list(bad_finite(fy[:4], tag, finx)[:1])
                    mem5 = (True, fy[7], fy[4], fy[5], fy[6])
                    bad += [d for d, fl in SPECIALS if (mx & fl) and not mem5[FIVE.index(d)]]
                    if not bad and not shape_bounded(sa if op == 'le' else sb):
                        bad = _unbounded_escape(X, Y)
                    if bad:
                        r = bad[0]
                        report(res, f'abstract/le/{M.aspect(Y, r)}', {'kind': 'abs', 'op': op, 'a': enc_shape(sa, ma), 'b': enc_shape(sb, mb), 'ma': enc_den(r)},
                               expected=f'containment claimed, so {show(r)} (member of the smaller) is a member of the larger', got=f'{X} <= {Y}')


def _unbounded_escape(X, Y):
    """Extra members of an unbounded X beyond the window: far-out and fine-grained probes."""
    fx = M.af_fields(X)
    fy = M.af_fields(Y)
    probes = []
    for e in (-40, -9, 9, 40):
        for c in (1, 3, 5, 7, 9, 255):
            for s in (1, -1):
                probes.append(s * Fraction(c) * pow2(e))
    return [v for v in probes if M.finite_in(*fx[:4], v) and not M.finite_in(*fy[:4], v)]


def check_abs_unary(res: Result, sh, fin):
    for mask in range(16):
        A = mk_af(sh, mask)
        mem = _members_of(fin, mask)
        for op, xop in (('neg', x_neg), ('abs', x_abs), ('pos', lambda v: v)):
            try:
                R = -A if op == 'neg' else (abs(A) if op == 'abs' else +A)
            except Exception as e:
                res.skip(f'abstract-op-raises:{op}:{type(e).__name__}')
                continue
            res.case(len(mem))
            res.nt_count += 1
            seen = set()
            for a in mem:
                r = xop(a)
                if not M.af_member(R, r):
                    b = _abs_bucket(op, R, r)
                    if b in seen:
                        continue
                    seen.add(b)
                    report(res, b, {'kind': 'abs', 'op': op, 'a': enc_shape(sh, mask), 'ma': enc_den(a)},
                           expected=f'{op}({show(a)}) = {show(r)} is a member of the result', got=str(R))
        # materialisation: format() is documented as a sound superset; from_format(format()) likewise
        try:
            F = A.format()
        except Exception as e:
            res.skip(f'format()-raises:{type(e).__name__}')
            continue
        res.case(len(mem))
        try:
            for a in mem:
                if not M.scalar_member(F, a):
                    report(res, f'abstract/format/{M.aspect(F, a)}', {'kind': 'abs', 'op': 'format', 'a': enc_shape(sh, mask), 'ma': enc_den(a)},
                           expected=f'{show(a)} (member of {A}) is a member of its materialisation', got=repr(F)[:300])
                    break
        except M.NoMirror as e:
            res.skip(f'no-mirror:{e}')
        try:
            A2 = AbstractFormat.from_format(F)
        except Exception as e:
            res.skip(f'from_format-raises:{type(e).__name__}')
            continue
        for a in mem:
            if not M.af_member(A2, a):
                report(res, f'abstract/from_format/{M.aspect(A2, a)}', {'kind': 'abs', 'op': 'from_format', 'a': enc_shape(sh, mask), 'ma': enc_den(a)},
                       expected=f'{show(a)} (member of {A}) is a member of from_format(format())', got=str(A2))
                break


def run_abs_shard(res: Result, tier, lo, hi):
    shapes = shapes_for(tier)
    fins = [shape_members(s) for s in shapes]
    insts = {}

    def inst(i):
        if i not in insts:
            insts[i] = [mk_af(shapes[i], m) for m in range(16)]
        return insts[i]
    for i in range(lo, hi):
        check_abs_unary(res, shapes[i], fins[i])
        if not shape_bounded(shapes[i]):
            res.cls('abs:windowed-shape')
        for j in range(len(shapes)):
            res.cls('abs:pairs', 256)
            check_abs_pair(res, shapes[i], shapes[j], fins[i], fins[j], inst(i), inst(j))


# ---------------------------------------------------------------------------
# (c) round_is_identity

IDENT_CTXS = [t for _, t in G.CTX_PINS if t != 'None'] + [
    'fp.MPFixedContext(0, fp.RM.RNE)', 'fp.EFloatContext(3, 6, False, fp.EFloatNanKind.MAX_VAL, 0)',
    'fp.EFloatContext(2, 5, True, fp.EFloatNanKind.NEG_ZERO, 1)', 'fp.MPFloatContext(1, fp.RM.RNE)',
    'fp.MPSFloatContext(2, 0, fp.RM.RTZ)', 'fp.ExpContext(4, 0)', 'fp.FixedContext(True, 1, 4, fp.RM.RNE, fp.OV.SATURATE)',
    'fp.MPBFixedContext(-1, RF(3), fp.RM.RNE, fp.OV.SATURATE, neg_maxval=RF(-1))',
]
IDENT_SETS = ['S(0)', "S('nz')", "S(0, 'nz')", 'S(1, 2)', 'S(-3, Fraction(1, 2))', "S('+inf', 1)", "S('nan')", "S('-inf', -2)", 'S(Fraction(1, 10))',
              'S(128)', 'S(-128, 127)', 'S(255, 256)', 'S(Fraction(1, 4), Fraction(3, 8))', 'S(65504, 65520)', 'S(7, 12, 14)', 'S(-8, 6)', 'S(Fraction(-3, 2))']


def ident_members(u, cap=600):
    if isinstance(u, SetFormat):
        return sorted(M.set_values(u), key=str), True
    mem = M.af_members(u, cap)
    if mem is not None:
        return mem, True
    # unbounded: window + far probes + specials
    f = M.af_fields(u)
    out = [PZERO]
    for v in _WINDOW + [Fraction(c) * pow2(e) for e in (-1080, -160, -30, 20, 120, 1000) for c in (1, 3, 7, 255, (1 << 24) - 1, (1 << 53) - 1)]:
        for w in (v, -v):
            if M.finite_in(*f[:4], w):
                out.append(w)
    if isinstance(f[2], Fraction) and f[2] != 0 and M.finite_in(*f[:4], f[2]):
        out.append(f[2])
    if isinstance(f[3], Fraction) and f[3] != 0 and M.finite_in(*f[:4], f[3]):
        out.append(f[3])
    out += [d for d, on in ((NZERO, f[7]), (PINF, f[4]), (NINF, f[5]), (NAN, f[6])) if on]
    return out, False


def check_identity(res: Result, u, u_enc, ctx_text, ctx, extra_members=()):
    try:
        t = round_is_identity(u, ctx)
    except Exception as e:
        res.skip(f'round_is_identity-raises:{type(e).__name__}')
        return
    res.case()
    if not t:
        res.cls('ident:false')
        return
    res.cls('ident:true')
    mem, complete = ident_members(u)
    mem = list(mem) + list(extra_members)
    res.cls('ident:enumerated' if complete else 'ident:sampled')
    res.nt_count += 1
    seen = set()
    for v in mem:
        if ctx is fp.REAL and isinstance(v, Fraction) and not M.dyadic(v):
            res.skip('ident:non-dyadic-under-REAL')     # REAL.round cannot build a Float for it; programs keep the Fraction
            continue
        res.case()
        arg = v if (isinstance(v, Fraction) and not M.dyadic(v)) else to_float_obj(v)
        try:
            r = den(ctx.round(arg))
        except Exception as e:
            r = f'raises {type(e).__name__}'
        if r != v:
            try:
                cf = ctx.format()
                a = M.aspect(cf, v) if not M.scalar_member(cf, v) else 'member-but-changed'
            except Exception:
                a = 'changed'
            b = f'identity/{a}'
            if b in seen:
                continue
            seen.add(b)
            report(res, b, {'kind': 'ident', 'u': u_enc, 'ctx': ctx_text, 'v': enc_den(v)},
                   expected=f'round_is_identity is True, so {ctx_text}.round({show(v)}) denotes {show(v)}', got=show(r) if not isinstance(r, str) or r in FIVE else r)


def run_ident_shard(res: Result, tier, part, nparts):
    shapes = shapes_for(tier)
    ctxs = [(t, G.ev(t)) for t in IDENT_CTXS]
    k = 0
    for si, sh in enumerate(shapes):
        for mask in range(16):
            k += 1
            if k % nparts != part:
                continue
            u = mk_af(sh, mask)
            for t, c in ctxs:
                check_identity(res, u, {'af': enc_shape(sh, mask)}, t, c)
    for st in IDENT_SETS:
        k += 1
        if k % nparts != part:
            continue
        u = G.ev(st)
        for t, c in ctxs:
            check_identity(res, u, {'set': st}, t, c)
    # wide formats: u = from_format(F) for the pinned argument formats, members sampled from F itself
    ch = progen.RandChooser(h64('C14', 'ident-wide', part))
    for _, ft in G.ARG_FMTS:
        k += 1
        if k % nparts != part or ft.startswith('S(') or ft == 'REAL_FORMAT':
            continue
        F = G.ev(ft)
        try:
            u = AbstractFormat.from_format(F)
        except Exception:
            res.skip('from_format-raises')
            continue
        extra = [G.sample_den(F, ch) for _ in range(40)]
        for t, c in ctxs:
            check_identity(res, u, {'from_format': ft}, t, c, extra_members=extra)


# ---------------------------------------------------------------------------
# Hypothesis layer: wide abstract formats, sampled members

def _wide_af(ch):
    """(shape, mask) of a wide format."""
    prec = INF if ch.bool(0.2) else ch.weighted([(3, ch.int(1, 4)), (3, ch.int(5, 24)), (3, ch.int(25, 64)), (1, 113)])
    exp = -INF if ch.bool(0.2) else ch.weighted([(3, ch.int(-6, 6)), (3, ch.int(-160, -7)), (2, ch.int(-1100, -161)), (1, ch.int(7, 40))])

    def bnd():
        if ch.bool(0.25):
            return INF
        if ch.bool(0.1):
            return Fraction(0)
        base = 0 if isinstance(exp, float) else exp
        e = base + ch.weighted([(3, ch.int(0, 8)), (3, ch.int(9, 70)), (1, ch.int(71, 1200))])
        pbits = ch.int(1, 12)
        c = ch.int(1 << (pbits - 1), (1 << pbits) - 1)
        return Fraction(c) * pow2(e - pbits + 1) if e - pbits + 1 >= base or isinstance(exp, float) else Fraction(c) * pow2(base)
    pos = bnd()
    neg = bnd()
    neg = -neg if not isinstance(neg, float) else -INF
    if ch.bool(0.3) and not isinstance(pos, float):
        neg = -pos
    return (prec, exp, pos, neg), ch.int(0, 15)


def _wide_members(sh, mask, ch, n=7):
    prec, exp, pos, neg = sh
    out = [PZERO] + [d for d, f in SPECIALS if mask & f]
    from vlib.oracle_round import Model
    m = Model('x', p=None if isinstance(prec, float) else prec, nmin=None if isinstance(exp, float) else exp - 1)

    def snap(q):
        if m.p is None and m.nmin is None:
            return q
        return G._snap(m, q)
    for _ in range(n):
        s_neg = ch.bool()
        b = neg if s_neg else pos
        if not isinstance(b, float) and b == 0:
            continue
        top = None if isinstance(b, float) else abs(b)
        kind = ch.weighted([(4, 'bound'), (4, 'quantum'), (6, 'full'), (3, 'small')])
        if kind == 'bound' and top is not None:
            q = top if ch.bool(0.6) else top - top / ch.choice([3, 1 << 10, 1 << 30])
        elif kind == 'quantum':
            base = -ch.int(0, 300) if isinstance(exp, float) else exp
            q = pow2(base) * ch.choice([1, 1, 2, 3, 5, 7, 255])
        elif kind == 'small':
            q = Fraction(ch.choice([1, 2, 3, 5, 100, 1 << 20])) / ch.choice([1, 2, 8, 1 << 12])
        else:
            pb = ch.int(1, 64) if isinstance(prec, float) else prec
            hi = 60 if top is None else M.floor_log2(top)
            lo = (hi - 200) if isinstance(exp, float) else exp
            e = ch.int(min(lo, hi), hi)
            c = ch.int(1 << (pb - 1), (1 << pb) - 1)
            q = Fraction(c) * pow2(e - pb + 1)
        if q <= 0:
            continue
        if top is not None and q > top:
            q = top
        q = snap(q)
        if not q:
            continue
        v = -q if s_neg else q
        if M.finite_in(prec, exp, pos, neg, v):
            out.append(v)
    return out


def check_wide(res: Result, ch):
    (sa, ma), (sb, mb) = _wide_af(ch), _wide_af(ch)
    A, B = mk_af(sa, ma), mk_af(sb, mb)
    mem_a, mem_b = _wide_members(sa, ma, ch), _wide_members(sb, mb, ch)
    case0 = {'kind': 'abs', 'a': enc_shape(sa, ma), 'b': enc_shape(sb, mb)}
    res.cls('wide:pairs')
    res.nt_count += 1
    for op in ('add', 'sub', 'mul', 'or'):
        try:
            R = PYOPS[op](A, B)
        except Exception as e:
            res.skip(f'abstract-op-raises:{op}:{type(e).__name__}')
            continue
        if op == 'or':
            bad = [(v, None) for v in mem_a + mem_b if not M.af_member(R, v)]
        else:
            bad = [(a, b) for a in mem_a for b in mem_b if not M.af_member(R, XOPS[op](a, b))]
        res.case(len(mem_a) * len(mem_b))
        seen = set()
        for a, b in bad:
            r = a if op == 'or' else XOPS[op](a, b)
            bk = _abs_bucket(op, R, r)
            if bk in seen:
                continue
            seen.add(bk)
            report(res, bk, dict(case0, op=op, ma=enc_den(a), mb=enc_den(b)), expected=f'{show(a)} {op} {show(b) if b is not None else ""} -> {show(r)} member of result', got=str(R))
    try:
        R = A & B
        bad = [v for v in mem_a if M.af_member(B, v) and not M.af_member(R, v)]
        if bad:
            report(res, f'abstract/and/{M.aspect(R, bad[0])}', dict(case0, op='and', ma=enc_den(bad[0])), expected='common member in the meet', got=str(R))
    except Exception as e:
        res.skip(f'abstract-op-raises:and:{type(e).__name__}')
    for X, Y, mx, nm in ((A, B, mem_a, 'le'), (B, A, mem_b, 'ge')):
        if (X <= Y) if nm == 'le' else (Y >= X):
            res.cls('wide:contained')
            bad = [v for v in mx if not M.af_member(Y, v)] or _unbounded_escape(X, Y)
            if bad:
                report(res, f'abstract/le/{M.aspect(Y, bad[0])}', dict(case0, op=nm, ma=enc_den(bad[0])), expected='containment claimed', got=f'{X} <= {Y}')
    for sh, mask, X, mem in ((sa, ma, A, mem_a), (sb, mb, B, mem_b)):
        for op, xop in (('neg', x_neg), ('abs', x_abs)):
            R = -X if op == 'neg' else abs(X)
            for a in mem:
                if not M.af_member(R, xop(a)):
                    report(res, _abs_bucket(op, R, xop(a)), {'kind': 'abs', 'op': op, 'a': enc_shape(sh, mask), 'ma': enc_den(a)},
                           expected=f'{op}({show(a)}) member of result', got=str(R))
                    break
        try:
            F = X.format()
            for a in mem:
                if not M.scalar_member(F, a):
                    report(res, f'abstract/format/{M.aspect(F, a)}', {'kind': 'abs', 'op': 'format', 'a': enc_shape(sh, mask), 'ma': enc_den(a)},
                           expected=f'{show(a)} member of materialisation', got=repr(F)[:300])
                    break
        except M.NoMirror as e:
            res.skip(f'no-mirror:{e}')
        except Exception as e:
            res.skip(f'format()-raises:{type(e).__name__}')


# ---------------------------------------------------------------------------
# witnesses of the known findings (run every time; reported through `report`, i.e. excluded + counted unless
# known_findings.json lists the bucket) and targeted templates for mechanisms the generators hit rarely

KNOWN_WITNESSES = [
    (KNOWN_BUCKET, '''@fp.fpy
def main(a0: fp.Real, a1: fp.Real) -> fp.Real:
    with fp.REAL:
        y = -a0
        w = a0 * a1
    return y + w
''', 'fp.FP64', ['fp.SINT8.format()', 'fp.SINT8.format()'], [PZERO, Fraction(-3)]),
    ('for-target/iterated-list-mutated', '''@fp.fpy
def main(a0: list[fp.Real]) -> fp.Real:
    acc = 0
    for x in a0:
        a0[1] = 0.25
        acc = x
    return acc
''', 'fp.FP64', ['ListFormat(fp.SINT8.format())'], [[Fraction(1), Fraction(2)]]),
    ('call/callee-mutates-list-argument', '''@fp.fpy
def h0(p0: list[fp.Real]) -> fp.Real:
    p0[0] = 0.25
    return 1

@fp.fpy
def main(a0: list[fp.Real]) -> fp.Real:
    t = h0(a0)
    return a0[0]
''', 'fp.FP64', ['ListFormat(fp.SINT8.format())'], [[Fraction(1), Fraction(2)]]),
    ('sum/element-returned-unrounded', '''@fp.fpy
def main(a0: list[fp.Real]) -> fp.Real:
    return sum(a0)
''', 'fp.SINT8', ['ListFormat(fp.FP16.format())'], [[Fraction(1, 4)]]),
]

TEMPLATES = [
    # (name, source, [(ctx, fmts, args)...])
    ('abs-asymmetric', '''@fp.fpy
def main(a0: fp.Real) -> fp.Real:
    with fp.REAL:
        v = abs(a0)
    return v
''', [('fp.SINT8', ['fp.SINT8.format()'], [Fraction(-128)]), ('fp.FP32', ['MPBFloatFormat(2, -1, RF(3), RF(-6), True, False)'], [Fraction(-6)])]),
    ('sum-static-singleton', '''@fp.fpy
def main(a0: fp.Real) -> fp.Real:
    return sum([a0])
''', [('fp.MX_E2M1', ['S(4, 8, -8)'], [Fraction(-8)]), ('fp.SINT8', ['fp.FP16.format()'], [Fraction(1, 4)]),
      ('fp.SINT8', ['fp.FP16.format()'], [NAN])]),
    ('round-overflow', '''@fp.fpy
def main(a0: fp.Real, a1: fp.Real) -> fp.Real:
    with {ctx}:
        v = a0 - a1
        w = fp.round(a0)
        u = abs(a1) * 16
    return v + w + u
''', [('fp.FP64', ['fp.SINT8.format()', 'fp.SINT8.format()'], [Fraction(-2), Fraction(127)]),
      ('fp.FP64', ['fp.SINT8.format()', 'fp.FP16.format()'], [Fraction(-128), PINF]),
      ('fp.FP64', ['fp.SINT8.format()', 'fp.FP16.format()'], [Fraction(100), Fraction(-1, 1 << 20)])]),
    ('select-with-inf', '''@fp.fpy
def main(a0: fp.Real, a1: fp.Real) -> fp.Real:
    with fp.REAL:
        v = min(a0, a1)
        w = max(a0, a1)
    return v + w
''', [('fp.FP64', ["S('+inf', 1)", 'fp.SINT8.format()'], [PINF, Fraction(49)]), ('fp.FP64', ["S('-inf', 1)", 'fp.SINT8.format()'], [NINF, Fraction(-49)])]),
    ('logb-refine-rounded', '''@fp.fpy
def main(a0: fp.Real) -> fp.Real:
    v = 0
    with {ctx}:
        e = fp.logb(a0)
    if e >= -1:
        v = a0
    return v
''', [('fp.FP32', ['fp.FP8P3.format()'], [Fraction(3, 131072)]), ('fp.FP32', ['fp.FP16.format()'], [Fraction(1, 1 << 20)]),
      ('fp.FP32', ['fp.FP16.format()'], [Fraction(3, 4)])]),
    ('with-context-variable', '''@fp.fpy
def main(a0: fp.Real, a1: fp.Real) -> fp.Real:
    with fp.MPSFloatContext(4, -3, fp.RM.RTZ) as c:
        v = a0
    with c:
        w = fp.fma(10, 0.125, a0)
    return w
''', [('fp.SINT8', ['fp.SINT8.format()', 'fp.SINT8.format()'], [PZERO, PZERO]), ('fp.FP16', ['fp.FP16.format()', 'fp.SINT8.format()'], [Fraction(1), PZERO])]),
    ('loop-first-iteration', '''@fp.fpy
def main(a0: fp.Real, a1: list[fp.Real]) -> fp.Real:
    with fp.REAL:
        acc = a0
        for i in range(3):
            acc = acc * 2 + i
        for x in a1:
            acc = acc - x
    return acc
''', [('fp.FP64', ['fp.SINT8.format()', 'ListFormat(fp.SINT8.format())'], [Fraction(127), [Fraction(-128), Fraction(-128), Fraction(-128)]]),
      ('fp.FP64', ['fp.FP16.format()', 'ListFormat(fp.FP16.format())'], [Fraction(65504), [Fraction(-65504), Fraction(1, 1 << 24)]]),
      ('fp.FP64', ['S(1, 2)', 'ListFormat(S(4, 8, -8))'], [Fraction(2), [Fraction(-8)] * 12])]),
    ('refine-compare', '''@fp.fpy
def main(a0: fp.Real) -> fp.Real:
    v = 0
    if a0 {op} {lit}:
        with fp.REAL:
            v = a0 * 2
    else:
        with fp.REAL:
            v = a0 - 1
    return v
''', [('fp.FP64', ['fp.SINT8.format()'], [Fraction(5)]), ('fp.FP64', ['fp.SINT8.format()'], [Fraction(4)]), ('fp.FP64', ['fp.SINT8.format()'], [Fraction(-5)]),
      ('fp.FP64', ['fp.FP16.format()'], [NAN]), ('fp.FP64', ['fp.FP16.format()'], [NINF]), ('fp.FP64', ['fp.FP16.format()'], [NZERO])]),
    # a store through an alias inside a loop of a value whose format grows between fixpoint passes, read back
    # through the other name
    ('alias-store-growing-in-loop', '''@fp.fpy
def main(a0: fp.Real) -> fp.Real:
    with fp.REAL:
        xs = [0.0, 0.0, 0.0]
        ys = xs
        t = a0
        u = 1
        zs = [0, 0, 0, 0]
        ws = zs
        for i in range(3):
            ys[i] = t
            t = t * 2
            ws[i + 1] = u
            u = u + zs[i] * 3
        r = xs[2] + zs[3]
    return r + xs[1] + ys[0] + ws[2]
''', [('fp.FP64', ['fp.SINT8.format()'], [Fraction(1)]), ('fp.FP64', ['fp.SINT8.format()'], [Fraction(127)]),
      ('fp.FP64', ['fp.FP16.format()'], [Fraction(-65504)]), ('fp.FP64', ['S(1, 2)'], [Fraction(2)])]),
    # the length of a range whose bounds mix `c - v` and `v`: loop trip count and len() depend on the argument
    ('range-affine-mixed-bounds', '''@fp.fpy
def main(a0: fp.Real) -> fp.Real:
    with fp.REAL:
        s = 0
        for k in range(a0, 2 - a0):
            s = s + 1
        n = len(range(a0, 2 - a0))
        m = len(range(8 - a0, 12 - a0))
        q = 0
        for j in range(3 - a0, a0 + 9):
            q = q + j
        w = len(range(a0 + 1, 6 - a0)) + len(range(1 - a0, a0))
    return s + n + m + q + w
''', [('fp.FP64', ['fp.SINT8.format()'], [Fraction(-3)]), ('fp.FP64', ['fp.SINT8.format()'], [Fraction(1)]),
      ('fp.FP64', ['fp.SINT8.format()'], [Fraction(0)]), ('fp.FP64', ['fp.REAL.format()'], [Fraction(-3)]),
      ('fp.FP64', ['fp.REAL.format()'], [Fraction(5)])]),
]
TEMPLATE_CTXS = ['fp.UINT8', 'fp.FixedContext(True, 0, 8, fp.RM.RTZ, fp.OV.SATURATE)', 'fp.MX_E2M1', 'fp.MPFixedContext(1, fp.RM.RAZ)',
                 'fp.IEEEContext(3, 6, fp.RM.RTP)', 'fp.FixedContext(True, 2, 6, fp.RM.RAZ, fp.OV.WRAP)']
TEMPLATE_OPS = ['<', '<=', '>', '>=']
TEMPLATE_LITS = ['5', '-5', '0', '4', '0.5']


def run_templates(res: Result):
    for bucket, src, ctx, fmts, dens in KNOWN_WITNESSES:
        sub = Result()
        check_program(sub, src, 'main', ctx, fmts, [dens], f'witness:{bucket}')
        hit = bucket in sub.fail_counts or sub.extra.get('excluded:' + bucket, 0) > 0
        res.count(('witness-reproduced:' if hit else 'witness-NOT-reproduced:') + bucket)
        res.merge(sub)
    for name, tmpl, runs in TEMPLATES:
        variants = []
        if '{ctx}' in tmpl:
            variants = [tmpl.replace('{ctx}', c) for c in TEMPLATE_CTXS]
        elif '{op}' in tmpl:
            variants = [tmpl.replace('{op}', o).replace('{lit}', l) for o in TEMPLATE_OPS for l in TEMPLATE_LITS]
        else:
            variants = [tmpl]
        for src in variants:
            for ctx, fmts, dens in runs:
                check_program(res, src, 'main', ctx, fmts, [dens], f'template:{name}')
                res.cls('f:template')


# ---------------------------------------------------------------------------
# sharding

def shards(tier, seed):
    out = []
    nshape = len(shapes_for(tier))
    step = 2 if tier == 'quick' else 1
    out += [('abs', tier, i, min(i + step, nshape)) for i in range(0, nshape, step)]
    nid = 8 if tier == 'quick' else 16
    out += [('ident', tier, p, nid) for p in range(nid)]
    nx, per_x = (36, 20) if tier == 'quick' else (120, 200)
    npg, per_p = (20, 20) if tier == 'quick' else (80, 200)
    out += [('gen', 'x', i, per_x, seed) for i in range(nx)]
    out += [('gen', 'p' if i % 3 else 'p-small', i, per_p, seed) for i in range(npg)]
    out += [('hyp', i, 12 if tier == 'quick' else 120, seed) for i in range(6 if tier == 'quick' else 16)]
    out += [('wide', i, 400 if tier == 'quick' else 6000, seed) for i in range(8 if tier == 'quick' else 32)]
    out.append(('templates',))
    return out


def run_shard(shard):
    import sys
    sys.setrecursionlimit(10000)
    res = Result()
    kind = shard[0]
    if kind == 'templates':
        run_templates(res)
        return res
    if kind == 'abs':
        _, tier, lo, hi = shard
        run_abs_shard(res, tier, lo, hi)
        return res
    if kind == 'ident':
        _, tier, part, nparts = shard
        run_ident_shard(res, tier, part, nparts)
        return res
    if kind == 'gen':
        _, gk, i, per, seed = shard
        for j in range(per):
            ch = progen.RandChooser(h64(seed, 'C14', gk, i, j))
            gen_and_check(res, ch, gk, f'gen:{gk}:{seed}:{i}:{j}')
        return res
    if kind == 'wide':
        _, i, n, seed = shard
        for j in range(n):
            check_wide(res, progen.RandChooser(h64(seed, 'C14wide', i, j)))
        return res
    if kind == 'hyp':
        import hypothesis
        from hypothesis import HealthCheck, Phase, given, settings
        from hypothesis import strategies as st
        _, i, n, seed = shard

        @st.composite
        def cases(draw):
            return draw(st.integers(0, 2 ** 62)), draw(st.booleans())

        @hypothesis.seed(h64(seed, i, 'C14hyp') % (1 << 32))
        @settings(max_examples=n, deadline=None, database=None, derandomize=False, report_multiple_bugs=False,
                  phases=[Phase.generate], suppress_health_check=list(HealthCheck))
        @given(st.data())
        def prop(data):
            ch = progen.HypChooser(data.draw)
            if ch.bool(0.5):
                gen_and_check(res, ch, 'x', f'hyp:{seed}:{i}')
            else:
                check_wide(res, ch)
        prop()
        return res
    raise ValueError(shard)


# ---------------------------------------------------------------------------
# replay / selftest

def replay(case):
    res = Result()
    global _KNOWN_STATUS
    k = case.get('kind')
    if k == 'prog':
        check_program(res, case['src'], case['main'], case['ctx'], case['arg_fmts'], [dec_den(case['args'])], case.get('origin', 'replay'))
    elif k == 'abs':
        op = case['op']
        sa, ma = dec_shape(case['a'])
        if op in ('neg', 'abs', 'pos', 'format', 'from_format'):
            check_abs_unary(res, sa, shape_members(sa) + ([dec_den(case['ma'])] if isinstance(dec_den(case.get('ma', '+0')), Fraction) else []))
        else:
            sb, mb = dec_shape(case['b'])
            fa, fb = list(shape_members(sa)), list(shape_members(sb))
            for key, lst in (('ma', fa), ('mb', fb)):
                v = case.get(key)
                if v is not None and isinstance(dec_den(v), Fraction) and dec_den(v) not in lst:
                    lst.append(dec_den(v))
            check_abs_pair(res, sa, sb, fa, fb, [mk_af(sa, m) for m in range(16)], [mk_af(sb, m) for m in range(16)])
    elif k == 'ident':
        u_enc = case['u']
        if 'af' in u_enc:
            u = mk_af(*dec_shape(u_enc['af']))
        elif 'set' in u_enc:
            u = G.ev(u_enc['set'])
        else:
            u = AbstractFormat.from_format(G.ev(u_enc['from_format']))
        v = dec_den(case['v'])
        check_identity(res, u, u_enc, case['ctx'], G.ev(case['ctx']), extra_members=[v])
    else:
        raise ValueError(f'unknown case kind {k!r}')
    return [f for fl in res.failures.values() for f in fl]


def selftest():
    q = Fraction
    # membership from the field documentation, hand-computed
    A = mk_af((2, 0, q(6), q(-6)), 0)
    fin = M.af_finite_members(A)
    assert sorted(fin) == [q(v) for v in (-6, -4, -3, -2, -1, 1, 2, 3, 4, 6)], fin
    assert M.af_member(A, PZERO) and not M.af_member(A, NZERO) and not M.af_member(A, NAN) and not M.af_member(A, q(5))
    assert not M.af_member(A, q(1, 2)) and not M.af_member(A, q(8))
    B = mk_af((INF, -2, q(1), q(0)), F_NZ | F_NAN)
    assert M.af_member(B, q(3, 4)) and not M.af_member(B, q(-1, 4)) and M.af_member(B, NZERO) and M.af_member(B, NAN) and not M.af_member(B, PINF)
    assert M.af_member(mk_af((1, -INF, INF, -INF), 0), q(1, 1 << 70)) and not M.af_member(mk_af((1, -INF, INF, -INF), 0), q(3))
    # concrete formats against numpy / integers
    import numpy as np
    m16 = M.model_of(fp.FP16.format())
    from vlib.oracle_round import member
    for k in range(-300, 300):
        for sc in (1, 7, 1 << 10, 1 << 20):
            v = q(k, sc)
            exp = q(float(np.float16(float(v)))) == v
            assert member(m16, v if v != 0 else PZERO) == exp, v
    assert member(m16, q(65504)) and not member(m16, q(65520)) and member(m16, NZERO) and member(m16, NAN)
    ms8 = M.model_of(fp.SINT8.format())
    assert [k for k in range(-200, 200) if member(ms8, q(k) if k else PZERO)] == list(range(-128, 128))
    assert not member(ms8, NZERO) and not member(ms8, NAN) and not member(ms8, q(1, 2))
    assert member(M.model_of(fp.INTEGER.format()), q(10 ** 30)) and not member(M.model_of(fp.INTEGER.format()), NZERO)
    assert M.scalar_member(G.ev("S(0, 'nz', '+inf', Fraction(1, 10))"), NZERO) and not M.scalar_member(G.ev('S(0)'), NZERO)
    # exact ops against the shared IEEE reference
    from vlib import oracle_ops
    vals = [PZERO, NZERO, PINF, NINF, NAN, q(1), q(-1), q(3, 2), q(-3, 2)]
    for a in vals:
        assert oracle_ops.neg(a).values[0] == x_neg(a) and oracle_ops.fabs(a).values[0] == x_abs(a)
        for b in vals:
            assert oracle_ops.add(a, b).values[0] == x_add(a, b), (a, b)
            assert oracle_ops.sub(a, b).values[0] == x_sub(a, b), (a, b)
            assert oracle_ops.mul(a, b).values[0] == x_mul(a, b), (a, b)
    # the walk is structural
    lf = ListFormat(TupleFormat((fp.SINT8.format(), None)))
    leaves = list(M.walk(lf, ('L', ('T', q(300), True), ('T', PZERO, False))))
    assert len(leaves) == 2 and leaves[0][2] == q(300)
