"""
C15 — An accepted program never reads an unbound name or falls off its end.

Bounded EXHAUSTIVE enumeration of small FPy program *texts* (canonical up to renaming of the three
names a, b, p), each put through the real `@fp.fpy` decorator (parser, SyntaxCheck, Reachability) by
vlib.load; every accepted program is then called on every combination of branch outcomes and trip
counts it can have.  Three oracle parts, none of which calls an fpy2 analysis:

 (1) accepted  =>  no call ends in NameError / UnboundLocalError / a name-resolution KeyError, and no
     call falls off the end of the body (a Python `None` result);
 (2) a use the language guide (docs/USAGE.md "Control Flow") says is out of scope - a name first bound
     in a loop body, in a one-armed `if`, in only one arm of an if/else, a loop target, or a name never
     bound before - used after the construct  =>  the decorator must reject the program.  Decided by
     `Flow` below, a must-be-defined dataflow over Python's own `ast` of the text;
 (3) a path without `return`, or a statement after a statement that always returns  =>  must reject
     (decorator.py: "We still require every statement to be reachable and every path to end in a
     return"; reachability.py `check_all_reachable` / `check_no_fallthrough`).

Where the guide is silent the oracle accepts either outcome and counts it (see ASSUMPTIONS).
"""

from __future__ import annotations

import ast
import builtins
import itertools
import random
import signal

import fpy2 as fp
from fpy2.utils.identifier import Id as _FpyId

from vlib.load import load_module, unload
from vlib.runner import Result, h64

PROPERTY = 'C15'
LEVEL = 'exploration'
RULE = (
    'Program texts `def main(<flags c*, lists xs*/ys, counters k*>)` from the productions {x = e, (x, y) = (e1, e2), x = [y for y in ys], '
    'x = [(y, z) for y in ys], return e, pass (only as a whole body), if c: S else: S, if c: S, for x in xs: S, '
    'for i, (x, y) in enumerate(zip(xs, xs)): S, while k > 0: k = k - 1; S, with fp.FP32 as x: S}; e is 0, y or (y, z), a statement reads '
    '0-2 names; names {a, b, p} canonical up to renaming (numbered by first binding occurrence; commutative pairs sorted); every read names '
    'an identifier bound somewhere earlier in the text; every branch/loop has its own parameter. Bounds (statements = simple statements + '
    'compound heads; slots = name occurrences; nesting depth <= 2): quick = ALL texts with <= 3 statements and <= 7 slots, ALL texts with 4 '
    'statements and <= 5 slots, ALL texts with <= 2 statements whose reads may also name a never-bound identifier (202,765 texts), plus a '
    'seed-dependent 1/48 sample of the 5-statement/<= 5-slot skeletons with all their fillings and a seeded random layer (8,000 texts: <= 10 '
    'statements, depth <= 3, 5 names, augmented assignment); thorough = ALL texts with <= 4 statements and <= 7 slots and ALL texts with 5 '
    'statements and <= 5 slots (2,574,345 texts), plus 144,000 random texts. Each accepted program is called on the full product flags {T,F} '
    'x list lengths {0,1,2} x counters {0,1,2} of the parameters it uses (random layer: capped at 96 combinations). Non-trivial = the text '
    'contains a use of a name after a construct (loop, one-armed if, one arm of if/else) that binds that name and may run zero times; '
    'distinct by text hash.')
ASSUMPTIONS = [
    'Oracle `Flow` is written from docs/USAGE.md "Control Flow" + Python block semantics for `with`; it never calls fpy2 analyses.',
    'Either outcome accepted (counted as class either:*), provided part (1) holds when accepted: (a) a name bound in one arm of an if/else '
    'whose other arm always returns, used after the if (guide: "introduced in both branches" vs. the only path reaching the use binds it); '
    '(b) a comprehension variable used after the comprehension (guide silent; Python does not leak it).',
    'A loop target / body binding of a name already accessible before the loop stays accessible (guide speaks of identifiers *introduced* in the block).',
    'No completeness claim: rejecting a program the oracle finds clean is counted (rejected-clean) but is not a violation of this property.',
    'Exceptions other than NameError/UnboundLocalError/name-resolution KeyError/None result are irrelevant here and counted as other:*; '
    'expressions are tuples and copies so that they practically never occur.',
    'Fall-off detection: Function.__call__ returning None, or its boundary conversion raising "not an FPy value: None" (validated in selftest on the live tree).',
]
EXHAUSTIVE = {'quick': True, 'thorough': True}
FLOORS = {'accepted': 0.02, 'rejected': 0.2, 'must-reject': 0.1, 'nt:use-after-maybe-zero-binding': 0.05,
          'acc:if1-returns': 20, 'acc:if-else-one-arm-returns': 20, 'acc:early-return-in-loop': 20,
          'acc:use-after-returning-branch': 20, 'either': 5}

NAMES = ('a', 'b', 'p')

# ---------------------------------------------------------------------------
# (A) independent oracle: must-be-defined dataflow + reachability over Python's ast

_FREE = frozenset(dir(builtins)) | {'fp'}


class _St:
    __slots__ = ('ok', 'lost', 'mz', 'term', 'aft')

    def __init__(self, ok=None, lost=None, mz=None, term=False, aft=()):
        self.ok = dict(ok or {})       # accessible names -> None | reason the guide leaves it open
        self.lost = dict(lost or {})   # inaccessible names -> tuple of constructs that scoped them out, oldest first
        self.mz = set(mz or ())        # names whose latest binding sits in a construct that may run zero times
        self.term = term               # every path through here has returned
        self.aft = set(aft)            # names bound before an earlier branch/loop body that always returns, not rebound since

    def copy(self):
        return _St(self.ok, self.lost, self.mz, self.term, self.aft)


def _targets(t):
    if isinstance(t, ast.Name):
        return [t.id]
    if isinstance(t, (ast.Tuple, ast.List)):
        return [n for e in t.elts for n in _targets(e)]
    if isinstance(t, ast.Starred):
        return _targets(t.value)
    return []


def _reads(e, bound=frozenset()):
    """Names read by an expression; comprehension variables are local to the comprehension."""
    if e is None:
        return []
    if isinstance(e, ast.Name):
        return [] if e.id in bound else [e.id]
    if isinstance(e, (ast.ListComp, ast.GeneratorExp, ast.SetComp)):
        out, b = [], set(bound)
        for g in e.generators:
            out += _reads(g.iter, frozenset(b))
            b |= set(_targets(g.target))
            for c in g.ifs:
                out += _reads(c, frozenset(b))
        return out + _reads(e.elt, frozenset(b))
    return [n for c in ast.iter_child_nodes(e) for n in _reads(c, bound)]


def _comp_vars(e):
    return [n for x in ast.walk(e) if isinstance(x, ast.comprehension) for n in _targets(x.target)]


def _bound_in(stmts):
    """Every name some statement in `stmts` (recursively) binds."""
    out = set()
    for s in stmts:
        if isinstance(s, ast.Assign):
            for t in s.targets:
                out |= set(_targets(t))
        elif isinstance(s, ast.AugAssign):
            out |= set(_targets(s.target))
        elif isinstance(s, ast.For):
            out |= set(_targets(s.target)) | _bound_in(s.body)
        elif isinstance(s, ast.If):
            out |= _bound_in(s.body) | _bound_in(s.orelse)
        elif isinstance(s, ast.While):
            out |= _bound_in(s.body)
        elif isinstance(s, ast.With):
            for it in s.items:
                if it.optional_vars is not None:
                    out |= set(_targets(it.optional_vars))
            out |= _bound_in(s.body)
    return out


def _hist(old, *new):
    out = list(old or ())
    out += [r for r in new if r not in out]
    return tuple(r for r in out if r != 'comp-var') or ('comp-var',)


class Flow:
    """Verdict of the language guide on one function text."""

    def __init__(self, src):
        fn = next(n for n in ast.parse(src).body if isinstance(n, ast.FunctionDef))
        self.params = [a.arg for a in fn.args.args]
        self.must = []        # reasons the program must be rejected (in textual order, then reachability)
        self.hist = []        # for each `use-of:` entry of must: every construct that scoped the name out since its last definite binding
        self.either = []      # reasons for which either outcome is fine
        self.nt = False       # use after a construct that may bind the name zero times
        self.feats = set()
        self.unreachable = False
        st = self.block(fn.body, _St({p: None for p in self.params}))
        self.fallthrough = not st.term
        if self.unreachable:
            self.must.append('unreachable-statement')
        if self.fallthrough:
            self.must.append('fallthrough')

    # -- uses and bindings
    def use(self, name, st):
        if name in st.ok:
            if st.ok[name] is not None:
                self.either.append(st.ok[name])
            elif name in st.aft:
                self.feats.add('use-after-returning-branch')
        elif name in st.lost or name not in _FREE:
            h = st.lost.get(name, ('never-bound',))
            if h == ('comp-var',):
                self.either.append('use-of:comp-var')
            else:
                self.must.append('use-of:' + h[-1])
                self.hist.append(h)
        else:
            return
        if name in st.mz:
            self.nt = True

    @staticmethod
    def bind(name, st):
        st.ok[name] = None
        st.lost.pop(name, None)
        st.mz.discard(name)
        st.aft.discard(name)

    # -- statements
    def block(self, stmts, st):
        for s in stmts:
            if st.term:
                self.unreachable = True
                break
            st = self.stmt(s, st)
        return st

    def stmt(self, s, st):
        if isinstance(s, (ast.Assign, ast.AugAssign)):
            for n in _reads(s.value):
                self.use(n, st)
            tgts = s.targets if isinstance(s, ast.Assign) else [s.target]
            if isinstance(s, ast.AugAssign):
                for n in _targets(s.target):
                    self.use(n, st)
            for v in _comp_vars(s.value):
                if v not in st.ok and v not in st.lost:
                    st.lost[v] = ('comp-var',)     # a comprehension binds nothing outside itself
            for t in tgts:
                if isinstance(t, ast.Subscript):
                    for n in _reads(t):
                        self.use(n, st)
                for n in _targets(t):
                    self.bind(n, st)
            return st
        if isinstance(s, ast.Return):
            for n in _reads(s.value):
                self.use(n, st)
            st.term = True
            return st
        if isinstance(s, ast.Pass):
            return st
        if isinstance(s, (ast.Expr, ast.Assert)):
            for n in _reads(s):
                self.use(n, st)
            return st
        if isinstance(s, ast.If):
            for n in _reads(s.test):
                self.use(n, st)
            t = self.block(s.body, st.copy())
            if not s.orelse:
                out = self.leave(st, s.body, t, [], 'if1')
                if t.term:
                    self.feats.add('if1-returns')
                    out.aft |= self.prebound(st)
                return out
            e = self.block(s.orelse, st.copy())
            return self.join(st, t, e, s)
        if isinstance(s, ast.For):
            for n in _reads(s.iter):
                self.use(n, st)
            b = st.copy()
            tg = _targets(s.target)
            for n in tg:
                self.bind(n, b)
            b = self.block(s.body, b)
            out = self.leave(st, s.body, b, tg, 'for')
            if b.term:
                self.feats.add('early-return-in-loop')
                out.aft |= self.prebound(st)
            return out
        if isinstance(s, ast.While):
            for n in _reads(s.test):
                self.use(n, st)
            b = self.block(s.body, st.copy())
            out = self.leave(st, s.body, b, [], 'while')
            if b.term:
                self.feats.add('early-return-in-loop')
                out.aft |= self.prebound(st)
            return out
        if isinstance(s, ast.With):
            for it in s.items:
                for n in _reads(it.context_expr):
                    self.use(n, st)
                if it.optional_vars is not None:
                    for n in _targets(it.optional_vars):
                        self.bind(n, st)
            return self.block(s.body, st)      # Python block semantics: a `with` body is not a scope
        raise ValueError(f'statement outside the modelled language: {ast.dump(s)[:80]}')

    def prebound(self, st):
        return {n for n, why in st.ok.items() if why is None and n not in self.params}

    def leave(self, pre, body, end, targets, kind):
        """State after a construct whose body may run zero times: nothing it introduced is accessible."""
        out = pre.copy()
        inner = _bound_in(body)
        for n in sorted(inner | set(targets)):
            if n not in pre.ok:
                out.lost[n] = _hist(pre.lost.get(n), *end.lost.get(n, ()), f'{kind}-target' if n in targets else f'{kind}-body')
            out.mz.add(n)
        return out

    def join(self, pre, t, e, s):
        if t.term and e.term:
            out = pre.copy()
            out.term = True
            return out
        if t.term or e.term:
            self.feats.add('if-else-one-arm-returns')
            live = e if t.term else t
            out = live.copy()
            out.aft |= self.prebound(pre)
            for n, why in live.ok.items():
                if n not in pre.ok and why is None:
                    out.ok[n] = 'arm-binding-other-arm-returns'
            return out
        out = _St(term=False, aft=t.aft | e.aft)
        for n in t.ok.keys() & e.ok.keys():
            out.ok[n] = t.ok[n] or e.ok[n]
        for side in (t, e):
            for n, h in side.lost.items():
                if n not in out.ok:
                    out.lost[n] = _hist(out.lost.get(n), *h)
        for n in sorted(t.ok.keys() ^ e.ok.keys()):
            out.lost[n] = _hist(out.lost.get(n, pre.lost.get(n)), 'one-arm')
        out.mz = t.mz | e.mz | (_bound_in(s.body) ^ _bound_in(s.orelse))
        return out


# ---------------------------------------------------------------------------
# (B) bounded exhaustive enumerator: skeletons x canonical name fillings

FULL = (('asg', 0), ('asg', 1), ('asg', 2), ('tup', 0), ('tup', 1), ('tup', 2), ('cmp', 0), ('cmp', 1), ('cmp', 2),
        ('ret', 0), ('ret', 1), ('ret', 2), ('ist', 0), ('ist', 1))
OWN = {'if1': 0, 'for': 1, 'fz': 2, 'whl': 0, 'whn': 1, 'wth': 1}
DEPTH = 2


def nslots(s):
    k = s[0]
    if k == 'asg':
        return 1 + s[1]
    if k == 'cmp':
        return 2 + (1 if s[1] else 0)
    if k == 'tup':
        return 2 + s[1]
    if k == 'ret':
        return s[1]
    if k == 'ist':
        return 1 + s[1]
    if k == 'pass':
        return 0
    if k == 'ife':
        return sum(map(nslots, s[1])) + sum(map(nslots, s[2]))
    return OWN[k] + sum(map(nslots, s[1]))


def _stmts(n, depth, budget):
    if n == 1:
        for s in FULL:
            if nslots(s) <= budget:
                yield s
        return
    if depth <= 0:
        return
    for h, own in OWN.items():
        if own <= budget:
            for b in _bodies(n - 1, depth - 1, budget - own):
                yield (h, b)
    for i in range(1, n - 1):
        for b1 in _bodies(i, depth - 1, budget):
            u = sum(map(nslots, b1))
            for b2 in _bodies(n - 1 - i, depth - 1, budget - u):
                yield ('ife', b1, b2)


def _bodies(n, depth, budget):
    if n == 1:
        yield (('pass',),)
    yield from blocks(n, depth, budget)


def blocks(n, depth, budget):
    """All statement sequences of total size n, nesting depth <= depth, <= budget name slots."""
    if n == 0:
        yield ()
        return
    for k in range(1, n + 1):
        for st in _stmts(k, depth, budget):
            u = nslots(st)
            for rest in blocks(n - k, depth, budget - u):
                yield (st,) + rest


def slots(b, out):
    """Slot kinds in textual order: D binds, U reads; '<' = greater than previous slot (sorted pair), '!' = differs from it."""
    for s in b:
        k = s[0]
        if k == 'asg':
            out += ['D'] + ['U', 'U<'][:s[1]]
        elif k == 'tup':
            out += ['D', 'D<'] + ['U', 'U<'][:s[1]]
        elif k == 'cmp':
            out += ['D', 'D'] + (['U!'] if s[1] == 1 else ['U'] if s[1] == 2 else [])
        elif k == 'ret':
            out += ['U', 'U<'][:s[1]]
        elif k == 'ist':
            out += ['U'] + ['U'][:s[1]]        # an indexed store reads its base name; it binds nothing
        elif k == 'ife':
            slots(s[1], out)
            slots(s[2], out)
        elif k != 'pass':
            out += {'for': ['D'], 'wth': ['D'], 'fz': ['D', 'D<'], 'whn': ['U']}.get(k, [])
            slots(s[1], out)
    return out


def fillings(sl, free_reads=False, nnames=len(NAMES)):
    """Canonical fillings: a binding slot takes a known name or the next fresh one, a read only a name already
    bound earlier in the text (or, with free_reads, also the next fresh one)."""
    n = len(sl)
    cur = [0] * n

    def rec(i, used):
        if i == n:
            yield tuple(cur)
            return
        t = sl[i]
        hi = min(used + 1, nnames) if (t[0] == 'D' or free_reads) else used
        for c in range(hi):
            if t[-1] == '<' and not c > cur[i - 1]:
                continue
            if t[-1] == '!' and c == cur[i - 1]:
                continue
            cur[i] = c
            yield from rec(i + 1, max(used, c + 1))
    return rec(0, 0)


def render(b, fill, names=NAMES):
    it = iter(fill)
    cnt = {'c': 0, 'xs': 0, 'k': 0, 'ys': 0}
    lines = []

    def nm():
        return names[next(it)]

    def rhs(r):
        return '0' if not r else r[0] if len(r) == 1 else f'({r[0]}, {r[1]})'

    def blk(bb, ind):
        pad = '    ' * ind
        for s in bb:
            k = s[0]
            if k == 'asg':
                x = nm()
                lines.append(f'{pad}{x} = {rhs([nm() for _ in range(s[1])])}')
            elif k == 'tup':
                x, y = nm(), nm()
                r = [nm() for _ in range(s[1])]
                lines.append(f'{pad}({x}, {y}) = ' + ('(0, 1)' if not r else f'({r[0]}, 0)' if len(r) == 1 else f'({r[0]}, {r[1]})'))
            elif k == 'cmp':
                x, y = nm(), nm()
                if s[1] == 2:
                    # the iterable is a program name (possibly the comprehension's own target: it is evaluated
                    # in the enclosing scope, where that name may be unbound)
                    lines.append(f'{pad}{x} = [{y} for {y} in {nm()}]')
                else:
                    cnt['ys'] = 1
                    lines.append(f'{pad}{x} = [{f"({y}, {nm()})" if s[1] else y} for {y} in ys]')
            elif k == 'ret':
                lines.append(f'{pad}return {rhs([nm() for _ in range(s[1])])}')
            elif k == 'ist':
                x = nm()
                lines.append(f'{pad}{x}[0] = {rhs([nm() for _ in range(s[1])])}')
            elif k == 'pass':
                lines.append(f'{pad}pass')
            elif k == 'ife':
                lines.append(f'{pad}if c{cnt["c"]}:')
                cnt['c'] += 1
                blk(s[1], ind + 1)
                lines.append(f'{pad}else:')
                blk(s[2], ind + 1)
            else:
                if k == 'if1':
                    lines.append(f'{pad}if c{cnt["c"]}:')
                    cnt['c'] += 1
                elif k == 'for':
                    lines.append(f'{pad}for {nm()} in xs{cnt["xs"]}:')
                    cnt['xs'] += 1
                elif k == 'fz':
                    x, y = nm(), nm()
                    j = cnt['xs']
                    lines.append(f'{pad}for i, ({x}, {y}) in enumerate(zip(xs{j}, xs{j})):')
                    cnt['xs'] += 1
                elif k == 'whl':
                    j = cnt['k']
                    lines.append(f'{pad}while k{j} > 0:')
                    lines.append(f'{pad}    k{j} = k{j} - 1')
                    cnt['k'] += 1
                elif k == 'whn':
                    # the loop test reads a program name (evaluated first, before every iteration incl. the first)
                    j = cnt['k']
                    x = nm()
                    lines.append(f'{pad}while {x} == {x} and k{j} > 0:')
                    lines.append(f'{pad}    k{j} = k{j} - 1')
                    cnt['k'] += 1
                elif k == 'wth':
                    lines.append(f'{pad}with fp.FP32 as {nm()}:')
                blk(s[1], ind + 1)

    blk(b, 1)
    params = [f'c{i}' for i in range(cnt['c'])] + [f'xs{i}' for i in range(cnt['xs'])] + (['ys'] if cnt['ys'] else []) \
        + [f'k{i}' for i in range(cnt['k'])]
    return '@fp.fpy\ndef main(' + ', '.join(params) + '):\n' + '\n'.join(lines) + '\n'


def slot_budget(tier, n):
    if tier == 'thorough':
        return 7 if n <= 4 else 5
    return 7 if n <= 3 else 5


def skeletons(tier, seed):
    """Deterministic list of (skeleton, free_reads) for a tier."""
    out = []
    for n in (1, 2):
        out += [(b, True) for b in blocks(n, DEPTH, 7)]
    nmax = 5 if tier == 'thorough' else 4
    for n in range(1, nmax + 1):
        out += [(b, False) for b in blocks(n, DEPTH, slot_budget(tier, n))]
    if tier == 'quick':
        for j, b in enumerate(blocks(5, DEPTH, 5)):
            if h64(seed, 'C15/sample5', j) % 48 == 0:
                out.append((b, False))
    return out


# ---------------------------------------------------------------------------
# (C) running one program text

class _Timeout(Exception):
    pass


def _alarm(signum, frame):
    raise _Timeout()


def inputs_for(params, cap=None, rng=None):
    """Every combination of branch outcomes and trip counts of the parameters the program has."""
    doms = []
    for p in params:
        if p.startswith('c'):
            doms.append((True, False))
        elif p.startswith(('xs', 'ys')):
            doms.append((0, 1, 2))
        elif p.startswith('k'):
            doms.append((0, 1, 2))
        else:
            raise ValueError(p)
    total = 1
    for d in doms:
        total *= len(d)
    if cap is not None and total > cap:
        return [tuple(rng.choice(d) for d in doms) for _ in range(cap)]
    return list(itertools.product(*doms))


def build_args(params, combo):
    return [([1.0, 2.0][:v] if p.startswith(('xs', 'ys')) else v) for p, v in zip(params, combo)]


def classify_outcome(call):
    """'value' | 'falloff' | 'name:<Exc>' | 'other:<Exc>' (+ message)"""
    try:
        r = call()
    except _Timeout:
        raise
    except (NameError, UnboundLocalError) as e:
        return f'name:{type(e).__name__}', str(e)[:120]
    except KeyError as e:
        key = e.args[0] if e.args else None
        tb, last = e.__traceback__, ''
        while tb is not None:
            last = tb.tb_frame.f_code.co_filename
            tb = tb.tb_next
        if isinstance(key, _FpyId) or (isinstance(key, str) and 'no definition found' in key) or '/fpy2/analysis/' in last:
            return 'name:KeyError', repr(e)[:120]
        return 'other:KeyError', repr(e)[:120]
    except TypeError as e:
        if 'not an FPy value: None' in str(e):
            return 'falloff', str(e)[:120]
        return 'other:TypeError', str(e)[:120]
    except Exception as e:   # irrelevant to this property (IndexError, ...): counted, not judged
        return f'other:{type(e).__name__}', str(e)[:120]
    return ('falloff', 'returned None') if r is None else ('value', '')


REJECT_TYPES = ('FPySyntaxError', 'ReachabilityError')

# the smallest program exercising each scoping rule alone: which rules does this front end enforce at all?
_PROBES = {
    'never-bound': 'def main():\n    return a\n',
    'if1-body': 'def main(c0):\n    if c0:\n        a = 0\n    return a\n',
    'one-arm': 'def main(c0):\n    if c0:\n        a = 0\n    else:\n        pass\n    return a\n',
    'for-target': 'def main(xs0):\n    for a in xs0:\n        pass\n    return a\n',
    'for-body': 'def main(xs0):\n    for a in xs0:\n        b = 0\n    return b\n',
    'while-body': 'def main(k0):\n    while k0 > 0:\n        k0 = k0 - 1\n        a = 0\n    return a\n',
}
_BROKEN = {}


def _rule_broken(rule):
    if rule not in _BROKEN:
        try:
            unload(load_module('@fp.fpy\n' + _PROBES[rule]))
            _BROKEN[rule] = True
        except Exception:
            _BROKEN[rule] = False
    return _BROKEN[rule]


def root_cause(flow):
    """Bucket of an accepted must-reject program.  A name may have been scoped out by several constructs in turn
    (`for a in xs: pass` / `if c: a = 0` / `return a`); the root cause is the first of them whose rule this front end
    does not enforce even on the minimal program for that rule alone; if it enforces each of them alone, the
    combination is the signature."""
    if not flow.hist:
        return flow.must[0]
    h = flow.hist[0]
    for r in h:
        if r in _PROBES and _rule_broken(r):
            return 'use-of:' + r
    return 'use-of:' + '+'.join(h)


def check_text(res: Result, src, origin, cap=None, sample_every=0):
    res.case()
    flow = Flow(src)
    must, either = flow.must, flow.either
    if must:
        res.cls('must-reject')
        res.cls('must:' + must[0])
    elif either:
        res.cls('either')
        res.cls('either:' + either[0])
    else:
        res.cls('clean')
    if flow.nt:
        res.cls('nt:use-after-maybe-zero-binding')
        res.nontrivial(src)
    case = {'src': src, 'origin': origin}
    if sample_every and res.evaluations % sample_every == 0:
        res.sample({'src': src, 'must': must[:3], 'either': either[:2]}, nt=flow.nt)
    try:
        mod = load_module(src)
    except Exception as e:
        tn = type(e).__name__
        if tn in REJECT_TYPES:
            res.cls('rejected')
            res.cls('rejected:' + tn)
            if not must and not either:
                res.cls('rejected-clean')
                if res.classes['rejected-clean'] <= 2:
                    res.sample({'rejected-clean': src, 'error': str(e)[:160]})
            return
        # anything else from the decorator is not a documented way of rejecting these texts
        res.fail(f'decorator-raises:{tn}', case, expected='accept or FPySyntaxError/ReachabilityError', got=f'{tn}: {str(e)[:200]}')
        return
    try:
        res.cls('accepted')
        if flow.nt:
            res.cls('accepted-nt')
        for f in flow.feats:
            res.cls('acc:' + f)
        params = flow.params
        rng = random.Random(h64('C15/inputs', src)) if cap else None
        combos = inputs_for(params, cap, rng)
        bad = {}
        old = signal.signal(signal.SIGALRM, _alarm)
        signal.alarm(60)
        try:
            for combo in combos:
                args = build_args(params, combo)
                kind, msg = classify_outcome(lambda: mod.main(*args))
                res.count('inputs_run')
                if kind == 'value':
                    res.count('runs:value')
                elif kind.startswith('other:'):
                    res.count('runs:' + kind)
                else:
                    bad.setdefault(kind, (list(combo), msg))
        except _Timeout:
            res.skip('timeout-inconclusive')
        finally:
            signal.alarm(0)
            signal.signal(signal.SIGALRM, old)
        got = {k: {'input': v[0], 'msg': v[1]} for k, v in sorted(bad.items())}
        if must:
            # parts (2)/(3); the run-time outcome is reported with it (same root cause, one bucket)
            res.fail('accepted:' + root_cause(flow), dict(case, inputs=[v[0] for v in bad.values()][:1]),
                     expected='rejected by the decorator (' + ', '.join(must[:3]) + ')', got=got or 'accepted; all calls returned a value')
        elif bad:
            kind = sorted(bad)[0]
            what = 'falls-off-end' if kind == 'falloff' else 'unbound-at-run-time'
            res.fail(f'{what}:{either[0] if either else "clean-by-the-guide"}', dict(case, inputs=[bad[kind][0]]),
                     expected='every call returns a value', got=got)
    finally:
        unload(mod)


# ---------------------------------------------------------------------------
# (D) random layer: larger shapes from the same productions (+ augmented assignment)

RNAMES = ('a', 'b', 'p', 'q', 'r')


def gen_random(rng: random.Random):
    cnt = {'c': 0, 'xs': 0, 'k': 0, 'ys': 0}
    lines = []
    budget = [rng.randint(4, 10)]
    seen = []          # names bound somewhere earlier in the text

    def rd():
        if seen and rng.random() < 0.985:
            return rng.choice(seen)
        return rng.choice(RNAMES)

    def expr():
        r = rng.random()
        if r < 0.2 or not seen:
            return '0'
        if r < 0.75:
            return rd()
        return f'({rd()}, {rd()})'

    def bindn():
        n = rng.choice(RNAMES)
        return n

    def blk(ind, depth, scope_seen):
        pad = '    ' * ind
        n = rng.randint(1, 3)
        for j in range(n):
            if budget[0] <= 0:
                if j == 0:
                    lines.append(f'{pad}pass')
                break
            budget[0] -= 1
            r = rng.random()
            if depth > 0 and r < 0.45 and budget[0] > 0:
                k = rng.choice(('ife', 'if1', 'if1', 'for', 'fz', 'whl', 'whn', 'wth'))
                if k in ('ife', 'if1'):
                    lines.append(f'{pad}if c{cnt["c"]}:')
                    cnt['c'] += 1
                    blk(ind + 1, depth - 1, scope_seen)
                    if k == 'ife':
                        lines.append(f'{pad}else:')
                        budget[0] -= 1
                        blk(ind + 1, depth - 1, scope_seen)
                elif k == 'for':
                    x = bindn()
                    lines.append(f'{pad}for {x} in xs{cnt["xs"]}:')
                    cnt['xs'] += 1
                    seen.append(x)
                    blk(ind + 1, depth - 1, scope_seen)
                elif k == 'fz':
                    x, y = rng.sample(RNAMES, 2)
                    lines.append(f'{pad}for i, ({x}, {y}) in enumerate(zip(xs{cnt["xs"]}, xs{cnt["xs"]})):')
                    cnt['xs'] += 1
                    seen.extend((x, y))
                    blk(ind + 1, depth - 1, scope_seen)
                elif k == 'whl':
                    lines.append(f'{pad}while k{cnt["k"]} > 0:')
                    lines.append(f'{pad}    k{cnt["k"]} = k{cnt["k"]} - 1')
                    cnt['k'] += 1
                    blk(ind + 1, depth - 1, scope_seen)
                elif k == 'whn':
                    x = rng.choice(RNAMES)
                    lines.append(f'{pad}while {x} == {x} and k{cnt["k"]} > 0:')
                    lines.append(f'{pad}    k{cnt["k"]} = k{cnt["k"]} - 1')
                    cnt['k'] += 1
                    blk(ind + 1, depth - 1, scope_seen)
                else:
                    x = bindn()
                    lines.append(f'{pad}with fp.FP32 as {x}:')
                    seen.append(x)
                    blk(ind + 1, depth - 1, scope_seen)
                continue
            last = j == n - 1 or budget[0] <= 0
            if r > 0.9 or (last and ind > 1 and rng.random() < 0.25):
                lines.append(f'{pad}return {expr()}')
                if rng.random() < 0.9:
                    return True
                continue
            r = rng.random()
            if r < 0.5:
                e = expr()
                x = bindn()
                lines.append(f'{pad}{x} = {e}')
                seen.append(x)
            elif r < 0.65:
                e1, e2 = expr(), expr()
                x, y = rng.sample(RNAMES, 2)
                lines.append(f'{pad}({x}, {y}) = ({e1}, {e2})')
                seen.extend((x, y))
            elif r < 0.8:
                y = rng.choice(RNAMES)
                elt = y if rng.random() < 0.6 else f'({y}, {rd()})'
                x = bindn()
                cnt['ys'] = 1
                lines.append(f'{pad}{x} = [{elt} for {y} in ys]')
                seen.extend((x,))
                if rng.random() < 0.15:
                    seen.append(y)
            elif r < 0.86 and seen:
                x = rd()
                lines.append(f'{pad}{x} += 1')
            else:
                lines.append(f'{pad}pass')

    if not blk(1, 3, seen) and rng.random() < 0.93:
        lines.append(f'    return {expr()}')
    params = [f'c{i}' for i in range(cnt['c'])] + [f'xs{i}' for i in range(cnt['xs'])] + (['ys'] if cnt['ys'] else []) \
        + [f'k{i}' for i in range(cnt['k'])]
    return '@fp.fpy\ndef main(' + ', '.join(params) + '):\n' + '\n'.join(lines) + '\n'


# ---------------------------------------------------------------------------
# (E) runner interface

N_ENUM_SHARDS = {'quick': 192, 'thorough': 576}
N_RAND = {'quick': (32, 250), 'thorough': (96, 1500)}


def shards(tier, seed):
    n = N_ENUM_SHARDS[tier]
    out = [('enum', tier, seed, i, n) for i in range(n)]
    nr, per = N_RAND[tier]
    out += [('rand', tier, seed, i, per) for i in range(nr)]
    return out


_SKEL_CACHE = {}


def run_shard(shard):
    res = Result()
    kind, tier, seed = shard[:3]
    if kind == 'enum':
        _, _, _, idx, n = shard
        key = (tier, seed if tier == 'quick' else 0)
        if key not in _SKEL_CACHE:
            _SKEL_CACHE.clear()
            _SKEL_CACHE[key] = skeletons(tier, seed)
        sk = _SKEL_CACHE[key]
        for j in range(idx, len(sk), n):
            b, free = sk[j]
            res.count('skeletons')
            for fill in fillings(slots(b, []), free_reads=free):
                check_text(res, render(b, fill), f'enum:{tier}:{j}', sample_every=997)
        return res
    if kind == 'rand':
        _, _, _, idx, per = shard
        for j in range(per):
            rng = random.Random(h64(seed, 'C15/rand', idx, j))
            src = gen_random(rng)
            res.count('random_programs')
            check_text(res, src, f'rand:{seed}:{idx}:{j}', cap=96, sample_every=241)
        return res
    raise ValueError(shard)


def replay(case):
    res = Result()
    check_text(res, case['src'], case.get('origin', 'replay'), cap=None)
    return [f for fl in res.failures.values() for f in fl]


# ---------------------------------------------------------------------------

_GUIDE = [
    # (text, expected first must-reason or None, expects-either)
    ('def main(c0):\n    if c0:\n        a = 1\n    return a\n', 'use-of:if1-body', False),
    ('def main(c0):\n    if c0:\n        a = 1\n        b = a\n    else:\n        b = 0\n    return b\n', None, False),
    ('def main(c0):\n    if c0:\n        a = 1\n        b = a\n    else:\n        b = 0\n    return a\n', 'use-of:one-arm', False),
    ('def main(xs0):\n    a = 0\n    for b in xs0:\n        a = b\n    return a\n', None, False),
    ('def main(xs0):\n    a = 0\n    for b in xs0:\n        a = b\n    return b\n', 'use-of:for-target', False),
    ('def main(xs0):\n    for b in xs0:\n        a = b\n    return a\n', 'use-of:for-body', False),
    ('def main(k0):\n    while k0 > 0:\n        k0 = k0 - 1\n        a = 0\n    return a\n', 'use-of:while-body', False),
    ('def main(k0):\n    while k0 > 0:\n        k0 = k0 - 1\n        return 0\n', 'fallthrough', False),
    ('def main(c0):\n    if c0:\n        return 0\n    else:\n        return 1\n    a = 0\n', 'unreachable-statement', False),
    ('def main(c0):\n    if c0:\n        a = 0\n    else:\n        return 1\n    return a\n', None, True),
    ('def main(c0):\n    a = 0\n    if c0:\n        return 1\n    return a\n', None, False),
    ('def main(ys):\n    a = [b for b in ys]\n    return b\n', None, True),
    ('def main():\n    return a\n', 'use-of:never-bound', False),
    ('def main(xs0):\n    for i, (a, b) in enumerate(zip(xs0, xs0)):\n        pass\n    return i\n', 'use-of:for-target', False),
    ('def main():\n    with fp.FP32 as a:\n        b = a\n    return (a, b)\n', None, False),
    ('def main(c0):\n    if c0:\n        a = [0]\n    a[0] = 1\n    return 0\n', 'use-of:if1-body', False),
    ('def main():\n    a[0] = 1\n    return 0\n', 'use-of:never-bound', False),
]


def selftest():
    # 1. the oracle on the guide's own examples and the cases the statement lists
    for src, must, either in _GUIDE:
        f = Flow(src)
        assert (f.must[0] if f.must else None) == must, (src, f.must)
        assert bool(f.either) == either, (src, f.either)
    # 2. canonical enumeration: distinct texts, closed under the stated bounds, known witnesses present
    texts = set()
    n = 0
    for k in (1, 2, 3):
        for b in blocks(k, DEPTH, 4):
            for fill in fillings(slots(b, [])):
                texts.add(render(b, fill))
                n += 1
    assert n == len(texts) == 5237, (n, len(texts))
    assert '@fp.fpy\ndef main(xs0):\n    for a in xs0:\n        pass\n    return a\n' in texts
    # 3. the run-time detectors see what they must see on this tree: delete a binding / the final return
    #    from the AST of an accepted function (bypassing the front end) and call it
    src = '@fp.fpy\ndef main(c0):\n    a = 0\n    return a\n'
    for drop, want in ((0, 'name:'), (1, 'falloff')):
        mod = load_module(src)
        try:
            del mod.main.ast.body.stmts[drop]
            kind, msg = classify_outcome(lambda: mod.main(True))
            assert kind.startswith(want), (drop, kind, msg)
        finally:
            unload(mod)
