"""
C20 — Library decompositions are exact.

Error-free transformations (fpy2.libraries.eft) and the exact decompositions split / modf /
frexp / ldexp (fpy2.libraries.core), called the way user code calls them
(`eft.classic_2sum(a, b, ctx=ctx)`), over *all* operand pairs / triples of small floating-point
contexts with subnormals.

Oracle: exact `Fraction` identities on denotations (vlib.denote.den) plus the independent
rounding oracle (vlib.oracle_round.expect) on the mirrored context Model.  Preconditions of
each function are enforced by construction through exponent windows (see WINDOWS).
"""

from __future__ import annotations

import math
from fractions import Fraction

import fpy2 as fp
from fpy2.libraries import core, eft
from fpy2.number import Float

from vlib import formats as F
from vlib.denote import NAN, NINF, NZERO, PINF, PZERO, den, num, pow2, show
from vlib.oracle_round import MODES, expect, floor_log2, member, neighbours, round_real
from vlib.runner import Result, h64

PROPERTY = 'C20'
LEVEL = 'exploration'

WINDOWS = {
    'notation': 'p = precision, emin = smallest normal exponent, q = emin-p+1 (exponent of the smallest subnormal), '
                'emax = largest exponent (IEEE only; MPSFloat is unbounded above), e(x) = floor(log2|x|); zero operands are always inside',
    'ideal_2sum/ideal_2mul/ideal_fma': 'any rounding mode, any operands; in scope iff every result permitted by the rounding oracle for the exact a∘b is finite',
    'fast_2sum': 'RNE/RNA; b ranges over members with |b| <= |a|; in scope iff RN(a+b) is finite (the error term of a sum is a multiple of 2^q: it cannot underflow)',
    'classic_2sum': 'RNE/RNA; IEEE: e(a), e(b) <= emax-2',
    'priest_2sum': 'all 8 modes; IEEE: e(a), e(b) <= emax-2',
    'fast_2mul': 'all 8 modes; emin+p-1 <= e(a)+e(b) (error term a multiple of 2^q: no underflow); IEEE: e(a)+e(b) <= emax-2',
    'classic_2mul': 'RNE/RNA; p >= 3; p and C = 2^ceil(p/2)+1 members of the context; emin+p-1 <= e(a)+e(b); '
                    'IEEE: e(a), e(b) <= emax-ceil(p/2)-2 and e(a)+e(b) <= emax-2',
    'classic_2fma': 'RNE/RNA; a*b = 0 or emin+p-1 <= e(a)+e(b); c any member; IEEE: e(a)+e(b) <= emax-3 and e(c) <= emax-3',
    'veltkamp_split': 'RNE/RNA; 2 <= s <= p-2 (hence p >= 4); C = 2^s+1 a member; IEEE: e(x) <= emax-s-2',
}

RULE = ('Exhaustive operand pairs (sum and product EFTs) / triples (FMA EFTs: a, b in one binade or a subnormal, c over the whole exponent span) '
        'over all members of small MPSFloat and IEEE contexts (p = 2..6 quick [p=6 and the p=5 FMA triples strided by seed], p <= 8 thorough), '
        'rounding modes as each docstring allows, preconditions enforced by construction through exponent windows: ' + repr(WINDOWS) +
        '. Decompositions split(x,n)/modf/frexp/ldexp(x,n) over all members, wider-than-context operands, +-0, +-inf, NaN, n across and beyond the digit range, '
        'in several operand carriers (bare Float, Float carrying the active context, redundant encoding, Float produced under INTEGER/FP64). '
        'Non-trivial = tuple whose first rounding has a carry, a cancellation, a half-way case, or a subnormal operand (EFTs); '
        'for decompositions: non-zero finite operand whose digits are actually divided / result needs rounding, underflows or overflows, or a special operand. '
        'Distinct by (function, context, operands, carrier), which the enumeration never repeats.')
ASSUMPTIONS = [
    'Rounding oracle vlib.oracle_round (independent, exact rationals) defines "correctly rounded"; flags are not checked here (C01/C02 do).',
    'When the exact a∘b is zero either sign of the zero s is accepted (zero-sign rules belong to C02).',
    'priest_2sum: docstring promises a *faithfully* rounded s; s may be either neighbour of a+b (counted as priest:s-not-ctx-rounding when it differs from the context rounding).',
    'classic_2mul scope p >= 3 (Dekker product theorem, radix 2); veltkamp_split scope 2 <= s <= p-2 (Veltkamp theorem); outside these the result is only counted (diag:*), never failed.',
    'classic_2fma: only r1 = RN(ab+c) and r1+r2+r3 = ab+c are demanded (docstring), not the Boldo-Muller magnitude bounds on r2, r3.',
    'split/modf/frexp: a zero part of a non-zero operand may have either sign; for x = +-0 and +-inf the signs documented in the docstrings are demanded. modf(+-inf) = (+-0, +-inf) as documented.',
    'split/modf/frexp are "performed exactly": when a part is not representable in the active context ValueError is the only accepted alternative to the exact parts.',
    'frexp: either normalisation 1 <= |m| < 2 (the one implemented) or 1/2 <= |m| < 1 (C) is accepted as long as m*2^e = x with integer e.',
    'ldexp: overflow under RTO/RTE may give the infinity or the largest value (oracle returns a set, as in C01).',
    'Intermediate-overflow immunity of the algorithms near emax is not claimed by any docstring: IEEE windows stay 2-3 binades below emax except for fast_2sum/ideal_* whose scope is "s finite".',
]
EXHAUSTIVE = {'quick': False, 'thorough': False}
FLOORS = {'carry': 0.02, 'cancellation': 0.02, 'halfway': 0.004, 'subnormal-operand': 0.03, 'special': 200,
          'ldexp:underflow': 100, 'ldexp:overflow': 100}
MAXTASKS = 8

RN = ('RNE', 'RNA')
EXC = (Exception,)


# ---------------------------------------------------------------------------
# formats and members

class Fmt:
    """A context with its oracle mirror and derived parameters."""

    def __init__(self, spec):
        kind, args, kw = spec
        self.spec = (kind, tuple(args), dict(kw))
        self.ctx, self.m = F.build(self.spec)
        m = self.m
        self.float = m.p is not None and m.kind in ('mps', 'efloat', 'mp', 'mpb')
        self.p = m.p
        self.q = None if m.nmin is None else m.nmin + 1            # exponent of the smallest quantum
        self.emin = None if (m.p is None or m.nmin is None) else m.nmin + m.p
        self.emax = floor_log2(m.pos_max) if m.pos_max else None
        self.label = [kind, list(args), dict(kw)]

    def positive(self, lo_e, hi_e):
        """Positive members with lo_e <= e(x) <= hi_e, ascending (own construction from (p, nmin, maxval))."""
        m = self.m
        if self.emax is not None:
            hi_e = min(hi_e, self.emax)
        pts = F.grid_points(m, lo_e, hi_e + 1)
        return [x for x in pts if m.pos_max is None or x <= m.pos_max]


class Op:
    """One operand: exact value, exponent, Float object."""
    __slots__ = ('q', 'e', 'obj', 'd')

    def __init__(self, d):
        self.d = d
        self.q = num(d)
        self.e = floor_log2(abs(self.q)) if self.q != 0 else None
        f = F.fl(d)
        self.obj = f


def signed(pts, zeros=True):
    out = []
    for x in pts:
        out.append(Op(x))
        out.append(Op(-x))
    if zeros:
        out.append(Op(PZERO))
        out.append(Op(NZERO))
    return out


def by_exp(ops):
    d = {}
    for o in ops:
        d.setdefault(o.e, []).append(o)
    return d


def digits(q: Fraction) -> int:
    """Number of significant binary digits of a dyadic rational."""
    n = abs(q.numerator)
    if n == 0:
        return 0
    return (n // (n & -n)).bit_length()


# ---------------------------------------------------------------------------
# oracles for the decompositions (written from the docstrings)

def ref_split(q: Fraction, n: int):
    """(hi, lo): digits of q above position n / at or below position n."""
    w = pow2(n + 1)
    a = abs(q)
    k = (a / w).numerator // (a / w).denominator
    hi = k * w
    lo = a - hi
    return (-hi, -lo) if q < 0 else (hi, lo)


def zden(q: Fraction, neg: bool):
    """Denotation of an exact part; zero gets the given sign."""
    if q == 0:
        return NZERO if neg else PZERO
    return q


def same_num(d, q: Fraction) -> bool:
    """Denotation d is finite and numerically equal to q (sign of zero free)."""
    return (isinstance(d, Fraction) or d in (PZERO, NZERO)) and num(d) == q


# ---------------------------------------------------------------------------
# EFT checks

EFT = {
    'ideal_2sum': (eft.ideal_2sum, 'sum'), 'fast_2sum': (eft.fast_2sum, 'sum'),
    'classic_2sum': (eft.classic_2sum, 'sum'), 'priest_2sum': (eft.priest_2sum, 'sum'),
    'ideal_2mul': (eft.ideal_2mul, 'mul'), 'fast_2mul': (eft.fast_2mul, 'mul'),
    'classic_2mul': (eft.classic_2mul, 'mul'),
    'ideal_fma': (eft.ideal_fma, 'fma'), 'classic_2fma': (eft.classic_2fma, 'fma'),
}


def _sample(res: Result, case, cl, nt):
    """At most one trivial and one non-trivial sample per shard, taken at a shard-dependent position."""
    if res.evaluations >= getattr(res, 'sample_at', 1):
        if nt and not res.nt_samples:
            res.sample(dict(case, classes=cl), nt=True)
        elif not nt and not res.samples:
            res.sample(dict(case, classes=cl))


def observe(fn, args, ctx):
    try:
        return fn(*args, ctx=ctx), None
    except EXC as e:      # any exception is a failure bucket (none is part of a contract inside the windows)
        return None, type(e).__name__


def exact_op(kind, qs):
    if kind == 'sum':
        return qs[0] + qs[1]
    if kind == 'mul':
        return qs[0] * qs[1]
    return qs[0] * qs[1] + qs[2]


def classify_eft(fm: Fmt, kind, ops, r):
    """Classes of an operand tuple, measured from the exact result r."""
    cl = []
    m = fm.m
    es = [o.e for o in ops]
    if any(e is None for e in es):
        cl.append('zero-operand')
    if fm.emin is not None and any(e is not None and e < fm.emin for e in es):
        cl.append('subnormal-operand')
    if r == 0:
        if all(e is not None for e in es):
            cl.append('cancellation')
        cl.append('zero-result')
        return cl
    er = floor_log2(abs(r))
    if kind == 'sum':
        terms = [(ops[0].q, ops[0].e), (ops[1].q, ops[1].e)]
    elif kind == 'fma':
        ab = ops[0].q * ops[1].q
        terms = [(ab, floor_log2(abs(ab)) if ab else None), (ops[2].q, ops[2].e)]
    else:
        terms = None
    if terms is not None:
        live = [(q, e) for q, e in terms if e is not None]
        if len(live) == 2:
            top = max(e for _, e in live)
            if er > top:
                cl.append('carry')
            if (live[0][0] < 0) != (live[1][0] < 0) and er < top:
                cl.append('cancellation')
    else:
        if all(e is not None for e in es) and er == es[0] + es[1] + 1:
            cl.append('carry')
    if m.p is not None:
        lo, hi = neighbours(r, m.p, m.nmin)
        if lo != hi:
            cl.append('inexact')
            if abs(r) - lo == hi - abs(r):
                cl.append('halfway')
        if fm.emin is not None and er < fm.emin:
            cl.append('subnormal-result')
        if fm.emax is not None and er >= fm.emax:
            cl.append('top-binade-result')
    return cl


NT_CLASSES = ('carry', 'cancellation', 'halfway', 'subnormal-operand')


def _attribute(fm: Fmt, name, ops):
    """Root-cause attribution for classic_2fma: does an inner classic_2sum call already violate its own
    contract on the operands it receives (computed by the oracle)?  Returns a bucket or None."""
    if name != 'classic_2fma':
        return None
    m = fm.m
    a, b, c = (o.q for o in ops)
    ab = a * b
    if ab == 0:
        return None
    u1 = round_real(ab, m.p, m.nmin, m.rm)[0]
    u2 = ab - u1
    pairs = [(c, u2)]
    a1 = c + u2
    if a1 != 0:
        pairs.append((u1, round_real(a1, m.p, m.nmin, m.rm)[0]))
    for x, y in pairs:
        fx, fy = F.fl(x if x != 0 else PZERO), F.fl(y if y != 0 else PZERO)
        out, exc = observe(eft.classic_2sum, (fx, fy), fm.ctx)
        if exc is not None:
            return f'classic_2sum/raised {exc}'
        try:
            if num(den(out[0])) + num(den(out[1])) != x + y:
                return 'classic_2sum/s+t != a+b'
        except (ValueError, TypeError):
            return 'classic_2sum/non-finite term'
    return None


def check_eft(res: Result, fm: Fmt, name, ops, sample_every=4999, diag=False):
    """Calls one EFT on one operand tuple and compares with the oracle.  Returns None or the failure reason."""
    fn, kind = EFT[name]
    m = fm.m
    qs = [o.q for o in ops]
    r = exact_op(kind, qs)
    # expected first result
    ctx_rounding = None
    if r == 0:
        want = {PZERO, NZERO}
    else:
        o = expect(m, r)
        if o.raises or not all(isinstance(v, Fraction) or v in (PZERO, NZERO) for v in o.values):
            res.skip(f'{name}: rounded result not finite (out of scope)')
            return None
        want = set(o.values)
        if name == 'priest_2sum':
            lo, hi = neighbours(r, m.p, m.nmin)
            ctx_rounding = set(want)
            want = {(-v if r < 0 else v) if v != 0 else (NZERO if r < 0 else PZERO) for v in (lo, hi)}
    case = {'fn': name, 'ctx': fm.label, 'ops': [show(o.d) for o in ops]}
    out, exc = observe(fn, tuple(o.obj for o in ops), fm.ctx)
    if diag:
        # outside the promised scope: only count
        ok = False
        if exc is None:
            try:
                ok = sum(num(den(x)) for x in out) == r and den(out[0]) in want
            except (ValueError, TypeError):
                ok = False
        res.count(f'diag:{name}:p={fm.p} (outside scope):{"identity holds" if ok else "identity fails"}')
        return None
    res.case()
    cl = classify_eft(fm, kind, ops, r)
    for c in cl:
        res.cls(c)
    res.cls(f'fn:{name}')
    nt = any(c in NT_CLASSES for c in cl)
    if nt:
        res.nontrivial()
    _sample(res, case, cl, nt)
    why = None
    got = None
    if exc is not None:
        why, got = f'raised {exc}', f'raised {exc}'
    else:
        n_out = 3 if name == 'classic_2fma' else 2
        if not isinstance(out, tuple) or len(out) != n_out:
            why, got = 'wrong result shape', repr(out)
        else:
            try:
                ds = [den(x) for x in out]
            except TypeError:
                ds = None
            if ds is None:
                why, got = 'wrong result shape', repr(out)
            else:
                got = [show(d) for d in ds]
                if not all(isinstance(d, Fraction) or d in (PZERO, NZERO) for d in ds):
                    why = 'non-finite term'
                elif sum(num(d) for d in ds) != r:
                    why = {'sum': 's+t != a+b', 'mul': 's+t != a*b', 'fma': 'r1+r2+r3 != a*b+c'}[kind]
                    if name.startswith('ideal'):
                        why = why.replace('r1+r2+r3', 'r+t')
                elif ds[0] not in want:
                    why = 's not faithful' if name == 'priest_2sum' else 's not the correctly rounded result'
                elif not name.startswith('ideal') and not all(member(m, d) for d in ds):
                    why = 'term not a member of the context'
                elif name == 'priest_2sum' and r != 0 and ds[0] not in ctx_rounding:
                    res.count('priest:s-not-ctx-rounding')
    if why is not None:
        bucket = _attribute(fm, name, ops) or f'{name}/{why}'
        res.fail(bucket, case, expected={'exact': show(r) if r else '0', 's': sorted(show(v) for v in want)}, got=got,
                 note=None if bucket.startswith(name) else f'observed through {name}: {why}')
    return why


def check_veltkamp(res: Result, fm: Fmt, x: Op, s: int, diag=False):
    m = fm.m
    case = {'fn': 'veltkamp_split', 'ctx': fm.label, 'ops': [show(x.d)], 's': s}
    out, exc = observe(eft.veltkamp_split, (x.obj, s), fm.ctx)
    why = got = None
    if exc is not None:
        why = got = f'raised {exc}'
    else:
        try:
            ds = [den(v) for v in out]
            got = [show(d) for d in ds]
            if not all(isinstance(d, Fraction) or d in (PZERO, NZERO) for d in ds) or len(ds) != 2:
                why = 'non-finite term'
            elif num(ds[0]) + num(ds[1]) != x.q:
                why = 'hi+lo != x'
            elif digits(num(ds[0])) > m.p - s:
                why = 'hi has more than p-s digits'
            elif digits(num(ds[1])) > s:
                why = 'lo has more than s digits'
        except (TypeError, ValueError):
            why, got = 'wrong result shape', repr(out)
    if diag:
        res.count(f'diag:veltkamp_split:{"RN" if m.rm in RN else "non-nearest mode"}:{"2<=s<=p-2" if 2 <= s <= m.p - 2 else "s=1 or s=p-1"}:'
                  f'{"docstring holds" if why is None else "docstring fails"}')
        return None
    res.case()
    res.cls('fn:veltkamp_split')
    cl = []
    if x.e is not None and x.e < fm.emin:
        cl.append('subnormal-operand')
    if x.q != 0 and digits(x.q) > m.p - s:
        cl.append('split-divides-digits')
        # rounding x to p-s digits: half-way / carry cases of the implied rounding
        lo, hi = neighbours(x.q, m.p - s, None)
        if lo != hi and abs(x.q) - lo == hi - abs(x.q):
            cl.append('halfway')
        if hi != lo and floor_log2(hi) > x.e:
            cl.append('carry')
    for c in cl:
        res.cls(c)
    if cl:
        res.nontrivial()
    _sample(res, case, cl, bool(cl))
    if why is not None:
        res.fail(f'veltkamp_split/{why}', case, expected='hi+lo = x, hi in p-s digits, lo in s digits', got=got)
    return why


# ---------------------------------------------------------------------------
# decomposition checks

SPECIALS = (PZERO, NZERO, PINF, NINF, NAN)


def carriers(fm: Fmt, d):
    """(name, Float) objects denoting d, as user code can hold them."""
    f = F.fl(d)
    out = [('bare', f)]
    if d == NAN:
        out.append(('ctx', Float(isnan=True, ctx=fm.ctx)))
        return out
    if d in (PINF, NINF):
        out.append(('ctx', Float(s=f.s, isinf=True, ctx=fm.ctx)))
        return out
    out.append(('ctx', Float(s=f.s, c=f.c, exp=f.exp, ctx=fm.ctx)))
    if f.c != 0:
        out.append(('bare<<3', Float(s=f.s, c=f.c << 3, exp=f.exp - 3)))
        # what `with fp.INTEGER: k = fp.round(x)` hands on: same (c, exp), context INTEGER
        tz = (f.c & -f.c).bit_length() - 1
        c0, e0 = f.c >> tz, f.exp + tz
        if e0 > 0:
            out.append(('under-INTEGER', Float(s=f.s, c=c0, exp=e0, ctx=fp.INTEGER)))
        try:
            x = float(Fraction(d))
            if Fraction(x) == d and x != 0 and abs(x) > 1e-300:
                out.append(('under-FP64', Float.from_float(x, ctx=fp.FP64)))
        except (OverflowError, ValueError):
            pass
    return out


def carrier_obj(fm: Fmt, d, name):
    for nme, o in carriers(fm, d):
        if nme == name:
            return o
    raise ValueError(f'no carrier {name} for {d}')


def _dens(out, n):
    if not isinstance(out, tuple) or len(out) != n:
        return None
    try:
        return [den(v) for v in out]
    except TypeError:
        return None


def _parts_fail(m, got, want_q, x_d, sign_strict):
    """Compares returned parts with exact parts want_q (Fractions); returns reason or None."""
    neg = x_d == NZERO or (isinstance(x_d, Fraction) and x_d < 0)
    for g, w in zip(got, want_q):
        if not same_num(g, w):
            return 'wrong parts'
        if sign_strict and w == 0 and g != (NZERO if neg else PZERO):
            return 'wrong sign of zero'
    return None


def check_split(res: Result, fm: Fmt, d, cname, obj, n, fn='split'):
    """split(x, n) (or modf when fn == 'modf', n = -1)."""
    m = fm.m
    case = {'fn': fn, 'ctx': fm.label, 'ops': [show(d)], 'carrier': cname, 'n': n}
    if fn == 'modf':
        out, exc = observe(core.modf, (obj,), fm.ctx)
    else:
        out, exc = observe(core.split, (obj, n), fm.ctx)
    res.case()
    res.cls(f'fn:{fn}')
    cl = []
    why = None
    may_raise = False
    if d == NAN:
        want = (NAN, NAN)
    elif d in (PINF, NINF):
        want = ((NZERO if d == NINF else PZERO), d) if fn == 'modf' else (d, d)
    elif d in (PZERO, NZERO):
        want = (d, d)
    else:
        want = None
        hi, lo = ref_split(d, n)
        may_raise = not (member(m, zden(hi, d < 0)) and member(m, zden(lo, d < 0)))
        if hi != 0 and lo != 0:
            cl.append('split-divides-digits')
        if may_raise:
            cl.append('part-unrepresentable')
    if want is not None:
        cl.append('special')
    for c in cl:
        res.cls(c)
    if cl:
        res.nontrivial()
    _sample(res, case, cl, bool(cl))
    got = None
    if exc is not None:
        got = f'raised {exc}'
        if not (may_raise and exc == 'ValueError'):
            why = f'raised {exc}'
    else:
        ds = _dens(out, 2)
        if ds is None:
            why, got = 'wrong result shape', repr(out)
        else:
            got = [show(x) for x in ds]
            if want is not None:
                # zero operand of plain split: sign not documented -> numeric comparison only
                if d in (PZERO, NZERO) and fn == 'split':
                    if not (same_num(ds[0], Fraction(0)) and same_num(ds[1], Fraction(0))):
                        why = 'wrong special-case result'
                elif tuple(ds) != want:
                    why = 'wrong special-case result'
            else:
                why = _parts_fail(m, ds, (hi, lo), d, False)
                if why is None and not all(member(m, g) for g in ds):
                    why = 'part not a member of the context'
    if why is not None:
        exp_ = [show(w) for w in want] if want is not None else [show(hi), show(lo)]
        res.fail(f'{fn}/{why}', case, expected=exp_, got=got)
    return why


def check_frexp(res: Result, fm: Fmt, d, cname, obj):
    m = fm.m
    case = {'fn': 'frexp', 'ctx': fm.label, 'ops': [show(d)], 'carrier': cname}
    out, exc = observe(core.frexp, (obj,), fm.ctx)
    res.case()
    res.cls('fn:frexp')
    cl = []
    why = None
    may_raise = False
    want = None
    if d == NAN:
        want = [(NAN,), (NAN,)]
    elif d in (PINF, NINF):
        want = [(d,), (NAN,)]
    elif d in (PZERO, NZERO):
        want = [(d,), (PZERO, NZERO)]
    else:
        e = floor_log2(abs(d))
        conv = [(d / pow2(e), e), (d / pow2(e + 1), e + 1)]
        ok = [member(m, mm) and member(m, Fraction(ee) if ee else PZERO) for mm, ee in conv]
        may_raise = not all(ok)      # the normalisation is not documented: refusing is accepted when either one has an unrepresentable part
        if e != 0:
            cl.append('frexp-scales')
        if not ok[0]:
            cl.append('part-unrepresentable')
        if not member(m, Fraction(e) if e else PZERO):
            cl.append('frexp:exponent-unrepresentable')
    if want is not None:
        cl.append('special')
    for c in cl:
        res.cls(c)
    if cl:
        res.nontrivial()
    _sample(res, case, cl, bool(cl))
    got = None
    if exc is not None:
        got = f'raised {exc}'
        if not (may_raise and exc == 'ValueError'):
            why = f'raised {exc}'
            if cname == 'bare' or cname == 'bare<<3':
                why += ' (operand carries no context)'
            elif cname != 'ctx':
                why += f' (operand {cname})'
    else:
        ds = _dens(out, 2)
        if ds is None:
            why, got = 'wrong result shape', repr(out)
        else:
            got = [show(x) for x in ds]
            if want is not None:
                if ds[0] not in want[0] or ds[1] not in want[1]:
                    why = 'wrong special-case result'
            else:
                mg, eg = ds
                fin = isinstance(mg, Fraction) and (isinstance(eg, Fraction) or eg in (PZERO, NZERO))
                ev = num(eg) if fin else None
                if not fin or ev.denominator != 1 or mg * pow2(int(ev)) != d:
                    why = 'm*2^e != x'
                    # root-cause signature
                    if mg == conv[0][0] and not member(m, Fraction(e) if e else PZERO):
                        why += ' (exponent not representable in the context was rounded)'
                    elif cname not in ('bare', 'ctx', 'bare<<3'):
                        why += f' (operand {cname})'
                elif not (1 <= abs(mg) < 2 or Fraction(1, 2) <= abs(mg) < 1):
                    why = 'mantissa not normalised'
                elif not (member(m, mg) and member(m, eg)):
                    why = 'part not a member of the context'
    if why is not None:
        exp_ = [sorted(w) for w in want] if want is not None else {'m,e': [show(conv[0][0]), conv[0][1]], 'ValueError allowed': may_raise}
        res.fail(f'frexp/{why}', case, expected=exp_, got=got)
    return why


def check_ldexp(res: Result, fm: Fmt, d, cname, obj, n):
    """n: int, or a Fraction that is not an integer (must raise AssertionError)."""
    m = fm.m
    case = {'fn': 'ldexp', 'ctx': fm.label, 'ops': [show(d)], 'carrier': cname, 'n': show(n) if isinstance(n, Fraction) else n}
    nobj = F.fl(n) if isinstance(n, Fraction) else n
    out, exc = observe(core.ldexp, (obj, nobj), fm.ctx)
    res.case()
    res.cls('fn:ldexp')
    cl = []
    why = None
    if isinstance(n, Fraction):
        cl.append('ldexp:non-integer-n')
        cl.append('special')
        o = None
        if exc != 'AssertionError':
            why = 'non-integer n did not raise AssertionError'
        owhy = 'non-integer n'
    else:
        if isinstance(d, Fraction):
            o = expect(m, d * pow2(n))
            lo, hi = neighbours(d * pow2(n), m.p, m.nmin) if m.kind != 'real' else (0, 0)
            if lo != hi:
                cl.append('ldexp:rounds')
                if abs(d * pow2(n)) - lo == hi - abs(d * pow2(n)):
                    cl.append('halfway')
            if o.why.startswith('overflow') or 'overflow' in o.why:
                cl.append('ldexp:overflow')
            if fm.emin is not None and lo != hi and abs(d * pow2(n)) < pow2(fm.emin):
                cl.append('ldexp:underflow')
        else:
            o = expect(m, d)
            cl.append('special')
        owhy = o.why
    for c in cl:
        res.cls(c)
    if cl:
        res.nontrivial()
    _sample(res, case, cl, bool(cl))
    got = None
    if o is not None:
        if exc is not None:
            got = f'raised {exc}'
            if exc not in o.raises:
                why = f'raised {exc}'
        else:
            try:
                g = den(out)
            except TypeError:
                g = None
            got = show(g) if g is not None else repr(out)
            if g is None:
                why = 'wrong result shape'
            elif not o.values:
                why = f'returned instead of raising {sorted(o.raises)}'
            elif g not in o.values:
                why = 'not the exact product rounded once'
    else:
        got = f'raised {exc}' if exc else repr(out)
    if why is not None:
        res.fail(f'ldexp/{owhy}/{why}', case,
                 expected=(sorted(show(v) for v in o.values) + sorted(o.raises)) if o is not None else 'AssertionError', got=got)
    return why


# ---------------------------------------------------------------------------
# job space

def _mps(p, emin, rm):
    return ('mps', (p, emin), {'rm': rm})


def _ieee(es, nbits, rm, ov='OVERFLOW'):
    return ('ieee', (es, nbits), {'rm': rm, 'overflow': ov})


ALL = MODES


def pair_jobs(tier):
    """(name, spec, nparts, stride): one EFT over the operand pairs of one context.
    stride > 1: every stride-th first operand (chosen by seed) against all second operands."""
    T = tier == 'thorough'
    jobs = []

    def add(names_modes, mk, nparts, stride=1):
        for name, modes in names_modes:
            for rm in modes:
                jobs.append((name, mk(rm), nparts, stride))

    SUBI = ('RNE', 'RTZ', 'RTO')
    SUBP = ('RNE', 'RTZ', 'RTP', 'RTO')
    # ---- sums, MPSFloat (unbounded above): p -> (ideal modes, fast, classic, priest modes, nparts, stride)
    if not T:
        sums = {2: (ALL, RN, RN, ALL, 1, 1), 3: (ALL, RN, RN, ALL, 1, 1), 4: (ALL, RN, RN, ALL, 2, 1),
                5: (SUBI, RN, RN, SUBP, 4, 6), 6: (('RNE',), ('RNE',), RN, ('RTZ', 'RTN'), 4, 32)}
    else:
        sums = {2: (ALL, RN, RN, ALL, 1, 1), 3: (ALL, RN, RN, ALL, 1, 1), 4: (ALL, RN, RN, ALL, 4, 1),
                5: (ALL, RN, RN, ALL, 16, 1), 6: (SUBI, RN, RN, SUBP, 16, 4), 7: (('RNA',), RN, RN, ('RNE', 'RAZ', 'RTE'), 16, 32),
                8: (('RTP',), RN, RN, ('RNA', 'RTN'), 16, 128)}
    for p, (mi, mf, mc, mp_, nparts, stride) in sums.items():
        emin = -2 if p % 2 == 0 else 1
        mk = (lambda p, emin: lambda rm: _mps(p, emin, rm))(p, emin)
        add([('ideal_2sum', mi), ('fast_2sum', mf), ('classic_2sum', mc), ('priest_2sum', mp_)], mk, nparts, stride)
    # ---- sums, IEEE (bounded: windows below emax; "s finite" scope for ideal/fast)
    for p in range(2, 6 if T else 5):
        for es in ((3, 4) if T else (3,)):
            if es == 4 and p > 4:
                continue
            mk = (lambda es, p: lambda rm: _ieee(es, es + p, rm))(es, p)
            full = T or p <= 3
            add([('ideal_2sum', ALL if full else ('RNE', 'RTZ', 'RTO', 'RTP')), ('fast_2sum', RN), ('classic_2sum', RN),
                 ('priest_2sum', ALL if full else ('RNE', 'RTZ', 'RTN', 'RTE'))], mk, 1 if es + p <= 6 else 4)
    # ---- products, MPSFloat: p -> (ideal modes, fast modes, nparts, stride, classic nparts, classic stride)
    if not T:
        muls = {2: (ALL, ALL, 1, 1, 1, 1), 3: (ALL, ALL, 1, 1, 2, 1), 4: (SUBP, ALL, 2, 1, 8, 1),
                5: (SUBI, SUBP, 4, 8, 4, 32), 6: (('RNE',), ('RTN',), 4, 64, 4, 64)}
    else:
        muls = {2: (ALL, ALL, 1, 1, 1, 1), 3: (ALL, ALL, 1, 1, 2, 1), 4: (ALL, ALL, 4, 1, 16, 1),
                5: (ALL, ALL, 16, 2, 32, 4), 6: (SUBI, SUBP, 16, 8, 32, 16), 7: (('RAZ',), ('RNE', 'RTE'), 16, 64, 32, 128),
                8: (('RNA',), ('RTP',), 16, 256, 32, 512)}
    for p, (mi, mf, nparts, stride, cparts, cstride) in muls.items():
        mk = (lambda p: lambda rm: _mps(p, -p - 1, rm))(p)
        add([('ideal_2mul', mi), ('fast_2mul', mf)], mk, nparts, stride)
        add([('classic_2mul', RN)], mk, cparts, cstride)
    # ---- products, IEEE
    for p in range(2, 6 if T else 5):
        mk = (lambda p: lambda rm: _ieee(4, 4 + p, rm))(p)
        st = 1 if (T or p <= 3) else 4
        add([('ideal_2mul', ('RNE', 'RTZ', 'RTO', 'RAZ')), ('fast_2mul', ('RNE', 'RTN', 'RAZ', 'RTE'))], mk,
            1 if p <= 2 else 4, st)
        add([('classic_2mul', RN)], mk, 1 if p <= 2 else 8, st)
    return jobs


def fma_jobs(tier):
    """(name, spec, cfg, nparts, stride); stride selects (a, b) pairs, c always runs over everything."""
    T = tier == 'thorough'
    jobs = []
    #            p: (A nparts, A stride, B nparts, B stride, I nparts, I stride)   [None = not run]
    if not T:
        plan = {2: (1, 1, 1, 1, 1, 1), 3: (2, 1, 2, 2, 4, 4), 4: (8, 3, 4, 8, None, None), 5: (8, 24, None, None, None, None)}
    else:
        plan = {2: (1, 1, 1, 1, 1, 1), 3: (2, 1, 2, 1, 4, 1), 4: (16, 1, 16, 1, 16, 4), 5: (32, 2, 16, 16, None, None),
                6: (32, 64, None, None, None, None)}
    for p, (an, ast, bn, bst, in_, ist) in plan.items():
        for name, modes in (('classic_2fma', RN), ('ideal_fma', ALL if (p <= 3 or T and p <= 4) else ('RNE', 'RTZ', 'RTO', 'RTN') if p == 4 else ('RNE', 'RTZ', 'RTO'))):
            for rm in modes:
                jobs.append((name, _mps(p, 1 - p, rm), 'A', an, ast))
                if bn is not None:
                    jobs.append((name, _mps(p, 1 - p, rm), 'B', bn, bst))
                if in_ is not None:
                    jobs.append((name, _ieee(4, 4 + p, rm), 'I', in_, ist))
    return jobs


def dec_jobs(tier):
    """('dec'|'ldexp'|'velt', spec)"""
    T = tier == 'thorough'
    jobs = []
    P = range(2, 9 if T else 7)
    for p in P:
        for emin in ((-3, 0, 3) if p <= 5 else (-3,)):
            for rm in ('RNE', 'RTZ'):
                jobs.append(('dec', _mps(p, emin, rm)))
        for es in (2, 3, 4):
            if es + p > (11 if T else 9):
                continue
            jobs.append(('dec', _ieee(es, es + p, 'RNE')))
    jobs.append(('dec', ('mpfixed', (-3,), {'rm': 'RNE'})))
    jobs.append(('dec', ('real', (), {})))
    for p in range(2, 8 if T else 6):
        for rm in ALL:
            jobs.append(('ldexp', _mps(p, -2, rm)))
            for es in ((2, 3, 4) if T else (2, 3)):
                if es + p > (9 if T else 7):
                    continue
                for ov in ('OVERFLOW', 'SATURATE'):
                    if ov == 'SATURATE' and not T and rm not in ('RNE', 'RTZ', 'RTP', 'RTO'):
                        continue
                    jobs.append(('ldexp', _ieee(es, es + p, rm, ov)))
    for rm in ('RNE', 'RTP'):
        jobs.append(('ldexp', ('mpfixed', (-3,), {'rm': rm})))
        jobs.append(('ldexp', ('fixed', (True, -2, 6), {'rm': rm, 'overflow': 'SATURATE'})))
        jobs.append(('ldexp', ('fixed', (True, -2, 6), {'rm': rm, 'overflow': 'WRAP'})))
    jobs.append(('ldexp', ('real', (), {})))
    for p in range(2, 10 if T else 8):
        for rm in (ALL if T else RN + ('RTZ', 'RTO')):      # modes other than RNE/RNA and s outside 2..p-2 are diagnostics only
            jobs.append(('velt', _mps(p, -3, rm)))
        if 4 <= p <= 6:
            for rm in RN:
                jobs.append(('velt', _ieee(4, 4 + p, rm)))
    # ideal_* under non-floating contexts ("any context in which the rounded result is finite")
    for rm in ('RNE', 'RTZ', 'RTO'):
        jobs.append(('ideal-fixed', ('mpfixed', (-2,), {'rm': rm})))
        for ov in ('SATURATE', 'WRAP'):
            jobs.append(('ideal-fixed', ('fixed', (True, -1, 5), {'rm': rm, 'overflow': ov})))
    return jobs


def shards(tier, seed):
    out = []
    for name, spec, nparts, stride in pair_jobs(tier):
        for part in range(nparts):
            out.append(('pair', name, spec, part, nparts, stride, seed))
    for name, spec, cfg, nparts, stride in fma_jobs(tier):
        for part in range(nparts):
            out.append(('fma', name, spec, cfg, part, nparts, stride, seed))
    for kind, spec in dec_jobs(tier):
        out.append((kind, spec, tier))
    # deterministic shuffle: mixes heavy and light shards (even pool load, varied samples in the evidence)
    out.sort(key=lambda s: h64('order', s))
    return out


# ---------------------------------------------------------------------------
# shard runners

def _keep(seed, tag, i, stride):
    return stride <= 1 or h64(seed, tag, i) % stride == 0


def _in_mul_window(fm: Fmt, a: Op, b: Op, name):
    """Window of the product EFTs (zero operands are always inside)."""
    if name == 'classic_2mul' and fm.emax is not None:
        # each non-zero operand is split on its own: C*x must not overflow, whatever the other operand is
        lim = fm.emax - (fm.p + 1) // 2 - 2
        if (a.e is not None and a.e > lim) or (b.e is not None and b.e > lim):
            return False
    if a.e is None or b.e is None:
        return True
    s = a.e + b.e
    if s < fm.emin + fm.p - 1:
        return False
    if fm.emax is not None:
        if s > fm.emax - 2:
            return False
    return True


def run_pair(res: Result, name, spec, part, nparts, stride, seed):
    fm = Fmt(spec)
    kind = EFT[name][1]
    p = fm.p
    if fm.emax is not None:
        hi_e = fm.emax                      # bounded context: every finite member
    elif kind == 'sum':
        hi_e = fm.emin + p + 3
    else:
        hi_e = fm.emin + 2 * p + 1
    pts = fm.positive(fm.q, hi_e)
    ops = signed(pts)
    diag = False
    if name in ('classic_2sum', 'priest_2sum') and fm.emax is not None:
        ops = [o for o in ops if o.e is None or o.e <= fm.emax - 2]
    if name == 'classic_2mul':
        s = (p + 1) // 2
        if not (member(fm.m, Fraction(p)) and member(fm.m, Fraction((1 << s) + 1))):
            res.skip('classic_2mul: p or the splitting constant is not a member of the context', len(ops))
            return
        diag = p < 3
    res.count('contexts')
    tag = (name, fm.label)
    B = ops
    if name == 'fast_2sum':
        B = sorted(ops, key=lambda o: abs(o.q))
        mags = [abs(o.q) for o in B]
    for i, a in enumerate(ops):
        if i % nparts != part or not _keep(seed, tag, i, stride):
            continue
        if name == 'fast_2sum':
            import bisect
            cand = B[:bisect.bisect_right(mags, abs(a.q))]
            res.skip('fast_2sum: |a| < |b| (outside precondition, not generated)', len(B) - len(cand))
        elif kind == 'mul' and not name.startswith('ideal'):
            cand = [b for b in B if _in_mul_window(fm, a, b, name)]
            res.skip(f'{name}: outside exponent window (not generated)', len(B) - len(cand))
        else:
            cand = B
        for b in cand:
            check_eft(res, fm, name, (a, b), diag=diag)


def run_fma(res: Result, name, spec, cfg, part, nparts, stride, seed):
    fm = Fmt(spec)
    p, emin, q = fm.p, fm.emin, fm.q
    triples = []      # (list of a, list of b, list of c)
    if cfg == 'A':
        # a, b in [1, 2): e(a)+e(b) = 0 = emin+p-1 exactly at the window edge (emin = 1-p); c over everything incl. subnormals
        A = [Op(x) for x in fm.positive(0, 0)] + [Op(PZERO)]
        Bs = signed(fm.positive(0, 0), zeros=False) + [Op(NZERO)]
        C = signed(fm.positive(q, p + 2))
        groups = [(A, Bs, C)]
    elif cfg == 'B':
        # a subnormal or in the first normal binade, b in the binade that puts the pair exactly on the window edge
        groups = []
        C = signed(fm.positive(q, emin + 2 * p + 1))
        for ea in range(q, emin + 1):
            A = signed(fm.positive(ea, ea), zeros=False)
            eb = emin + p - 1 - ea
            Bs = [Op(x) for x in fm.positive(eb, eb)]
            groups.append((A, Bs, C))
    else:
        # IEEE: a in [1,2), b in the lowest and the highest binade of the window, c up to emax-3 (classic) / everything (ideal)
        groups = []
        A = [Op(x) for x in fm.positive(0, 0)]
        top = fm.emax if name.startswith('ideal') else fm.emax - 3
        C = signed(fm.positive(q, top))
        for eb in sorted({emin + p - 1, fm.emax - 3, 0} | ({fm.emax} if name.startswith('ideal') else set())):
            Bs = signed(fm.positive(eb, eb), zeros=False)
            groups.append((A, Bs, C))
    res.count('contexts')
    tag = (name, fm.label, cfg)
    i = 0
    for A, Bs, C in groups:
        for a in A:
            for b in Bs:
                i += 1
                if i % nparts != part or not _keep(seed, tag, i, stride):
                    continue
                for c in C:
                    check_eft(res, fm, name, (a, b, c), sample_every=2003)


def run_velt(res: Result, spec):
    fm = Fmt(spec)
    p = fm.p
    ops = signed(fm.positive(fm.q, fm.emin + p + 2))
    res.count('contexts')
    for s in range(1, p):
        in_scope = fm.m.rm in RN and 2 <= s <= p - 2
        if not member(fm.m, Fraction((1 << s) + 1)):
            res.skip('veltkamp_split: splitting constant not a member', len(ops))
            continue
        for x in ops:
            if fm.emax is not None and x.e is not None and x.e > fm.emax - s - 2:
                res.skip('veltkamp_split: outside exponent window (not generated)')
                continue
            check_veltkamp(res, fm, x, s, diag=not in_scope)


def _dec_operands(fm: Fmt):
    """(denotation, is_member) finite non-zero operands: all members in a window and wider-than-context values."""
    m = fm.m
    out = []
    if m.kind == 'real':
        base = Fmt(_mps(4, -3, 'RNE'))
        return [(x, True) for o in signed(base.positive(base.q, base.emin + 6), zeros=False) for x in (o.q,)]
    if m.p is None:
        ulp = pow2(m.nmin + 1)
        top = int(m.pos_max / ulp) if m.pos_max else 40
        for k in range(1, top + 1):
            out.append((k * ulp, True)); out.append((-k * ulp, True))
        for k in (1, 3, 5, 9):
            out.append((k * ulp / 4, False)); out.append((-k * ulp / 2, False))
        return out
    hi_e = fm.emin + m.p + 3
    for x in fm.positive(fm.q, hi_e):
        out.append((x, True)); out.append((-x, True))
    # wider operands: p+2 digits on the same exponent range (members of a finer grid that are not members here)
    wide = Fmt(_mps(m.p + 2, fm.emin, 'RNE'))
    n = 0
    for x in wide.positive(fm.q - 2, min(hi_e, fm.emin + 4)):
        if not member(m, x):
            n += 1
            out.append((x if n % 2 else -x, False))
    return out


def run_dec(res: Result, spec, tier):
    fm = Fmt(spec)
    m = fm.m
    res.count('contexts')
    big = m.p is not None and m.p >= 6
    opers = _dec_operands(fm)
    span_lo = (fm.q if fm.q is not None else -8) - 2
    span_hi = max((floor_log2(abs(d)) for d, _ in opers), default=4) + 2
    for d, is_m in opers:
        cars = carriers(fm, d)
        if not is_m:
            cars = [c for c in cars if c[0] not in ('ctx',)]
        if big:
            cars = cars[:2]
        e = floor_log2(abs(d))
        for cname, obj in cars:
            check_frexp(res, fm, d, cname, obj)
            check_split(res, fm, d, cname, obj, -1, fn='modf')
            ns = range(span_lo, span_hi + 1) if cname in ('bare', 'ctx') else (e - 1, e, -1, 0)
            for n in ns:
                check_split(res, fm, d, cname, obj, n)
    for d in SPECIALS:
        if d == NAN and not m.has_nan or d in (PINF, NINF) and not m.has_inf:
            continue
        for cname, obj in carriers(fm, d):
            check_frexp(res, fm, d, cname, obj)
            check_split(res, fm, d, cname, obj, -1, fn='modf')
            for n in (span_lo, -1, 0, 1, span_hi):
                check_split(res, fm, d, cname, obj, n)
    # non-integer n is a ValueError whatever x is
    for d in (Fraction(3, 2), PZERO, NAN, PINF):
        if d == NAN and not m.has_nan or d == PINF and not m.has_inf:
            continue
        for nq in (Fraction(1, 2), Fraction(-5, 4)):
            out, exc = observe(core.split, (F.fl(d), F.fl(nq)), fm.ctx)
            res.case(); res.cls('special'); res.cls('fn:split'); res.nontrivial()
            if exc != 'ValueError':
                res.fail('split/non-integer n did not raise ValueError',
                         {'fn': 'split-nonint', 'ctx': fm.label, 'ops': [show(d)], 'n': show(nq)}, expected='ValueError',
                         got=f'raised {exc}' if exc else repr(out))


def run_ldexp(res: Result, spec, tier):
    fm = Fmt(spec)
    m = fm.m
    res.count('contexts')
    opers = _dec_operands(fm)
    if m.p is not None and m.kind != 'real':
        lo_e = fm.q
        hi_e = fm.emax if fm.emax is not None else fm.emin + m.p + 3
        width = hi_e - lo_e + m.p + 3
    else:
        width = 9
    ns = list(range(-width, width + 1))
    if m.rm not in ('RNE', 'RTO', 'RTN'):
        ns = ns[(len(m.rm) + width) % 2::2]            # thinner n for the other modes (deterministic offset)
    if m.overflow == 'SATURATE':
        ns = [n for n in ns if n >= -2]                 # the SATURATE variants add nothing below the overflow side
    ns += [-1000, 1000, -100000, 100000]
    for d, is_m in opers:
        cars = carriers(fm, d)
        cars = [cars[0]] if not is_m else [cars[0], cars[1]]
        for ci, (cname, obj) in enumerate(cars):
            for n in (ns if ci == 0 else ns[::5]):
                if abs(n) > 1000 and (m.kind == 'real' or d.numerator % 7 != 1 and d.denominator != 1):
                    continue
                check_ldexp(res, fm, d, cname, obj, n)
        if d.denominator == 1 and d.numerator in (1, 3):
            check_ldexp(res, fm, d, 'bare', cars[0][1], Fraction(1, 2))
            check_ldexp(res, fm, d, 'bare', cars[0][1], Fraction(-7, 4))
    for d in SPECIALS:
        if d == NAN and not m.has_nan or d in (PINF, NINF) and not m.has_inf:
            continue
        if d == NZERO and not m.has_neg_zero:
            continue
        for cname, obj in carriers(fm, d):
            for n in (-width, -3, 0, 1, width, 1000):
                check_ldexp(res, fm, d, cname, obj, n)
            check_ldexp(res, fm, d, cname, obj, Fraction(1, 2))


def run_ideal_fixed(res: Result, spec):
    fm = Fmt(spec)
    m = fm.m
    res.count('contexts')
    ops = [Op(d) for d, is_m in _dec_operands(fm) if is_m] + [Op(PZERO)]
    if len(ops) > 40:
        ops = ops[::max(1, len(ops) // 40)]
    for a in ops:
        for b in ops:
            check_eft(res, fm, 'ideal_2sum', (a, b), sample_every=1009)
            check_eft(res, fm, 'ideal_2mul', (a, b), sample_every=1009)
        for b in ops[::5]:
            for c in ops[::5]:
                check_eft(res, fm, 'ideal_fma', (a, b, c), sample_every=1009)


def run_shard(shard):
    res = Result()
    res.sample_at = 1 + h64('sample', shard) % 2500
    k = shard[0]
    if k == 'pair':
        run_pair(res, *shard[1:])
    elif k == 'fma':
        run_fma(res, *shard[1:])
    elif k == 'velt':
        run_velt(res, shard[1])
    elif k == 'dec':
        run_dec(res, shard[1], shard[2])
    elif k == 'ldexp':
        run_ldexp(res, shard[1], shard[2])
    elif k == 'ideal-fixed':
        run_ideal_fixed(res, shard[1])
    else:
        raise ValueError(shard)
    return res


# ---------------------------------------------------------------------------

def selftest():
    """Oracle sanity against the platform's binary64 arithmetic and libm (RNE, gradual underflow)."""
    import random
    rnd = random.Random(20)
    _, m64 = F.mk_ieee(11, 64)
    xs = [1.0, 1.5, 0.1, 3.0e-310, 5e-324, 1.7976931348623157e308, 2.0 ** -1022, 123456.789, -0.75, -2.5e-320]
    for _ in range(60):
        xs.append(math.ldexp(rnd.random() * 2 - 1, rnd.randint(-1080, 1023)))
    for x in xs:
        q = Fraction(x)
        if q == 0:
            continue
        # split / modf
        f, i = math.modf(x)
        hi, lo = ref_split(q, -1)
        assert (Fraction(i), Fraction(f)) == (hi, lo), ('modf', x, hi, lo)
        # frexp: C convention is one of the two accepted
        mm, e = math.frexp(x)
        assert Fraction(mm) * pow2(e) == q and floor_log2(abs(q)) + 1 == e, ('frexp', x)
        # ldexp is one rounding of the exact product
        for n in (-1080, -60, -3, 0, 7, 900):
            try:
                y = math.ldexp(x, n)
            except OverflowError:
                y = math.copysign(math.inf, x)
            o = expect(m64, q * pow2(n))
            assert den(y) in o.values, ('ldexp', x, n, y, o.values)
    # the EFT identity checker on hardware doubles: Knuth 2Sum and the oracle's first rounding
    for _ in range(200):
        a = math.ldexp(rnd.random() - 0.5, rnd.randint(-30, 30))
        b = math.ldexp(rnd.random() - 0.5, rnd.randint(-30, 30))
        s = a + b
        aa = s - b
        bb = s - aa
        t = (a - aa) + (b - bb)
        r = Fraction(a) + Fraction(b)
        assert Fraction(s) + Fraction(t) == r, ('2sum', a, b)
        if r:
            assert expect(m64, r).values == {den(s)}, ('RN', a, b)
    assert digits(Fraction(5, 8)) == 3 and digits(Fraction(12)) == 2 and digits(Fraction(0)) == 0
    assert ref_split(Fraction(13, 8), 0) == (0, Fraction(13, 8)) and ref_split(Fraction(-13, 8), -2) == (Fraction(-3, 2), Fraction(-1, 8))


def _undo(s):
    if isinstance(s, str) and s not in (NAN, PINF, NINF, PZERO, NZERO):
        return Fraction(s)
    return s


def replay(case):
    """Re-runs one saved case (plain data)."""
    res = Result()
    kind, args, kw = case['ctx']
    fm = Fmt((kind, tuple(args), dict(kw)))
    fn = case['fn']
    ds = [_undo(x) for x in case['ops']]
    if fn in EFT:
        check_eft(res, fm, fn, tuple(Op(d if d != 0 else PZERO) for d in ds))
    elif fn == 'veltkamp_split':
        check_veltkamp(res, fm, Op(ds[0]), int(case['s']))
    elif fn in ('split', 'modf'):
        check_split(res, fm, ds[0], case['carrier'], carrier_obj(fm, ds[0], case['carrier']), int(case['n']), fn=fn)
    elif fn == 'frexp':
        check_frexp(res, fm, ds[0], case['carrier'], carrier_obj(fm, ds[0], case['carrier']))
    elif fn == 'ldexp':
        n = case['n']
        n = Fraction(n) if isinstance(n, str) else int(n)
        check_ldexp(res, fm, ds[0], case['carrier'], carrier_obj(fm, ds[0], case['carrier']), n)
    elif fn == 'split-nonint':
        out, exc = observe(core.split, (F.fl(ds[0]), F.fl(Fraction(case['n']))), fm.ctx)
        if exc != 'ValueError':
            res.fail('split/non-integer n did not raise ValueError', case, expected='ValueError', got=exc or repr(out))
    else:
        raise ValueError(f'unknown fn {fn}')
    return [f for fl in res.failures.values() for f in fl]
