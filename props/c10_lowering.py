"""
C10 — Rounding-lowering rewrites leave the rounding function unchanged.

`quantize` programs (`with C: y = fp.round(x)`; + cast / returned-round forms, and a guarded form with the same rounding in
both arms of an and/or/not class test on the operand; C spelled as constructor text
or captured constant; argument optionally pinned by monomorphize) are generated as source text for small
contexts of every family, loaded through the real decorator, rewritten by each lowering strategy alone and by
every prefix of the documented chain, and evaluated on the boundary operands of C.

Oracle: differential  q(x)  vs  lowered(x)  by denotation (sign of zero, NaN, infinities; a raise must stay a
raise of the same type).  Both sides are also compared with the independent rounding oracle so that a defect
common to both is attributed to C01 (class `c01:both-sides-disagree-with-oracle`), not reported here.
A refusal (TransformDeclined / TransformReferenceError for where=0 / a `refusals()` entry) is allowed and
counted; a refused site must not be listed by `sites()` and a listed one must be rewritten.

Second layer: elim_round / insert_round on one-operation programs whose argument formats are pinned to small
formats A (A1, A2) and whose target B is A perturbed by one step (precision, emin, bound, NaN / inf / -0
option), so the identity is provable or just barely not; operands are all members of the argument formats.
"""

from __future__ import annotations

import random
import signal
from fractions import Fraction

import fpy2 as fp
import fpy2.strategies as st
from fpy2.strategies import TransformDeclined, TransformReferenceError
from fpy2.types import RealType

from props import c01_rounding as c01
from vlib import c10_gen as G
from vlib import formats as F
from vlib.denote import NAN, NINF, NZERO, PINF, PZERO, den, pow2, show
from vlib.load import load_module, unload
from vlib.oracle_round import MODES, Model, expect, floor_log2, member
from vlib.runner import Result, h64

PROPERTY = 'C10'
LEVEL = 'exploration'
RULE = ('Contexts: the configuration space of C01 quick (every float and fixed family + Exp + REAL x 8 modes x overflow modes x '
        'NaN/inf/-0 options x substitute values; 18960 contexts) -- quick takes a per-family sample drawn with the run seed '
        '(~2700 contexts, so seeds walk through the space), thorough all of it plus 4000 of the wider C01 thorough space. Per context: '
        'quantize programs as source text through the real decorator (assign / returned round / cast / returned cast; context as '
        'constructor text and as captured constant; annotated or not); each of unfold_special, unfold_neg_zero, '
        'unfold_overflow(early_check F/T), float_to_fixed, rescale_fixed, elim_round, insert_round alone with where = None / 0 / '
        'cursor (listing consistency: a refused site is not in sites(), a listed one is rewritten); every prefix of '
        'monomorphize(FP32|FP64) -> [unfold_special ->] [unfold_neg_zero ->] unfold_overflow(early F/T) -> float_to_fixed -> '
        'rescale_fixed -> simplify (+ elim_round | insert_round(FP64) tail), with where=None or one cursor forwarded across the steps. '
        'Operands: every threshold a lowering branches on (smallest subnormal and its tie with zero, 2^emin, maxval, infval, the '
        'overflow tie, the clamp end 2^(emax+1), one wrap period) with 0, +-ulp/8, +-ulp/2, +-ulp and a non-dyadic perturbation, in both '
        'signs; a seeded sample of the C01 breakpoint operands; the extremes of the pinned argument format; both zeros, both '
        'infinities, NaN; carriers Float / Fraction / float. Non-trivial = a rewritten program evaluated on an operand within one '
        'ulp of such a threshold or on a zero / special; distinct by (context, program form, spelling, rewrite sequence, where, '
        'operand), which the enumeration never repeats (contexts are de-duplicated after placeholder resolution). '
        'Arith layer: one-operation programs (round, cast, neg, abs, add, sub, mul, round(mul), mul+add) with argument formats '
        'pinned to small formats and the target either the exact result format +-1 step, the argument format +-1 step '
        '(precision, emin, bound, NaN / inf / -0 flag, neighbouring family) or unrelated; elim_round / insert_round; operands = all '
        'members (smallest and largest magnitudes always) incl. specials; every evaluation there follows a claimed identity.')
ASSUMPTIONS = [
    'Values only: inexact/overflow flags of results are not compared.',
    'An operand for which the original program raises (ValueError for an unrepresentable special or an inexact cast, OverflowError under '
    'OV.ASSERT) must raise the same exception type after the rewrite.',
    'A rewrite that leaves the program text unchanged under where=None is a refusal: counted, not evaluated. TransformDeclined and '
    'TransformReferenceError (where=0 with no site) are refusals; any other exception out of a strategy is a failure bucket.',
    'The absolute oracle vlib.oracle_round is used for attribution only: both sides wrong the same way => class c01:*, not a C10 failure; '
    'a differential mismatch is a failure whatever the oracle says (the attribution is recorded in `got`).',
    'Pinned chains only receive operands that are members of the pinned argument format (FP32 / FP64), as monomorphize promises; '
    'arith programs only receive members of their argument formats.',
    'Excluded by construction (known finding F15 / C14, counted under skipped): exact negation / multiplication producing -0 from +0 '
    'when no argument format has a -0 -- the abstract operators do not derive it, so elim_round / insert_round claim an identity for a '
    'target without -0.',
    'Stochastic contexts (num_randbits > 0) are not generated: results are random, so the differential oracle does not apply.',
]
EXHAUSTIVE = {'quick': False, 'thorough': False}
FLOORS = {'near:emin': 0.05, 'near:maxval': 0.1, 'near:infval': 0.1, 'near:ovthr': 0.1, 'near:clamptop': 0.05, 'near:halfsub': 0.08,
          'near:zero': 0.05, 'special': 0.02, 'zero': 0.015, 'nondyadic': 0.02, 'rewritten': 0.5, 'cast-rewritten': 100, 'guarded-rewritten': 500,
          'chain:complete': 500, 'chain:forwarded-cursor': 100, 'arith:acted': 100, 'arith:declined': 100, 'arith:special-operand': 200,
          'applied:unfold_special': 1000, 'applied:unfold_neg_zero': 300, 'applied:unfold_overflow': 500,
          'applied:unfold_overflow(early_check)': 500, 'applied:float_to_fixed': 500, 'applied:rescale_fixed': 500,
          'applied:insert_round': 100, 'applied:simplify': 500}

TRANSFORM_TIMEOUT = 30

# ---------------------------------------------------------------------------
# rewrites

SITED = {
    'us': (st.unfold_special, {}),
    'unz': (st.unfold_neg_zero, {}),
    'uo': (st.unfold_overflow, {}),
    'uoe': (st.unfold_overflow, {'early_check': True}),
    'f2f': (st.float_to_fixed, {}),
    'rf': (st.rescale_fixed, {}),
}
LONG = {'us': 'unfold_special', 'unz': 'unfold_neg_zero', 'uo': 'unfold_overflow', 'uoe': 'unfold_overflow(early_check)',
        'f2f': 'float_to_fixed', 'rf': 'rescale_fixed', 'er': 'elim_round', 'ir': 'insert_round', 'simp': 'simplify',
        'mono': 'monomorphize'}
ALONE = ('us', 'unz', 'uo', 'uoe', 'f2f', 'rf', 'er', 'ir')

PINS = {'FP32': (fp.FP32, ('ieee', (8, 32), {'rm': 'RNE'})), 'FP64': (fp.FP64, ('ieee', (11, 64), {'rm': 'RNE'}))}
_PIN_MODELS = {}


def pin_model(name):
    if name not in _PIN_MODELS:
        _PIN_MODELS[name] = F.build(PINS[name][1])[1]
    return _PIN_MODELS[name]


class _Timeout(Exception):
    pass


def _alarm(signum, frame):
    raise _Timeout()


class Refused(Exception):
    def __init__(self, why):
        self.why = why


class Inconsistent(Exception):
    """sites()/refusals() and the rewrite disagree."""
    def __init__(self, what, detail=''):
        self.what = what
        self.detail = detail


def apply_step(f, step, where='none', ir_ctx=None, cursor=None):
    """Returns the rewritten Function.  Raises Refused (allowed), Inconsistent (a failure), _Timeout,
    or whatever the strategy raised unexpectedly."""
    old = signal.signal(signal.SIGALRM, _alarm)
    signal.alarm(TRANSFORM_TIMEOUT)
    try:
        return _apply_step(f, step, where, ir_ctx, cursor)
    finally:
        signal.alarm(0)
        signal.signal(signal.SIGALRM, old)


def _apply_step(f, step, where, ir_ctx, cursor=None):
    if step.startswith('mono:'):
        name = step[5:]
        n = len(f.args)
        return st.monomorphize(f, args=[RealType(PINS[name][0])] * n)
    if step == 'simp':
        return st.simplify(f)
    if step == 'er':
        g = st.elim_round(f)
        if g.format() == f.format():
            raise Refused('elim_round: nothing provable')
        return g
    if step == 'ir':
        strategy, kw, skw = st.insert_round, {'ctx': ir_ctx}, {'ctx': ir_ctx}
        call = lambda **w: st.insert_round(f, ir_ctx, **w)
    else:
        strategy, kw = SITED[step]
        skw = {}
        call = lambda **w: strategy(f, **kw, **w)
    if where == 'fwd':
        # one cursor of the pinned program aims the whole sequence; the strategies forward it across each step
        try:
            g = call(where=cursor)
        except (TransformDeclined, TransformReferenceError) as e:
            raise Refused(str(e)[:120])
        if g.format() == f.format():
            raise Inconsistent('cursor-accepted-but-nothing-rewritten')
        return g
    listed = st.sites(strategy, f, **skw)
    early = bool(kw.get('early_check'))
    if where == 'none':
        g = call()
        changed = g.format() != f.format()
        if changed and not listed and not early:
            raise Inconsistent('rewrote-unlisted-site')
        if not changed and listed and not early:
            raise Inconsistent('listed-site-not-rewritten')
        if not changed:
            refs = st.refusals(strategy, f, **skw)
            raise Refused(refs[0][1] if refs else 'no candidate')
        return g
    if where == 'idx':
        target = 0
    else:
        if listed:
            target = listed[0]
        else:
            refs = st.refusals(strategy, f, **skw)
            if not refs:
                raise Refused('no candidate')
            target = refs[0][0]
    try:
        g = call(where=target)
    except (TransformDeclined, TransformReferenceError) as e:
        # "after a refusal by index/cursor the same site must not appear in sites()"
        if listed and not early:
            raise Inconsistent('refused-site-is-listed', str(e)[:200])
        if listed and early:
            raise Refused('early_check: ' + str(e)[:80])
        raise Refused(str(e)[:120])
    if not listed:
        raise Inconsistent('rewrote-unlisted-site')
    return g


def observe(fn, obj):
    try:
        r = fn(obj) if not isinstance(obj, tuple) else fn(*obj)
    except _Timeout:
        raise
    except Exception as e:     # the type is compared / bucketed below; nothing is swallowed
        return ('x', type(e).__name__, str(e)[:160])
    try:
        return ('v', den(r))
    except TypeError:
        return ('v', 'non-number:' + repr(r)[:60])


def shown(o):
    return {'value': show(o[1])} if o[0] == 'v' else {'raises': o[1], 'msg': o[2]}


def permitted(exp, o):
    """Value-only check against the absolute oracle (flags are not part of this property)."""
    if o[0] == 'x':
        return o[1] in exp.raises
    return o[1] in exp.values


# ---------------------------------------------------------------------------
# bucket = rewrite + boundary + kind of difference

_BOUNDARY_ORDER = [('special', None), ('zero', 'zero'),
                   ('near:ovthr', 'overflow'), ('near:maxval', 'overflow'), ('near:infval', 'overflow'),
                   ('near:clamptop', 'overflow'), ('near:wrap', 'overflow'),
                   ('near:halfsub', 'underflow-to-zero'), ('near:minsub', 'underflow-to-zero'),
                   ('near:zero', 'underflow-to-zero'), ('near:emin', 'subnormal-boundary'), ('near:binade', 'binade-boundary')]


def boundary_label(m, d, tags):
    """The threshold an operand sits at, coarse enough that one root cause gives one label."""
    if d == NAN:
        return 'nan'
    if d in (PINF, NINF):
        return 'inf'
    a = abs(d) if isinstance(d, Fraction) else None
    if a is not None and m.pos_max is not None and a > max(m.pos_max, -(m.neg_max or 0)):
        return f'overflow:{m.overflow}'
    for t, name in _BOUNDARY_ORDER:
        if t in tags:
            return name if name != 'overflow' else f'overflow:{m.overflow}'
    if m.p is not None and m.nmin is not None and a < pow2(m.nmin + m.p):
        return 'subnormal-range'
    return 'interior'


def identity_why(b_m, o0, o1):
    """Which clause of `round is the identity` a wrongly removed / inserted rounding violates."""
    if o0[0] == 'v' and o1[0] == 'v':
        a, b = o0[1], o1[1]
        if {a, b} == {PZERO, NZERO}:
            return 'sign-of-zero'
        if a == NAN or b == NAN:
            return 'nan'
        if a in (PINF, NINF) or b in (PINF, NINF):
            return 'inf'
        if isinstance(a, Fraction) and isinstance(b, Fraction):
            big = max(abs(a), abs(b))
            small = min(abs(a), abs(b))
            if b_m.pos_max is not None and big > max(b_m.pos_max, -(b_m.neg_max or 0)):
                return 'beyond-bound'
            if b_m.nmin is not None and b_m.p is not None and small < pow2(b_m.nmin + b_m.p):
                return 'below-emin'
            return 'precision' if b_m.p is not None else 'digit-position'
        return 'value'
    return diff_kind(o0, o1)


def diff_kind(o0, o1):
    if o0[0] == 'v' and o1[0] == 'v':
        a, b = o0[1], o1[1]
        if {a, b} == {PZERO, NZERO}:
            return 'sign-of-zero'
        return 'value'
    if o0[0] == 'v':
        return f'raises-{o1[1]}'
    if o1[0] == 'v':
        return f'returns-instead-of-{o0[1]}'
    return f'{o0[1]}-becomes-{o1[1]}'


def family(kind):
    return 'float' if kind in ('mp', 'mps', 'mpb', 'ieee', 'efloat') else ('fixed' if kind in ('mpfixed', 'mpbfixed', 'fixed', 'smfixed') else kind)


# ---------------------------------------------------------------------------
# configuration space

QUOTA = {'mp': 120, 'mps': 260, 'mpb': 620, 'ieee': 192, 'efloat': 620, 'mpfixed': 152, 'mpbfixed': 420, 'fixed': 330,
         'smfixed': 200, 'exp': 24, 'real': 1}


def raw_space(width):
    """[(kind, args, variant kwargs, rm)] before placeholder resolution; `width` is a C01 tier name."""
    out = []
    for kind, args, variants in c01.format_space(width):
        for kw0 in variants:
            for rm in (MODES if kind != 'real' else ('RNE',)):
                out.append((kind, args, kw0, rm))
    return out


THOROUGH_EXTRA = 4000


def select_space(tier, seed):
    """quick: a seeded per-family sample (QUOTA) of the C01 quick space (18960 contexts, so seeds 1..N together
    walk through it); thorough: all of it plus a seeded sample of the wider C01 thorough space."""
    raw = raw_space('quick')
    if tier == 'thorough':
        have = {repr(r) for r in raw}
        wide = [r for r in raw_space('thorough') if repr(r) not in have]
        rng = random.Random(h64(seed, 'C10', 'space', 'wide'))
        rng.shuffle(wide)
        return raw + wide[:THOROUGH_EXTRA]
    by = {}
    for r in raw:
        by.setdefault(r[0], []).append(r)
    out = []
    for kind in sorted(by):
        lst = by[kind]
        rng = random.Random(h64(seed, 'C10', 'space', kind))
        rng.shuffle(lst)
        out += lst[:QUOTA.get(kind, 50)]
    return out


CHUNK = 14


def shards(tier, seed):
    seen = set()
    sp = []
    for raw in select_space(tier, seed):
        spec = resolve(raw)
        key = repr(G.enc_spec(spec)) if spec is not None else repr(raw)
        if key not in seen:          # two variants may resolve to one context: keep cases distinct by construction
            seen.add(key)
            sp.append(raw)
    rng = random.Random(h64(seed, 'C10', 'order'))
    rng.shuffle(sp)           # mixes cheap and expensive families across shards
    out = [('lower', tier, seed, i, sp[i:i + CHUNK]) for i in range(0, len(sp), CHUNK)]
    n_arith = 96 if tier == 'quick' else 600
    out += [('arith', tier, seed, i) for i in range(n_arith)]
    out += [('constset', tier, seed, i) for i in range(12 if tier == 'quick' else 60)]
    return out


def resolve(raw):
    kind, args, kw0, rm = raw
    kw = c01._resolve_named(kind, args, kw0)
    if kw is None:
        return None
    kw = dict(kw, rm=rm) if kind != 'real' else {}
    return (kind, args, kw)


# ---------------------------------------------------------------------------
# one quantize program under one rewrite sequence

class Program:
    """A loaded quantize program for (spec, form, spelling, annotated)."""

    def __init__(self, spec, ctx, form, spell, ann):
        self.spec, self.form, self.spell, self.ann = spec, form, spell, ann
        text, consts = G.ctor_text(spec)
        if spell == 'text' and text is None:
            raise ValueError('no constructor text')
        if spell == 'text':
            self.src = G.quantize_src(text, form, ann)
            extra = consts
        else:
            self.src = G.quantize_src('C', form, ann)
            extra = {'C': ctx}
        self.mod = load_module(self.src, extra_globals=extra)
        self.fn = self.mod.q
        self.cache = {}

    def orig(self, d, car, m):
        """(observation, permitted by the absolute oracle?, oracle outcome) of the unrewritten program."""
        k = (d, car)
        r = self.cache.get(k)
        if r is None:
            o = observe(self.fn, G.carrier(d, car))
            ex = expect(m, d, exact=self.form in ('cast', 'castret'))
            r = self.cache[k] = (o, permitted(ex, o), ex)
        return r

    def close(self):
        unload(self.mod)


def case_of(prog, steps, where, d, car, ir=None):
    c = {'group': 'lower', 'spec': G.enc_spec(prog.spec), 'form': prog.form, 'spell': prog.spell, 'ann': prog.ann,
         'steps': list(steps), 'where': where, 'operand': G.enc_operand(d), 'carrier': car}
    if ir is not None:
        c['ir'] = ir
    return c


def ir_target(name, ctx):
    return {'C': ctx, 'FP64': fp.FP64, 'FP32': fp.FP32}[name]


class OperandInfo:
    """Per-context cache: tags / non-triviality / boundary label of each operand."""

    def __init__(self, m):
        self.m = m
        self.bnds = G.boundaries(m)
        self.cache = {}

    def get(self, d):
        r = self.cache.get(d)
        if r is None:
            tags = G.tags_of(self.m, d, self.bnds)
            nt = any(t.startswith('near:') or t in ('special', 'zero') for t in tags)
            r = self.cache[d] = (tags, nt, boundary_label(self.m, d, tags))
        return r


def root_cause(rw, last, prog, m, label, o0, o1):
    if o1[0] == 'x' and o1[1] == 'ValueError' and 'non-dyadic' in o1[2]:
        return f'{rw}/nondyadic-operand/raises-ValueError'
    if last in ('er', 'ir'):
        return f'{rw}/not-identity/{identity_why(m, o0, o1)}'
    return f'{rw}/{label}/{diff_kind(o0, o1)}'


def check_rewritten(res, prog, m, g, steps, where, operands, info, ir=None, car_of=None, masked=None):
    """Differential + attribution for one rewritten program over the operand list."""
    last = steps[-1].split(':')[0]
    rw = LONG[last]            # the step that introduced the difference: earlier prefixes were checked (and masked) before
    n = nnt = 0
    hist = {}
    for d in operands:
        car = car_of(d) if car_of else 'Float'
        if masked is not None and (d, car) in masked:
            res.skip('masked-by-earlier-prefix-failure')
            continue
        o0, ok0, ex = prog.orig(d, car, m)
        o1 = observe(g, G.carrier(d, car))
        n += 1
        tags, nt, label = info.get(d)
        for t in tags:
            hist[t] = hist.get(t, 0) + 1
        if nt:
            nnt += 1
        if (res.evaluations + n) % 997 == 1:
            res.maybe_sample(case_of(prog, steps, where, d, car, ir), nt=nt)
        if o0[0] == 'x':
            hist['orig-raises'] = hist.get('orig-raises', 0) + 1
        if o0[:2] == o1[:2]:
            if not ok0:
                res.cls('c01:both-sides-disagree-with-oracle')
                res.count(f'c01:{m.kind}/{ex.why}')
            continue
        ok1 = permitted(ex, o1)
        side = 'lowered-wrong' if ok0 and not ok1 else ('original-wrong' if ok1 and not ok0 else ('both-permitted' if ok0 else 'both-wrong'))
        if masked is not None:
            masked.add((d, car))
        res.fail(root_cause(rw, last, prog, m, label, o0, o1), case_of(prog, steps, where, d, car, ir),
                 expected=dict(shown(o0), oracle=sorted(show(v) for v in ex.values) + sorted(ex.raises)),
                 got=dict(shown(o1), attribution=side))
    res.case(n)
    res.cls('rewritten', n)
    res.cls(('rw:' if len(steps) == 1 else 'rw:chain:') + rw, n)
    res.nt_count += nnt
    for t, c in hist.items():
        res.cls(t, c)


def transform(res, prog, f, step, where, steps_so_far, ir_ctx=None, ir=None, cursor=None):
    """One step with the bookkeeping: returns g or None."""
    name = step.split(':')[0]
    try:
        g = apply_step(f, step, where, ir_ctx, cursor)
    except Refused as r:
        res.cls('refused:' + LONG[name])
        res.count('refusals')
        return None
    except Inconsistent as e:
        res.case()
        res.fail(f'{LONG[name]}/sites-listing/{e.what}', case_of(prog, steps_so_far + [step], where, PZERO, 'Float', ir),
                 expected='sites() and the rewrite agree', got=e.detail or e.what)
        return None
    except _Timeout:
        res.skip('transform-timeout-inconclusive')
        return None
    except (TransformDeclined, TransformReferenceError) as e:
        res.cls('refused:' + LONG[name])
        res.count('refusals')
        return None
    except Exception as e:    # a crash is not a refusal
        res.case()
        kind = 'format-infer-crash' if _in_format_infer(e) else 'transform-crash'
        res.fail(f'{LONG[name]}/{kind}/{type(e).__name__}', case_of(prog, steps_so_far + [step], where, PZERO, 'Float', ir),
                 expected='a rewritten program or TransformDeclined', got=f'{type(e).__name__}: {str(e)[:300]}')
        return None
    res.cls('applied:' + LONG[name])
    return g


def run_context(res: Result, spec, tier, seed):
    kind, args, kw = spec
    try:
        ctx, m = F.build(spec)
    except (ValueError, TypeError):
        res.skip('constructor rejected')
        return
    res.count('contexts')
    res.count('contexts:' + kind)
    key = G.enc_spec(spec)
    rng = random.Random(h64(seed, 'C10', 'ctx', key))
    text, _ = G.ctor_text(spec)
    info = OperandInfo(m)
    bnds = info.bnds
    ops_all = G.operands_for(m, rng, fill=(60 if tier == 'thorough' else 20))
    ops_dy = [d for d in ops_all if isinstance(d, str) or F.dyadic(d)]
    # a compact boundary-only list for the secondary program forms
    ops_small = [d for d in ops_dy if isinstance(d, str) or info.get(d)[1]]
    if len(ops_small) > 28:
        keep = [d for d in ops_small if isinstance(d, str)]
        rest = [d for d in ops_small if not isinstance(d, str)]
        ops_small = sorted(rng.sample(rest, 23)) + keep

    def car_of_factory(p_fraction):
        def car_of(d):
            if isinstance(d, str):
                return 'Float'
            if not F.dyadic(d):
                return 'Fraction'
            r = h64(key, show(d), 'car') % 100
            return 'Fraction' if r < p_fraction else ('float' if r < p_fraction + 10 else 'Float')
        return car_of
    car_of = car_of_factory(15)

    spells = ['const'] + (['text'] if text is not None else [])
    primary_spell = spells[rng.randrange(len(spells))]
    primary_form = 'assign' if rng.random() < 0.7 else 'return'
    progs = []
    try:
        # ---- primary program: every rewrite alone, full operand list
        try:
            P = Program(spec, ctx, primary_form, primary_spell, ann=rng.random() < 0.5)
        except Exception as e:
            res.case()
            res.fail(f'harness/program-rejected/{type(e).__name__}', {'group': 'lower', 'spec': key, 'form': primary_form, 'spell': primary_spell},
                     expected='program loads', got=str(e)[:300])
            return
        progs.append(P)
        res.count('programs')
        for step in ALONE:
            where = ('none', 'idx', 'cursor')[rng.randrange(3)] if step not in ('er',) else 'none'
            ir = None
            irc = None
            if step == 'ir':
                ir = ('C', 'FP64')[rng.randrange(2)]
                irc = ir_target(ir, ctx)
            g = transform(res, P, P.fn, step, where, [], irc, ir)
            if g is None:
                continue
            check_rewritten(res, P, m, g, [step], where, ops_all, info, ir, car_of)

        # ---- elim_round / insert_round composed directly on a lowered program (its context constructors hold arithmetic)
        if family(kind) == 'float' or kind in ('mpfixed', 'mpbfixed'):
            first = 'f2f' if family(kind) == 'float' else 'unz'
            g1 = transform(res, P, P.fn, first, 'none', [])
            if g1 is not None:
                masked1 = None
                for tail_step in ('er', 'ir'):
                    irn = 'FP64' if tail_step == 'ir' else None
                    g2 = transform(res, P, g1, tail_step, 'none', [first], fp.FP64 if irn else None, irn)
                    if g2 is not None:
                        if masked1 is None:      # a difference the first step made is its own bucket (checked above), not the tail's
                            masked1 = {(d, car_of(d)) for d in ops_small
                                       if P.orig(d, car_of(d), m)[0][:2] != observe(g1, G.carrier(d, car_of(d)))[:2]}
                        check_rewritten(res, P, m, g2, [first, tail_step], 'none', ops_small, info, irn, car_of, masked1)

        # ---- the other spelling and the other statement form: boundary operands only
        other_form = 'return' if primary_form == 'assign' else 'assign'
        secondary = [(other_form, primary_spell)]
        if len(spells) > 1:
            secondary.append((primary_form, 'text' if primary_spell == 'const' else 'const'))
        for form, spell in secondary:
            P2 = Program(spec, ctx, form, spell, ann=rng.random() < 0.5)
            progs.append(P2)
            res.count('programs')
            for step in ('us', 'uo' if rng.random() < 0.5 else 'uoe', 'f2f' if family(kind) == 'float' else 'unz', 'rf'):
                where = ('none', 'idx', 'cursor')[rng.randrange(3)]
                g = transform(res, P2, P2.fn, step, where, [])
                if g is not None:
                    check_rewritten(res, P2, m, g, [step], where, ops_small, info, None, car_of)

        # ---- guarded form: the same rounding in both arms of an and/or/not class test on the operand
        Pg = Program(spec, ctx, f'guard:{rng.randrange(len(G.GUARDS))}', spells[rng.randrange(len(spells))], ann=True)
        progs.append(Pg)
        res.count('programs')
        for step in ('us', 'uo' if rng.random() < 0.5 else 'uoe', 'f2f' if family(kind) == 'float' else 'unz'):
            where = ('none', 'none', 'idx', 'cursor')[rng.randrange(4)]
            g = transform(res, Pg, Pg.fn, step, where, [])
            if g is not None:
                res.cls('guarded-rewritten')
                check_rewritten(res, Pg, m, g, [step], where, ops_small, info, None, car_of)

        # ---- cast form: unfold_special / rescale_fixed take casts; operands = members + specials
        if rng.random() < 0.5:
            Pc = Program(spec, ctx, 'cast' if rng.random() < 0.6 else 'castret', spells[rng.randrange(len(spells))], ann=rng.random() < 0.5)
            progs.append(Pc)
            res.count('programs')
            ops_c = [d for d in ops_small if isinstance(d, str) or member(m, d)]
            ops_c += [d for d in ops_small if not isinstance(d, str) and not member(m, d)][:4]     # a few that must keep raising
            for step in ('us', 'rf', 'uo', 'f2f', 'unz'):
                g = transform(res, Pc, Pc.fn, step, ('none', 'idx', 'cursor')[rng.randrange(3)], [])
                if g is not None:
                    res.cls('cast-rewritten')
                    check_rewritten(res, Pc, m, g, [step], 'none', ops_c, info, None, car_of)

        # ---- the documented chain, every prefix, from a pinned argument format
        pin = ('FP32', 'FP64')[rng.randrange(2)]
        mp = pin_model(pin)
        ops_pin = [d for d in ops_dy if member(mp, d)]
        res.count('pinned-operands-dropped', len(ops_dy) - len(ops_pin))
        # the argument format's own extremes: largest value, smallest subnormal (as the roadmap's test does)
        for q in (mp.pos_max, pow2(mp.nmin + 1), pow2(mp.nmin + mp.p)):
            for d in (q, -q):
                if d not in ops_pin:
                    ops_pin.append(d)
        ops_mono = [d for d in ops_pin if isinstance(d, str)] + ops_pin[:6]
        early = rng.random() < 0.7
        use_unz = family(kind) == 'fixed' or rng.random() < 0.3
        use_us = rng.random() < 0.8          # "(optional)" in the roadmap
        chain = ['mono:' + pin] + (['us'] if use_us else []) + (['unz'] if use_unz else []) + ['uoe' if early else 'uo', 'f2f', 'rf', 'simp']
        tail = ('er', 'ir')[rng.randrange(2)]
        Pch = Program(spec, ctx, 'assign' if rng.random() < 0.8 else 'return', spells[rng.randrange(len(spells))], ann=True)
        progs.append(Pch)
        res.count('programs')
        f = Pch.fn
        done = []
        masked = set()
        applied = 0
        fwd = rng.random() < 0.3
        cursor = None
        for step in chain + [tail]:
            irc = fp.FP64 if step == 'ir' else None
            w = 'fwd' if (fwd and cursor is not None and step in SITED) else 'none'
            g = transform(res, Pch, f, step, w, done, irc, 'FP64' if step == 'ir' else None, cursor)
            if step.startswith('mono:') and g is not None and fwd:
                if Pch.form == 'assign':
                    cursor = st.StmtCursor(g.ast, st.StmtPath(st.FuncBody(), 0))
                    res.cls('chain:forwarded-cursor')
            if g is None:
                if step == 'simp':
                    break
                continue           # a refused step leaves the program as it was; the chain goes on
            done = done + [step]
            f = g
            applied += 1
            res.cls('prefix:' + '>'.join(s.split(':')[0] for s in done))
            check_rewritten(res, Pch, m, g, done, w, ops_mono if step.startswith('mono:') else ops_pin, info,
                            'FP64' if step == 'ir' else None, None, masked)
            if step == 'simp':
                res.cls('chain:complete')
                res.cls('chain:complete:' + family(kind))
    finally:
        for p in progs:
            p.close()


# ---------------------------------------------------------------------------
# arith layer: elim_round / insert_round with small pinned formats

def small_pool():
    """Small contexts used as argument formats and targets: (spec) list."""
    pool = []
    for p in (1, 2, 3):
        pool.append(('mp', (p,), {}))
        for emin in (-2, 0):
            pool.append(('mps', (p, emin), {}))
            pool.append(('mps', (p, emin), {'enable_nan': False, 'enable_inf': False, 'nan_value': PZERO, 'inf_value': Fraction(1)}))
            for span in (1, 2):
                emax = emin + span
                full = (pow2(p) - 1) * pow2(emax - p + 1)
                pool.append(('mpb', (p, emin, full), {}))
                pool.append(('mpb', (p, emin, pow2(emax)), {'enable_inf': False, 'overflow': 'SATURATE'}))
    for es, nb in ((2, 4), (2, 5), (3, 5), (3, 6), (2, 6)):
        pool.append(('ieee', (es, nb), {}))
    for es, nb, inf, nk in ((2, 4, False, 3), (2, 5, True, 1), (3, 6, False, 2), (1, 4, False, 3)):
        pool.append(('efloat', (es, nb, inf, nk, 0), {}))
    for nmin in (-3, -1, 1):
        pool.append(('mpfixed', (nmin,), {}))
        pool.append(('mpfixed', (nmin,), {'enable_neg_zero': False}))
        pool.append(('mpfixed', (nmin,), {'enable_nan': True, 'enable_inf': True}))
        u = pow2(nmin + 1)
        for k in (3, 4, 7):
            pool.append(('mpbfixed', (nmin, k * u), {'overflow': 'SATURATE'}))
            pool.append(('mpbfixed', (nmin, k * u), {'overflow': 'SATURATE', 'enable_neg_zero': False, 'neg_maxval': -(k + 1) * u}))
    for signed, scale, nb in ((True, 0, 3), (True, -2, 4), (False, 0, 3), (False, -1, 2), (True, 1, 3)):
        pool.append(('fixed', (signed, scale, nb), {}))
    for scale, nb in ((0, 3), (-2, 4), (1, 3)):
        pool.append(('smfixed', (scale, nb), {}))
    pool.append(('real', (), {}))
    return pool


def perturb(spec, rng):
    """A target one parameter step away from `spec` (or the same)."""
    kind, args, kw = spec
    kw = dict(kw)
    a = list(args)
    choice = rng.randrange(8)
    if kind in ('mp', 'mps', 'mpb'):
        if choice == 0:
            a[0] = max(1, a[0] + rng.choice((-1, 1)))
            if kind == 'mpb':       # keep maxval representable
                return None
        elif choice == 1 and kind != 'mp':
            a[1] = a[1] + rng.choice((-1, 1))
            if kind == 'mpb':
                return None
        elif choice == 2 and kind == 'mpb':
            u = G._ulp_at(Model('mpb', p=a[0], nmin=a[1] - a[0]), a[2])
            a[2] = a[2] + rng.choice((-1, 1)) * u
            if a[2] <= 0:
                return None
        elif choice == 3:
            kw['enable_nan'] = not kw.get('enable_nan', True)
            if not kw['enable_nan']:
                kw.setdefault('nan_value', PZERO)
        elif choice == 4:
            kw['enable_inf'] = not kw.get('enable_inf', True)
            if not kw['enable_inf']:
                kw.setdefault('inf_value', Fraction(1) if kind != 'mpb' else None)
        elif choice == 5:
            # the same value set written in a neighbouring family
            if kind == 'mpb':
                return ('mps', (a[0], a[1]), {})
            if kind == 'mps':
                return ('mp', (a[0],), {})
    elif kind == 'ieee':
        if choice == 0:
            a[1] += rng.choice((-1, 1))
        elif choice == 1:
            a[0] += rng.choice((-1, 1)); a[1] += rng.choice((0, 1))
        if a[0] < 1 or a[1] - a[0] < 2:
            return None
    elif kind in ('mpfixed', 'mpbfixed'):
        if choice == 0:
            a[0] += rng.choice((-1, 1))
            if kind == 'mpbfixed':
                return ('mpfixed', (a[0],), {k: v for k, v in kw.items() if k.startswith('enable')})
        elif choice == 1 and kind == 'mpbfixed':
            a[1] = a[1] + rng.choice((-1, 1)) * pow2(a[0] + 1)
            if a[1] <= 0:
                return None
            kw.pop('neg_maxval', None)
        elif choice == 2:
            kw['enable_neg_zero'] = not kw.get('enable_neg_zero', True)
        elif choice == 3:
            kw['enable_nan'] = not kw.get('enable_nan', False)
        elif choice == 4:
            kw['enable_inf'] = not kw.get('enable_inf', False)
    elif kind in ('fixed',):
        if choice == 0:
            a[2] = max(1, a[2] + rng.choice((-1, 1)))
        elif choice == 1:
            a[1] += rng.choice((-1, 1))
        elif choice == 2:
            a[0] = not a[0]
        if a[0] and a[2] < 2:
            return None
    elif kind == 'smfixed':
        if choice == 0:
            a[1] = max(2, a[1] + rng.choice((-1, 1)))
        elif choice == 1:
            a[0] += rng.choice((-1, 1))
    return (kind, tuple(a), kw)


def _magnitude(m):
    if m.pos_max is None or m.neg_max is None:
        return None
    return max(m.pos_max, -m.neg_max)


def _eff_prec(m):
    if m.p is not None:
        return m.p
    b = _magnitude(m)
    if b is None or b == 0 or m.nmin is None:
        return None
    return floor_log2(b / pow2(m.nmin + 1)) + 1


def _sum_target(m1, m2, op, rng):
    """A target that is the exact format of `op` over the argument models, or one parameter step off it:
    (precision, finest digit, bound) of x*z are (p1+p2, e1+e2, b1*b2); of x+-z (bits of the bound, min(e1,e2), b1+b2)."""
    if m1.kind in ('real', 'exp') or m2.kind in ('real', 'exp'):
        return None
    e1 = None if m1.nmin is None else m1.nmin + 1
    e2 = None if m2.nmin is None else m2.nmin + 1
    b1, b2 = _magnitude(m1), _magnitude(m2)
    p1, p2 = _eff_prec(m1), _eff_prec(m2)
    if op == 'mul':
        expmin = None if e1 is None or e2 is None else e1 + e2
        bound = None if b1 is None or b2 is None else b1 * b2
        p = None if p1 is None or p2 is None else p1 + p2
    else:
        expmin = None if e1 is None or e2 is None else min(e1, e2)
        bound = None if b1 is None or b2 is None else b1 + b2
        p = None
        if bound and expmin is not None:
            p = floor_log2(bound / pow2(expmin)) + 1
        elif p1 is not None and p2 is not None and bound is None and expmin is not None:
            return ('mpfixed', (expmin - 1 + rng.choice((0, 0, 1)),), {})      # unbounded sum: only the digit position is finite
    dp, de, db = rng.choice(((0, 0, 0), (-1, 0, 0), (0, 1, 0), (0, 0, -1), (1, -1, 1), (0, 0, 0)))
    fixed_args = m1.p is None and m2.p is None
    if expmin is not None:
        expmin += de
    if fixed_args and expmin is not None:
        if bound is None:
            return ('mpfixed', (expmin - 1,), {})
        u = pow2(expmin)
        k = bound / u
        k = k.numerator // k.denominator + db
        if k < 1:
            return None
        kw = {'overflow': 'SATURATE'}
        if m1.neg_max == 0 and m2.neg_max == 0 and rng.random() < 0.5:
            kw['neg_maxval'] = -u
        return ('mpbfixed', (expmin - 1, k * u), kw)
    if p is None:
        return None
    p = max(1, p + dp)
    if expmin is None:
        return ('mp', (p,), {})
    emin = expmin + p - 1
    if bound is None or bound == 0:
        return ('mps', (p, emin), {})
    e = floor_log2(bound)
    u = pow2(max(expmin, e - p + 1))
    k = bound / u
    k = (k.numerator // k.denominator) + (0 if k.denominator == 1 else 1) + db
    if k < 1:
        return None
    mv = k * u
    if floor_log2(mv) - p + 1 > floor_log2(u) and mv != pow2(floor_log2(mv)):
        return None                  # bound not representable at this precision
    if floor_log2(mv) < emin:
        return ('mps', (p, emin), {})
    return ('mpb', (p, emin, mv), {})


def run_arith(res: Result, tier, seed, idx):
    rng = random.Random(h64(seed, 'C10', 'arith', idx))
    pool = small_pool()
    n_cases = 14 if tier == 'quick' else 20
    for _ in range(n_cases):
        op = rng.choice(list(G.ARITH_OPS))
        nargs = G.ARITH_OPS[op][1]
        rewrite = rng.choice(('er', 'er', 'ir'))
        a_specs = []
        for _i in range(nargs):
            s = rng.choice(pool)
            if _i == 1 and rng.random() < 0.6:      # same family group more often than not: comparable formats
                same = [t for t in pool if family(t[0]) == family(a_specs[0][0])]
                s = rng.choice(same)
            s = (s[0], s[1], dict(s[2], rm='RNE') if s[0] != 'real' else {})
            a_specs.append(s)
        if a_specs[0][0] == 'real' and rng.random() < 0.8:
            continue
        # target
        r = rng.random()
        b_spec = None
        try:
            a_models = [F.build(s)[1] for s in a_specs]
        except (ValueError, TypeError):
            res.skip('arith: constructor rejected')
            continue
        how = 'pool'
        if nargs == 2 and op in ('mul', 'add', 'sub', 'mulround') and r < 0.65:
            b_spec = _sum_target(a_models[0], a_models[1], 'mul' if op.startswith('mul') else 'add', rng)
            how = 'exact-result-format+-1'
        elif r < 0.85:
            b_spec = perturb(a_specs[0], rng)
            how = 'argument-format+-1'
        if b_spec is None:
            b_spec = rng.choice(pool)
            how = 'pool'
        res.cls('arith:target:' + how)
        if b_spec[0] != 'real':
            kwb = dict(b_spec[2])
            kwb['rm'] = rng.choice(MODES)
            b_spec = (b_spec[0], b_spec[1], kwb)
        else:
            b_spec = ('real', (), {})
        arith_case(res, op, rewrite, a_specs, b_spec, ('none', 'idx', 'cursor')[rng.randrange(3)], rng, cap=(40 if nargs == 1 else 14))


def _exact_neg_zero_from_unsigned_zero(op, t, models):
    """Exact negation / multiplication yields -0 from +0 although no argument format has a -0 (the abstract
    operators only carry the operands' flag over): known finding F15."""
    def negative(d):
        return isinstance(d, Fraction) and d < 0
    if any(m.has_neg_zero for m in models):
        return False
    if op == 'neg':
        return t[0] == PZERO
    if op in ('mul', 'mulround', 'addmul'):
        return (t[0] == PZERO and negative(t[1])) or (t[1] == PZERO and negative(t[0]))
    return False


# ---------------------------------------------------------------------------
# constant-set layer: a rounding of a statically known value set (with / without a member -0.0)

def constset_targets():
    """Targets with a single zero, with controls that keep a -0."""
    out = []
    for signed, scale, nb in ((True, 0, 8), (True, 0, 16), (False, 0, 8), (True, -2, 6), (True, -1, 3)):
        out.append(('fixed', (signed, scale, nb), {}))
    for nmin in (-1, -3, -9):
        out.append(('mpfixed', (nmin,), {'enable_neg_zero': False}))
        out.append(('mpfixed', (nmin,), {}))
        out.append(('mpbfixed', (nmin, 12 * pow2(nmin + 1)), {'overflow': 'SATURATE', 'enable_neg_zero': False}))
        out.append(('mpbfixed', (nmin, 12 * pow2(nmin + 1)), {'overflow': 'SATURATE'}))
    out += [('smfixed', (-2, 6), {}), ('ieee', (5, 16), {}), ('mps', (8, -20), {}), ('efloat', (4, 8, False, 2, 0), {}),
            ('efloat', (4, 8, False, 1, 0), {})]
    return out


def constset_case(res, shape, op, rewrite, b_spec, where):
    """elim_round on `with B: y = round(z)` / insert_round(B) on `with fp.REAL: y = round(z)` for z in a constant set.
    A wrong identity claim for the *known* member -0.0 is its own root cause (set membership), not the open finding
    about -0 derived by exact operators (F15)."""
    try:
        b_ctx, b_m = F.build(b_spec)
    except (ValueError, TypeError):
        res.skip('constset: constructor rejected')
        return
    src = G.constset_src(shape, op, 'fp.REAL' if rewrite == 'ir' else 'B')
    base = {'group': 'constset', 'shape': shape, 'op': op, 'rewrite': rewrite, 'B': G.enc_spec(b_spec), 'where': where}
    mod = load_module(src, extra_globals={'B': b_ctx})
    name = LONG[rewrite]
    try:
        res.count('constset-programs')
        try:
            g = apply_step(mod.q, rewrite, where, b_ctx)
        except Refused:
            res.cls('constset:declined')
            return
        except Inconsistent as e:
            res.case()
            res.fail(f'{name}/sites-listing/{e.what}', dict(base, args=[]), expected='sites() and the rewrite agree', got=e.detail or e.what)
            return
        except _Timeout:
            res.skip('transform-timeout-inconclusive')
            return
        except Exception as e:
            res.case()
            kind = 'format-infer-crash' if _in_format_infer(e) else 'transform-crash'
            res.fail(f'{name}/{kind}/{type(e).__name__}', dict(base, args=[]), expected='a rewritten program or a refusal',
                     got=f'{type(e).__name__}: {str(e)[:300]}')
            return
        res.cls('constset:acted')
        has_negzero = shape.startswith('negzero') or shape == 'three-members'
        if has_negzero:
            res.cls('constset:acted-with-known-negzero-member')
        for args in (((True,), (False,)) if G.CONSTSETS[shape][1] else ((),)):
            o0 = observe(mod.q, args)
            o1 = observe(g, args)
            res.case()
            res.cls('constset')
            res.nontrivial()
            res.maybe_sample(dict(base, args=list(args)), nt=True)
            if o0[:2] == o1[:2]:
                continue
            why = identity_why(b_m, o0, o1)
            if why == 'sign-of-zero' and has_negzero:
                why = 'known-negative-zero-member-of-value-set'
            res.fail(f'{name}/not-identity/{why}', dict(base, args=list(args)), expected=shown(o0), got=shown(o1))
    finally:
        unload(mod)


def run_constset(res, tier, seed, idx):
    rng = random.Random(h64(seed, 'C10', 'constset', idx))
    targets = constset_targets()
    shapes = sorted(G.CONSTSETS)
    for _ in range(24 if tier == 'quick' else 60):
        b = rng.choice(targets)
        b_spec = (b[0], b[1], dict(b[2], rm=rng.choice(MODES)))
        constset_case(res, rng.choice(shapes), rng.choice(('round', 'round', 'cast')), rng.choice(('er', 'er', 'ir')), b_spec,
                      ('none', 'idx', 'cursor')[rng.randrange(3)])


def _in_format_infer(e):
    tb = e.__traceback__
    while tb is not None:
        if 'format_infer' in tb.tb_frame.f_code.co_filename:
            return True
        tb = tb.tb_next
    return False


def arith_case(res, op, rewrite, a_specs, b_spec, where, rng, cap, only=None):
    try:
        a_built = [F.build(s) for s in a_specs]
        b_ctx, b_m = F.build(b_spec)
    except (ValueError, TypeError):
        res.skip('arith: constructor rejected')
        return
    scope = 'fp.REAL' if rewrite == 'ir' else 'B'
    src = G.arith_src(op, scope)
    mod = load_module(src, extra_globals={'B': b_ctx})
    base = {'group': 'arith', 'op': op, 'rewrite': rewrite, 'A': [G.enc_spec(s) for s in a_specs], 'B': G.enc_spec(b_spec), 'where': where}
    try:
        try:
            f = st.monomorphize(mod.q, args=[RealType(c) for c, _ in a_built])
        except Exception as e:
            res.skip(f'arith: monomorphize {type(e).__name__}')
            return
        res.count('arith-programs')
        name = LONG[rewrite]
        old = signal.signal(signal.SIGALRM, _alarm)
        signal.alarm(TRANSFORM_TIMEOUT)
        try:
            g = _apply_step(f, rewrite, where, b_ctx)
        except Refused:
            res.cls('arith:declined')
            res.cls(f'arith:declined:{rewrite}:{op}')
            return
        except Inconsistent as e:
            res.case()
            res.fail(f'{name}/sites-listing/{e.what}', dict(base, operands=[]), expected='sites() and the rewrite agree', got=e.detail or e.what)
            return
        except _Timeout:
            res.skip('transform-timeout-inconclusive')
            return
        except Exception as e:
            res.case()
            kind = 'format-infer-crash' if _in_format_infer(e) else 'transform-crash'
            res.fail(f'{name}/{kind}/{type(e).__name__}', dict(base, operands=[]), expected='a rewritten program or a refusal',
                     got=f'{type(e).__name__}: {str(e)[:300]}')
            return
        finally:
            signal.alarm(0)
            signal.signal(signal.SIGALRM, old)
        res.cls('arith:acted')
        res.cls(f'arith:acted:{rewrite}:{op}')
        if only is not None:
            tuples = [only]
        else:
            mems = [G.members_of(m, cap, rng) for _, m in a_built]
            if len(mems) == 1:
                tuples = [(d,) for d in mems[0]]
            else:
                tuples = [(d, e) for d in mems[0] for e in mems[1]]
                if len(tuples) > 260:
                    sp = [t for t in tuples if isinstance(t[0], str) or isinstance(t[1], str)]
                    rest = [t for t in tuples if t not in set(sp)]
                    tuples = sp[:80] + rng.sample(rest, min(len(rest), 180))
        for t in tuples:
            if _exact_neg_zero_from_unsigned_zero(op, t, [m for _, m in a_built]):
                # known finding F15 (C14): abstract neg/mul do not derive the -0 that exact negation /
                # multiplication of +0 produces, so `round is the identity` is claimed for a target without -0
                res.skip('excluded: exact -0 from +0 under neg/mul (F15, format inference)')
                continue
            objs = tuple(G.carrier(d) for d in t)
            o0 = observe(mod.q, objs)
            o1 = observe(g, objs)
            res.case()
            res.cls('arith')
            res.nontrivial()
            if any(isinstance(d, str) and d in (NAN, PINF, NINF) for d in t):
                res.cls('arith:special-operand')
            if res.evaluations % 997 == 3:
                res.maybe_sample(dict(base, operands=[G.enc_operand(d) for d in t]), nt=True)
            if o0[:2] == o1[:2]:
                continue
            # which member of the claimed identity is not one
            why = 'value'
            if o0[0] == 'v' and o1[0] == 'v':
                a, b = o0[1], o1[1]
                if {a, b} == {PZERO, NZERO}:
                    why = 'sign-of-zero'
                elif a == NAN or b == NAN:
                    why = 'nan'
                elif a in (PINF, NINF) or b in (PINF, NINF):
                    why = 'inf'
                elif isinstance(a, Fraction) and isinstance(b, Fraction):
                    lo = b_m.nmin is not None and abs(b if rewrite == 'er' else a) < pow2(b_m.nmin + (b_m.p or 1))
                    hi = b_m.pos_max is not None and (abs(a) > max(b_m.pos_max, -b_m.neg_max) or abs(b) > max(b_m.pos_max, -b_m.neg_max))
                    why = 'below-emin' if lo else ('beyond-bound' if hi else 'precision')
            else:
                why = diff_kind(o0, o1)
            res.fail(f'{name}/not-identity/{why}', dict(base, operands=[G.enc_operand(d) for d in t]), expected=shown(o0), got=shown(o1))
    finally:
        unload(mod)


# ---------------------------------------------------------------------------

def run_shard(shard):
    res = Result()
    if shard[0] == 'lower':
        _, tier, seed, _i, raws = shard
        for raw in raws:
            spec = resolve(raw)
            if spec is None:
                res.skip('constructor rejected')
                continue
            run_context(res, spec, tier, seed)
    elif shard[0] == 'constset':
        _, tier, seed, idx = shard
        run_constset(res, tier, seed, idx)
    else:
        _, tier, seed, idx = shard
        run_arith(res, tier, seed, idx)
    return res


def selftest():
    # the program text round-trips through the decorator and agrees with the oracle on an IEEE format
    spec = ('ieee', (5, 16), {'rm': 'RNE', 'overflow': 'OVERFLOW'})
    ctx, m = F.build(spec)
    for spell in ('text', 'const'):
        P = Program(spec, ctx, 'assign', spell, True)
        try:
            for d, want in ((Fraction(65519), Fraction(65504)), (Fraction(65520), PINF), (Fraction(1, 3), Fraction(1365, 4096)), (NZERO, NZERO)):
                o = P.orig(d, 'Float', m)
                assert o[0] == ('v', want) and o[1], (spell, d, o)
                assert expect(m, d).values == {want}
        finally:
            P.close()
    # spec / operand encoding round-trips
    s2 = ('mpb', (3, -2, Fraction(7, 2)), {'rm': 'RTZ', 'overflow': 'SATURATE', 'nan_value': PZERO, 'inf_value': Fraction(-1)})
    assert G.dec_spec(G.enc_spec(s2)) == s2
    names = [n for n, _, _ in G.boundaries(m)]
    assert {'minsub', 'halfsub', 'emin', 'maxval', 'infval', 'ovthr'} <= set(names), names


def replay(case):
    res = Result()
    if case.get('group') == 'arith':
        a_specs = [G.dec_spec(s) for s in case['A']]
        b_spec = G.dec_spec(case['B'])
        only = tuple(G.dec_operand(s) for s in case['operands']) if case.get('operands') else None
        arith_case(res, case['op'], case['rewrite'], a_specs, b_spec, case.get('where', 'none'), random.Random(0), cap=40, only=only)
        return [f for fl in res.failures.values() for f in fl]
    if case.get('group') == 'constset':
        constset_case(res, case['shape'], case['op'], case['rewrite'], G.dec_spec(case['B']), case.get('where', 'none'))
        return [f for fl in res.failures.values() for f in fl]
    spec = G.dec_spec(case['spec'])
    ctx, m = F.build(spec)
    P = Program(spec, ctx, case['form'], case['spell'], case.get('ann', True))
    try:
        f = P.fn
        done = []
        steps = case['steps']
        mode = case.get('where', 'none')
        cursor = None
        for i, step in enumerate(steps):
            last = i == len(steps) - 1
            irc = ir_target(case.get('ir') or 'FP64', ctx) if step == 'ir' else None
            if mode == 'fwd':
                w = 'fwd' if (cursor is not None and step in SITED) else 'none'
            else:
                w = mode if last else 'none'
            g = transform(res, P, f, step, w, done, irc, case.get('ir'), cursor)
            if g is None:
                if last:
                    break
                continue
            if step.startswith('mono:') and mode == 'fwd':
                cursor = st.StmtCursor(g.ast, st.StmtPath(st.FuncBody(), 0))
            done = done + [step]
            f = g
            if last:
                d = G.dec_operand(case['operand'])
                check_rewritten(res, P, m, g, done, mode, [d], OperandInfo(m), case.get('ir'),
                                (lambda _d: case.get('carrier', 'Float')))
    finally:
        P.close()
    return [f for fl in res.failures.values() for f in fl]
