"""
C01 — Rounding under any context is correct rounding.

Exhaustive layer: every small context of every family x 8 modes x overflow modes x special-value
options x all breakpoint operands (members, midpoints, +-eps, beyond range, zeros, inf, NaN) in
all carrier types x entry points round / round_at(n) / round_integer / exact=True.
Hypothesis layer: wide formats and operands built as breakpoint +- tiny.

Oracle: vlib.oracle_round (independent, exact rationals) on a Model mirrored from the public
constructor parameters (for encodable formats from the reference decoder of vlib.refdec).
"""

from __future__ import annotations

import os
from fractions import Fraction

import fpy2 as fp
from fpy2.number import Float, RealFloat

from vlib import formats as F
from vlib import refdec
from vlib.denote import NAN, NINF, NZERO, PINF, PZERO, den, pow2, show
from vlib.oracle_round import MODES, check_outcome, expect, floor_log2, member, neighbours, on_grid, round_real
from vlib.runner import Result, h64

PROPERTY = 'C01'
LEVEL = 'exploration'
RULE = ('Exhaustive over small contexts of every family (bounds in coverage.classes/bounds) x 8 rounding modes x '
        'accepted overflow modes x NaN/inf options x breakpoint operands (every grid point of the format window, '
        'every midpoint, +-gap/8 and +-gap/(3*2^40) around both, far beyond/below range, zeros, infinities, NaN) '
        'x carriers (Float, redundant Float, RealFloat, int, float, Fraction) x entry points; plus a Hypothesis '
        'layer on wide formats. Non-trivial = operand is not a member of the format (must actually be rounded, '
        'overflowed, substituted or rejected) or is a signed zero/special; distinct by (context, operand, carrier, '
        'entry point), which the enumeration never repeats.')
ASSUMPTIONS = [
    'Overflow under OVERFLOW mode with RTO/RTE may give either the infinity(-substitute) or the largest value (statement leaves it open).',
    'EFloat contexts without NaN and without nan_value: NaN goes to infinity if present else to the largest value, either sign (current documented-by-code default).',
    'ExpContext: non-positive operands and underflow toward zero give NaN (format has no zero); overflow "to infinity" may give NaN or inf_value.',
    'Flags of results for NaN/infinite operands are not checked.',
]
EXHAUSTIVE = {'quick': True, 'thorough': True}
MAXTASKS = 6      # recycle workers: gmpy2 leaks a little per context switch, which adds up over 10^8 roundings
FLOORS = {
    'quick': {'tie': 0.01, 'overflow': 0.01, 'special': 0.005, 'nondyadic': 0.05, 'raises': 0.0005},
    # thorough runs the round_at / round_integer / exact entry points on every option variant, which dilutes the per-operand classes
    'thorough': {'tie': 0.01, 'overflow': 0.01, 'special': 0.001, 'nondyadic': 0.02, 'raises': 0.0005},
}


# ---------------------------------------------------------------------------
# configuration spaces

def _float_opts(kind_has_overflow: bool):
    """(enable_nan, enable_inf, nan_value, inf_value) variants for the mp/mps/mpb float families."""
    one = Fraction(1)
    return [
        dict(),
        dict(enable_nan=False, enable_inf=False),
        dict(enable_nan=False, enable_inf=False, nan_value=PZERO, inf_value=one),
        dict(enable_nan=False, enable_inf=True, nan_value=PINF),
        dict(enable_nan=True, enable_inf=False, inf_value=NAN),
        dict(enable_nan=False, enable_inf=False, nan_value=-one, inf_value=-one),
    ]


def _fixed_opts():
    one = Fraction(1)
    return [
        dict(),
        dict(enable_nan=True, enable_inf=True),
        dict(nan_value=PZERO, inf_value=one),
        dict(enable_inf=True, nan_value=NINF),
        dict(enable_nan=True, inf_value=NAN),
        dict(enable_neg_zero=False, nan_value=-one, inf_value=-one),
        dict(enable_neg_zero=False),
    ]


def format_space(tier):
    """List of (kind, args, variants) where variants is a list of kwargs dicts (without rm)."""
    T = tier == 'thorough'
    out = []
    P = range(1, 7 if T else 5)
    # --- MPFloat
    for p in P:
        out.append(('mp', (p,), _float_opts(False)))
    # --- MPSFloat
    for p in P:
        for emin in ((-3, -2, 0, 1, 5) if T else (-2, 0, 1)):
            out.append(('mps', (p, emin), _float_opts(False)))
    # --- MPBFloat
    for p in (range(1, 6) if T else range(1, 5)):
        for emin in ((-2, 0) if not T else (-3, 0, 2)):
            for span in ((1, 3) if not T else (0, 1, 2, 4)):
                emax = emin + span
                full = (pow2(p) - 1) * pow2(emax - p + 1)              # all-ones significand at emax
                maxvals = {full}
                if p >= 2:
                    maxvals.add((pow2(p - 1) + 1) * pow2(emax - p + 1) if p >= 2 else full)   # partly occupied top binade
                maxvals.add(pow2(emax))                                 # top binade holds a single value
                for mv in sorted(maxvals):
                    if mv < pow2(emin - p + 1):
                        continue
                    vs = []
                    for ov in ('OVERFLOW', 'SATURATE', 'ASSERT'):
                        for o in _float_opts(True)[:(6 if T else 4)]:
                            vs.append(dict(o, overflow=ov))
                    vs.append(dict(overflow='OVERFLOW', neg_maxval=-pow2(emax - 1) if span >= 1 else -mv))
                    vs.append(dict(overflow='SATURATE', neg_maxval=-pow2(emax - 1) if span >= 1 else -mv))
                    out.append(('mpb', (p, emin, mv), vs))
    # --- EFloat / IEEE
    NB = range(1, 9 if T else 7)
    for nbits in NB:
        for es in range(0, nbits):
            if not T and nbits == 6 and es not in (2, 3):
                continue
            for nk in (0, 1, 2, 3):
                for inf in (False, True):
                    for eo in ((-2, 0, 3) if nbits <= (5 if T else 4) else (0,)):
                        vs = []
                        for ov in ('OVERFLOW', 'SATURATE', 'ASSERT'):
                            vs.append(dict(overflow=ov))
                        vs.append(dict(overflow='OVERFLOW', nan_value=PZERO, inf_value=PZERO))
                        vs.append(dict(overflow='OVERFLOW', nan_value='MAX', inf_value='MAX'))
                        vs.append(dict(overflow='SATURATE', nan_value='-MIN', inf_value='MIN'))
                        out.append(('efloat', (es, nbits, inf, nk, eo), vs))
            if es >= 1 and nbits - es >= 2:
                out.append(('ieee', (es, nbits), [dict(overflow=ov) for ov in ('OVERFLOW', 'SATURATE', 'ASSERT')]))
    # --- MPFixed
    for nmin in ((-4, -3, -1, 0, 2) if T else (-3, -1, 1)):
        out.append(('mpfixed', (nmin,), _fixed_opts()))
    # --- MPBFixed
    for nmin in ((-3, -1, 1) if not T else (-4, -3, -1, 0, 2)):
        ulp = pow2(nmin + 1)
        for k in ((3, 7) if not T else (1, 3, 4, 7, 12)):
            vs = []
            for ov in ('OVERFLOW', 'SATURATE', 'WRAP', 'ASSERT'):
                for o in _fixed_opts()[:(7 if T else 5)]:
                    vs.append(dict(o, overflow=ov))
                vs.append(dict(overflow=ov, neg_maxval=-(k + 1) * ulp))
                vs.append(dict(overflow=ov, neg_maxval=-ulp, enable_neg_zero=False))
            out.append(('mpbfixed', (nmin, k * ulp), vs))
    # --- Fixed / SMFixed
    for nbits in range(1, 8 if T else 6):
        for scale in (-3, 0, 2):
            for signed in (False, True):
                if signed and nbits < 2:
                    continue
                vs = [dict(overflow=ov) for ov in ('OVERFLOW', 'SATURATE', 'WRAP', 'ASSERT')]
                vs += [dict(overflow=ov, nan_value=PZERO, inf_value='MAX') for ov in ('OVERFLOW', 'WRAP')]
                out.append(('fixed', (signed, scale, nbits), vs))
            if nbits >= 2:
                vs = [dict(overflow=ov) for ov in ('OVERFLOW', 'SATURATE', 'WRAP', 'ASSERT')]
                vs += [dict(overflow='OVERFLOW', nan_value=NZERO, inf_value='-MIN')]
                out.append(('smfixed', (scale, nbits), vs))
    # --- Exp
    for nbits in range(1, 6 if T else 5):
        for eo in (-2, 0, 3):
            vs = [dict(overflow='OVERFLOW'), dict(overflow='SATURATE'), dict(overflow='OVERFLOW', inf_value='MAX')]
            out.append(('exp', (nbits, eo), vs))
    out.append(('real', (), [dict()]))
    return out


def shards(tier, seed):
    sp = format_space(tier)
    out = [('exh', i, tier) for i in range(len(sp))]
    nh = 64 if tier == 'thorough' else 16
    out += [('hyp', i, tier, seed) for i in range(nh)]
    return out


# ---------------------------------------------------------------------------

def _resolve_named(kind, args, kw):
    """Replace 'MAX'/'MIN'/'-MIN' placeholders by actual members of the format (needs a model)."""
    if not any(isinstance(v, str) and v in ('MAX', 'MIN', '-MIN') for v in kw.values()):
        return kw
    base = {k: v for k, v in kw.items() if k not in ('nan_value', 'inf_value')}
    try:
        _, m = F.build((kind, args, dict(base, rm='RNE')))
    except Exception:
        return None
    if kind == 'exp':
        mx, mn = pow2(m.p_emax), pow2(m.nmin)
    else:
        mx = m.pos_max if m.pos_max else PZERO
        mn = pow2(m.nmin + 1)
        if m.pos_max is not None and mn > m.pos_max:
            mn = PZERO
    out = dict(kw)
    for k in ('nan_value', 'inf_value'):
        v = out.get(k)
        if v == 'MAX':
            out[k] = mx
        elif v == 'MIN':
            out[k] = mn
        elif v == '-MIN':
            out[k] = -mn if isinstance(mn, Fraction) else NZERO
    return out


def _observe(fn):
    try:
        r = fn()
    except (ValueError, OverflowError, TypeError, ZeroDivisionError, ArithmeticError, AssertionError,
            RuntimeError, NotImplementedError, AttributeError, KeyError, IndexError) as e:
        return None, type(e).__name__
    return r, None


def check_one(res: Result, ctx, m, label, entry, carrier_name, obj, d, n=None, exact=False, nt=False, classes=()):
    """Evaluates one rounding and compares with the oracle."""
    o = expect(m, d, n=n, exact=exact)
    if entry == 'round':
        r, exc = _observe(lambda: ctx.round(obj, exact=exact) if exact else ctx.round(obj))
    elif entry == 'round_at':
        r, exc = _observe(lambda: ctx.round_at(obj, n, exact=exact) if exact else ctx.round_at(obj, n))
    elif entry == 'round_integer':
        r, exc = _observe(lambda: ctx.round_integer(obj))
    elif entry == 'Float.round':
        r, exc = _observe(lambda: obj.round(ctx))
    else:
        raise ValueError(entry)
    res.case()
    for c in classes:
        res.cls(c)
    if o.raises and not o.values:
        res.cls('raises')
    case = {'ctx': label, 'entry': entry, 'carrier': carrier_name, 'operand': show(d), 'n': n, 'exact': exact}
    if nt:
        res.nontrivial()
        if res.evaluations % 7919 == 1:
            res.sample(case, nt=True)
    elif res.evaluations % 7919 == 2:
        res.sample(case)
    if exc is not None:
        why = check_outcome(o, raised=exc)
        got = f'raised {exc}'
    else:
        if not isinstance(r, Float):
            why, got = 'not a Float', repr(r)
        else:
            gd = den(r)
            why = check_outcome(o, gd, r.inexact, r.overflow)
            got = {'value': show(gd), 'inexact': r.inexact, 'overflow': r.overflow}
            if why is None and not member(m, gd):
                why = 'result not a member'
            if why is None and m.kind != 'real':
                # the implementation's own membership test must agree
                # (representable_under short-cuts to True for a value that already carries this context, so the
                # format's own predicate is asked as well)
                try:
                    if not ctx.representable_under(r):
                        why = 'representable_under(result) is False'
                    elif not ctx.format().representable_in(r):
                        why = 'format().representable_in(result) is False'
                except Exception as e:   # noqa
                    why = f'representable_under raised {type(e).__name__}'
    if why is not None:
        ovm = f':{m.overflow}' if 'overflow' in o.why or 'flow' in o.why else ''
        bucket = f'{m.kind}/{o.why}{ovm}/{why}'
        res.fail(bucket, dict(case, spec=label), expected={'values': sorted(show(v) for v in o.values),
                 'raises': sorted(o.raises), 'inexact': o.inexact, 'overflow': o.overflow}, got=got)


def classify(m, d):
    """(non-trivial?, classes) for a finite non-zero operand."""
    cl = []
    nt = not member(m, d)
    if m.kind in ('real',):
        return False, cl
    if m.kind == 'exp':
        if nt:
            cl.append('inexact')
        return nt, cl
    lo, hi = neighbours(d, m.p, m.nmin)
    if lo != hi:
        cl.append('inexact')
        if abs(d) - lo == hi - abs(d):
            cl.append('tie')
    if m.pos_max is not None:
        mx = m.pos_max if d > 0 else -m.neg_max
        if hi > mx:
            cl.append('overflow')
    if m.p is not None and m.nmin is not None and abs(d) < pow2(m.nmin + m.p):
        cl.append('subnormal')
    if d.denominator & (d.denominator - 1):
        cl.append('nondyadic')
    return nt, cl


def run_format(res: Result, kind, args, variants, tier):
    T = tier == 'thorough'
    ops_cache = None
    for vi, kw0 in enumerate(variants):
        kw0 = _resolve_named(kind, args, kw0)
        if kw0 is None:
            res.skip('constructor rejected')
            continue
        for rm in MODES:
            kw = dict(kw0, rm=rm) if kind != 'real' else {}
            try:
                ctx, m = F.build((kind, args, kw))
            except (ValueError, TypeError) as e:
                res.skip('constructor rejected')
                continue
            label = [kind, list(args), {k: (show(v) if not isinstance(v, (bool, int)) else v) for k, v in kw.items()}]
            res.count('contexts')
            if ops_cache is None:
                ops_cache = F.breakpoint_operands(m, max_points=(160 if T else 120))
            # finite non-zero operands
            for a in ops_cache:
                for q in (a, -a):
                    nt, cl = classify(m, q)
                    cars = F.carriers(q)
                    for cname, obj in cars:
                        # thin the redundant carriers on non-first variants to bound cost
                        if vi > 0 and cname in ('Float*8', 'float', 'int') and not T:
                            continue
                        check_one(res, ctx, m, label, 'round', cname, obj, q, nt=nt, classes=cl)
                    if vi == 0 or T:
                        f = cars[1][1] if len(cars) > 1 else cars[0][1]
                        fname = cars[1][0] if len(cars) > 1 else cars[0][0]
                        if m.kind not in ('real',):
                            e = floor_log2(abs(q))
                            base = m.nmin if m.nmin is not None else e - (m.p or 1)
                            for n in sorted({base - 1, base + 1, e - 1, e, e + 1}):
                                check_one(res, ctx, m, label, 'round_at', fname, f, q, n=n, nt=True, classes=['round_at'])
                            check_one(res, ctx, m, label, 'round_integer', fname, f, q, n=-1, nt=True, classes=['round_integer'])
                            check_one(res, ctx, m, label, 'round', fname, f, q, exact=True, nt=nt, classes=['exact'])
                        if isinstance(f, Float):
                            check_one(res, ctx, m, label, 'Float.round', fname, f, q, nt=nt, classes=[])
            # zeros and specials
            for cname, obj, d in F.special_carriers():
                check_one(res, ctx, m, label, 'round', cname, obj, d, nt=True, classes=['special'])
                if m.kind != 'real' and isinstance(obj, Float):
                    check_one(res, ctx, m, label, 'round_at', cname, obj, d, n=0, nt=True, classes=['special'])
            if kind == 'real':
                return


# ---------------------------------------------------------------------------
# Hypothesis layer: wide formats

def run_hyp(res: Result, idx, tier, seed):
    import hypothesis
    from hypothesis import HealthCheck, Phase, given, settings
    from hypothesis import strategies as st

    T = tier == 'thorough'
    n_examples = 1500 if T else 250

    @st.composite
    def wide_case(draw):
        kind = draw(st.sampled_from(['mp', 'mps', 'mpb', 'ieee', 'efloat', 'mpfixed', 'mpbfixed', 'fixed', 'smfixed', 'named']))
        rm = draw(st.sampled_from(MODES))
        if kind == 'mp':
            spec = ('mp', (draw(st.integers(1, 300)),), dict(rm=rm))
        elif kind == 'mps':
            spec = ('mps', (draw(st.integers(1, 300)), draw(st.integers(-10000, 10000))), dict(rm=rm))
        elif kind == 'mpb':
            p = draw(st.integers(1, 120)); emin = draw(st.integers(-2000, 2000)); span = draw(st.integers(0, 300))
            c = draw(st.integers(1 << (p - 1), (1 << p) - 1))
            mv = Fraction(c) * pow2(emin + span - p + 1)
            ov = draw(st.sampled_from(['OVERFLOW', 'SATURATE', 'ASSERT']))
            spec = ('mpb', (p, emin, mv), dict(rm=rm, overflow=ov))
        elif kind == 'ieee':
            es = draw(st.integers(2, 19)); nb = draw(st.integers(es + 2, es + 2 + 240))
            spec = ('ieee', (es, nb), dict(rm=rm, overflow=draw(st.sampled_from(['OVERFLOW', 'SATURATE', 'ASSERT']))))
        elif kind == 'efloat':
            es = draw(st.integers(0, 12)); nb = draw(st.integers(max(4, es + 1), es + 4 + 60))
            spec = ('efloat', (es, nb, draw(st.booleans()), draw(st.integers(0, 3)), draw(st.integers(-40, 40))),
                    dict(rm=rm, overflow=draw(st.sampled_from(['OVERFLOW', 'SATURATE', 'ASSERT']))))
        elif kind == 'mpfixed':
            spec = ('mpfixed', (draw(st.integers(-300, 300)),), dict(rm=rm, enable_neg_zero=draw(st.booleans())))
        elif kind == 'mpbfixed':
            nmin = draw(st.integers(-200, 200)); k = draw(st.integers(1, 1 << 70))
            spec = ('mpbfixed', (nmin, k * pow2(nmin + 1)), dict(rm=rm, overflow=draw(st.sampled_from(['OVERFLOW', 'SATURATE', 'WRAP', 'ASSERT']))))
        elif kind == 'fixed':
            nb = draw(st.integers(2, 14))
            spec = ('fixed', (draw(st.booleans()), draw(st.integers(-60, 60)), nb), dict(rm=rm, overflow=draw(st.sampled_from(['OVERFLOW', 'SATURATE', 'WRAP', 'ASSERT']))))
        elif kind == 'smfixed':
            nb = draw(st.integers(2, 14))
            spec = ('smfixed', (draw(st.integers(-60, 60)), nb), dict(rm=rm, overflow=draw(st.sampled_from(['OVERFLOW', 'SATURATE', 'WRAP', 'ASSERT']))))
        else:
            name = draw(st.sampled_from(['FP16', 'MX_E5M2', 'MX_E4M3', 'MX_E3M2', 'MX_E2M3', 'MX_E2M1', 'FP8P1', 'FP8P3', 'FP8P7',
                                         'SINT8', 'UINT8', 'MX_INT8', 'SINT16', 'UINT16']))
            spec = ('named', (name,), dict(rm=rm))
        # operand: built around a grid point of the format
        where = draw(st.sampled_from(['grid', 'mid', 'grid+tiny', 'mid+tiny', 'mid-tiny', 'third', 'max', 'max+', 'sub', 'huge']))
        sig = draw(st.integers(1, (1 << 64) - 1))
        e_off = draw(st.integers(-8, 8))
        tiny_e = draw(st.integers(1, 400))
        neg = draw(st.booleans())
        carrier = draw(st.integers(0, 5))
        return spec, where, sig, e_off, tiny_e, neg, carrier

    NAMED = {
        'FP16': ('ieee', (5, 16)), 'MX_E5M2': ('ieee', (5, 8)), 'MX_E4M3': ('efloat', (4, 8, False, 1, 0)),
        'MX_E3M2': ('efloat', (3, 6, False, 3, 0)), 'MX_E2M3': ('efloat', (2, 6, False, 3, 0)),
        'MX_E2M1': ('efloat', (2, 4, False, 3, 0)), 'FP8P1': ('efloat', (7, 8, True, 2, 0)),
        'FP8P3': ('efloat', (5, 8, True, 2, -1)), 'FP8P7': ('efloat', (1, 8, True, 2, -1)),
        'SINT8': ('fixed', (True, 0, 8)), 'UINT8': ('fixed', (False, 0, 8)), 'MX_INT8': ('fixed', (True, -6, 8)),
        'SINT16': ('fixed', (True, 0, 16)), 'UINT16': ('fixed', (False, 0, 16)),
    }

    def build(spec):
        kind, args, kw = spec
        if kind == 'named':
            k2, a2 = NAMED[args[0]]
            ctx0 = getattr(fp, args[0])
            ctx = ctx0.with_params(rm=F.RM[kw['rm']])
            kw2 = dict(kw)
            kw2['overflow'] = ctx.overflow.name
            _, m = F.build((k2, a2, kw2))
            return ctx, m
        return F.build(spec)

    def operand(m, where, sig, e_off, tiny_e, neg):
        p = m.p
        if p is not None:
            c = (sig % (1 << p)) | (1 << (p - 1)) if p > 1 else 1
            if m.nmin is not None:
                lo_e = m.nmin + 1
            else:
                lo_e = -50
            if m.pos_max:
                hi_e = floor_log2(m.pos_max)
            else:
                hi_e = lo_e + 100
            e = lo_e + p - 1 + (sig >> 7) % max(1, hi_e - (lo_e + p - 1) + 1)
            ulp = pow2(e - p + 1)
            g = c * ulp
            if where == 'sub' and m.nmin is not None:
                ulp = pow2(m.nmin + 1)
                g = (sig % (1 << (p - 1)) if p > 1 else 1) * ulp or ulp
        else:
            ulp = pow2(m.nmin + 1)
            top = int(m.pos_max / ulp) if m.pos_max else 1 << 40
            g = ((sig % (top + 1)) or 1) * ulp
        tiny = ulp / (1 << tiny_e)
        if where == 'grid':
            q = g
        elif where == 'mid':
            q = g + ulp / 2
        elif where == 'grid+tiny':
            q = g + tiny
        elif where == 'mid+tiny':
            q = g + ulp / 2 + tiny
        elif where == 'mid-tiny':
            q = g + ulp / 2 - tiny
        elif where == 'third':
            q = g + ulp / 3
        elif where in ('max', 'max+') and m.pos_max:
            q = m.pos_max if not neg else -m.neg_max
            if q == 0:
                q = ulp
            if where == 'max+':
                q = q + ulp * Fraction(sig % 64, 32) + (tiny if sig & 1 else 0)
        elif where == 'huge':
            q = g * pow2(abs(e_off) * 50 + 1)
        else:
            q = g + tiny
        return -q if neg else q

    hres = res

    @hypothesis.seed(h64(seed, idx, 'C01') % (1 << 32))
    @settings(max_examples=n_examples, deadline=None, database=None, derandomize=False,
              report_multiple_bugs=False, phases=[Phase.generate],
              suppress_health_check=list(HealthCheck))
    @given(wide_case())
    def prop(case):
        spec, where, sig, e_off, tiny_e, neg, carrier = case
        try:
            ctx, m = build(spec)
        except (ValueError, TypeError):
            hres.skip('constructor rejected (hyp)')
            return
        q = operand(m, where, sig, e_off, tiny_e, neg)
        if q == 0:
            return
        cars = F.carriers(q)
        cname, obj = cars[carrier % len(cars)]
        label = [spec[0], [show(a) if isinstance(a, Fraction) else a for a in spec[1]], spec[2]]
        nt, cl = classify(m, q)
        before = sum(hres.fail_counts.values())
        check_one(hres, ctx, m, label, 'round', cname, obj, q, nt=False, classes=cl + ['wide'])
        if nt:
            hres.nontrivial((label, show(q), cname))

    prop()


def run_shard(shard):
    res = Result()
    if shard[0] == 'exh':
        _, i, tier = shard
        kind, args, variants = format_space(tier)[i]
        run_format(res, kind, args, variants, tier)
    else:
        _, idx, tier, seed = shard
        run_hyp(res, idx, tier, seed)
    return res


def selftest():
    """Oracle sanity: rounding to binary16/32 under RNE must agree with numpy's casts."""
    for nbits in range(4, 9):
        for es in range(0, nbits):
            for nk in (0, 1, 2, 3):
                if nk == 0 and es == 0:
                    continue
                for inf in (False, True):
                    vals = F._efloat_vals(es, nbits, inf, nk, 1)
                    fin = [v for v in vals if isinstance(v, Fraction)]
                    want = (max([v for v in fin if v > 0], default=Fraction(0)), min([v for v in fin if v < 0], default=Fraction(0)),
                            NAN in vals, PINF in vals, NZERO in vals)
                    got = F.efloat_summary_analytic(es, nbits, inf, nk, 1)
                    assert want == got, ('efloat analytic vs enumerated', es, nbits, inf, nk, want, got)
    import numpy as np
    import struct
    _, m16 = F.mk_ieee(5, 16)
    _, m32 = F.mk_ieee(8, 32)
    assert m16.pos_max == 65504 and m16.p == 11 and m16.nmin == -25, m16
    assert m32.p == 24 and m32.nmin == -150, m32
    xs = [1.0, 1.0009765625, 1.00048828125, 1.000488281250001, 65504.0, 65519.99, 65520.0, 6e-8, 2.98e-8,
          2.9802322387695312e-08, 1e-10, 3.14159, -2.71828e-5, 1e30, 1.0000000596046448, 3.4028235677973366e38]
    with np.errstate(over='ignore'):
        for x in xs:
            for mm, ty in ((m16, np.float16), (m32, np.float32)):
                o = expect(mm, den(x))
                want = den(float(ty(x)))
                assert o.values == {want}, (x, ty, o.values, want)


def replay(case):
    """Re-runs one saved case (plain data) against the tree."""
    res = Result()
    kind, args, kw = case['ctx']
    def unshow(v):
        if isinstance(v, str) and v not in (NAN, PINF, NINF, PZERO, NZERO) and v not in MODES and v not in F.OV:
            return Fraction(v)
        return v
    args = tuple(unshow(a) if isinstance(a, str) else a for a in args)
    kw = {k: unshow(v) for k, v in kw.items()}
    if kind == 'named':
        ctx0 = getattr(fp, args[0])
        ctx = ctx0.with_params(rm=F.RM[kw['rm']])
        raise NotImplementedError('named replay')
    ctx, m = F.build((kind, args, kw))
    d = unshow(case['operand'])
    cname = case['carrier']
    obj = None
    if isinstance(d, Fraction):
        for nme, o in F.carriers(d):
            if nme == cname:
                obj = o
    else:
        for nme, o, dd in F.special_carriers():
            if nme == cname:
                obj = o
    if obj is None:
        raise ValueError(f'cannot rebuild carrier {cname} for {d}')
    check_one(res, ctx, m, case['ctx'], case['entry'], cname, obj, d, n=case.get('n'), exact=case.get('exact', False))
    return [f for fl in res.failures.values() for f in fl]
