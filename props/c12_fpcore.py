"""
C12 — Translation to and from FPCore preserves meaning.

Generated FPy source text (vlib.c12_gen, the "fpcore" profile) is loaded through the real `@fp.fpy` decorator,
compiled with `fp.FPCoreCompiler(unsafe_int_cast=True)` (the mode the repository's own FPCore tests and
round-trip driver use) and checked three ways:

  (a) titanfp's MPMF `Interpreter` on the emitted core  vs  `f(*args)` in the FPy interpreter;
  (b) `Function.from_fpcore(core)(*args)`               vs  `f(*args)`;
  (c) structural: every rounded node of the emitted core sits under exactly the precision / rounding of the
      `with` block (or declared context) that encloses the corresponding node in the source text
      (vlib.c12_oracle walks Python's `ast` of the text and the core tree in lock-step).

A second layer (vlib.c12_coregen) generates FPCore TEXT that does not come from the compiler (let / let* swaps,
while / while* and for / for* with carried variables that read each other, full and partial annotations), parses it
with titanfp, reads it back with `Function.from_fpcore` and compares the result with a reference evaluator written
from the FPCore 2.0 standard (exact rationals + independent rounding oracle) AND with titanfp; a verdict needs the
two references to agree.

(b) and (c) are violations on their own.  A disagreement in (a) is a violation only when (b) or (c) confirms
it; otherwise it is counted as `titanfp-only` (titanfp is a third-party evaluator with quirks of its own).
"""

from __future__ import annotations

import hashlib
import re
from fractions import Fraction

import fpy2 as fp
import titanfp.fpbench.fpcast as fpc
from fpy2.ast.fpyast import ListTypeAnn, RealTypeAnn
from fpy2.backend.fpc import FPCoreCompileError
from titanfp.fpbench import fpcparser

from vlib import c12_coregen as cg, c12_gen, c12_oracle as orc, progen
from vlib.load import load_module, unload
from vlib.runner import Result, h64

PROPERTY = 'C12'
LEVEL = 'translation_validation'
RULE = ('Programs: type-directed generator of FPy source text restricted to the FPCore-expressible subset (vlib/c12_gen.py: bare '
        'integer and explicitly rounded constants; sequential/nested `with` blocks with statements after the inner block over '
        'binary16/32/64/128, (float es nbits), integer, (fixed scale nbits), real and the six FPCore rounding modes; if/if-else '
        'mutating 1-3 variables; while/for with 1-3 carried variables; tuples; fixed-size list arguments; comprehensions; '
        'sum/min/max/any/all; helper calls) plus hand-parameterised templates; each accepted program runs on several argument '
        'vectors representable in its top-level context.  Checked: (a) titanfp Interpreter on the emitted core vs f(*args), '
        '(b) Function.from_fpcore(core)(*args) vs f(*args), (c) node-by-node annotation check of the emitted core against the '
        'source text.  Non-trivial = the source has >= 2 distinct contexts and a rounded node after an inner `with` block, or a '
        'loop with >= 2 carried variables; distinct by (source hash, input index).  Core layer: generated FPCore text (let/let* with '
        'rebinding, while/while*/for/for* with >= 2 mutually dependent carried variables, nested full/partial `!` annotations, if, array '
        'result) read back with from_fpcore vs a standard-based exact reference evaluator and titanfp; non-trivial = has a multi-binding '
        'let, a loop or a partial annotation.')
ASSUMPTIONS = [
    'titanfp.arithmetic.mpmf.Interpreter is the reference FPCore evaluator (the one the repository tests use); it rounds arguments '
    'to the core\'s top-level context, so arguments are drawn representable in it; its own failures (no `real` precision, no `wrap` '
    'overflow, 64-bit `integer`) give no verdict for (a) and are counted.',
    'A disagreement seen only by titanfp (read-back agrees with the original and the annotation check passes) is counted as '
    '`titanfp-only`, not a violation.',
    'FPCore `(fixed scale nbits)` argument order, `integer`, `real`, binaryN = (float es nbits) and the rounding-mode names are taken '
    'from the FPCore 2.0 standard; `fp.INTEGER` is MPFixedContext(-1, RTZ) as documented.',
    'A function without a declared context called from Python runs under binary64/nearestEven (FPCore default = FPy default).',
    'The CPU-time guard (6 s of CPU per evaluation; programs take milliseconds) only classifies a read-back that no longer terminates.',
    'Core layer: FPCore 2.0 semantics assumed are: let/while/for bind and update in parallel (all right-hand sides see the previous '
    'values), let*/while*/for* sequentially; loop inits are evaluated before the loop (for: before the index is bound); an annotation '
    'updates the properties it names and inherits the rest; literals are rounded under the properties in force, variables are not; '
    'IEEE overflow follows the rounding direction.  A violation is reported only when titanfp AND the standard-based reference agree '
    'with each other and differ from the read-back; where they disagree (titanfp overflows to infinity under directed rounding) the '
    'case is counted as core:references-disagree (disagreements_checked) with no verdict.  A core the reader refuses is a counted skip.',
    'List aliasing + mutation (ys = xs; ys[0] = v) is outside the stated subset and is not generated: FPCore has no mutable state.',
]
EXHAUSTIVE = {'quick': False, 'thorough': False}
FLOORS = {'nt:ctx-reorder': 0.15, 'nt:carried>=2': 0.08, 'a:agree': 0.3, 'b:agree': 0.35, 'core:agree': 0.25, 'nt:core': 0.2}

N_INPUTS = 5


# ---------------------------------------------------------------------------------------------------------

def set_sizes(fn, sizes):
    it = iter(sizes)
    for arg in fn.ast.args:
        if isinstance(arg.type, ListTypeAnn):
            dims = next(it)
            ann = RealTypeAnn(None, None)
            for d in reversed(dims if isinstance(dims, list) else [dims]):
                ann = ListTypeAnn(ann, d, None)
            arg.type = ann


def reject_reason(e: Exception) -> str:
    msg = str(e.args[0]) if e.args else type(e).__name__
    msg = re.sub(r"[\[\(].*$", '', msg)
    msg = re.sub(r'\d+', 'N', msg).strip()
    return msg[:60]


def core_has(core, cls):
    stack = [core.e]
    while stack:
        e = stack.pop()
        if isinstance(e, cls):
            return True
        if isinstance(e, fpc.Ctx):
            stack.append(e.body)
        elif isinstance(e, fpc.Expr):
            try:
                for group in e.subexprs():
                    stack.extend(group)
            except Exception:
                pass
    return False


def while_cond_binds(core) -> bool:
    """Does some `while` condition contain a binding form (let / if / annotation)?"""
    stack = [core.e]
    while stack:
        e = stack.pop()
        if isinstance(e, fpc.While):
            sub = [e.cond]
            while sub:
                c = sub.pop()
                if isinstance(c, (fpc.Let, fpc.If, fpc.Ctx, fpc.For, fpc.Tensor)):
                    return True
                if isinstance(c, fpc.Expr):
                    try:
                        for g in c.subexprs():
                            sub.extend(g)
                    except Exception:
                        pass
        if isinstance(e, fpc.Ctx):
            stack.append(e.body)
        elif isinstance(e, fpc.Expr):
            try:
                for group in e.subexprs():
                    stack.extend(group)
            except Exception:
                pass
    return False


def readback(core, env, res, case, tag):
    """-> Function | None; records read-back failures."""
    try:
        return fp.Function.from_fpcore(core, env=env, ignore_unknown=True)
    except Exception as e:
        raw = any(not isinstance(v, fpc.Data) for v in _all_props(core))
        bucket = f'readback-raises:{type(e).__name__}' + ('/props-not-Data' if raw else '')
        res.fail(bucket, case, expected='Function.from_fpcore(compile(f)) succeeds', got=f'{type(e).__name__}: {str(e)[:200]} [{tag}]')
        if raw:
            # keep exploring behind the defect: the printed core re-parsed by titanfp's own parser is well-formed
            try:
                core2 = fpcparser.compile(core.sexp)[0]
                return fp.Function.from_fpcore(core2, env=env, ignore_unknown=True)
            except Exception:
                return None
        return None


def _all_props(core):
    out = []
    stack = [core.e]
    while stack:
        e = stack.pop()
        if isinstance(e, fpc.Ctx):
            out.extend(e.props.values())
            stack.append(e.body)
        elif isinstance(e, fpc.Expr):
            try:
                for group in e.subexprs():
                    stack.extend(group)
            except Exception:
                pass
    return out


def classify_value_mismatch(c_res, b_differs, info, core):
    if c_res[0] == 'fail':
        return c_res[1]
    return 'value-mismatch/readback-and-titanfp-agree' if b_differs else 'value-mismatch'


def check_program(res: Result, src, sizes, inputs, features, origin, unsafe_int_cast=True):
    """inputs: list of argument lists (Python floats / lists of floats)."""
    try:
        info = orc.source_events(src)
    except orc.Unsupported as e:
        raise RuntimeError(f'generator produced source the structural oracle cannot read: {e}\n{src}')
    try:
        mod = load_module(src)
    except Exception as e:
        res.skip(f'load-rejected:{type(e).__name__}')
        if res.skipped.get(f'load-rejected:{type(e).__name__}', 0) <= 2:
            res.sample({'load_rejected': src, 'error': f'{type(e).__name__}: {str(e)[:300]}'})
        return
    try:
        _check_loaded(res, mod, info, src, sizes, inputs, features, origin, unsafe_int_cast)
    finally:
        unload(mod)


def _check_loaded(res, mod, info, src, sizes, inputs, features, origin, unsafe_int_cast):
    fn = mod.main
    set_sizes(fn, sizes)
    helper_names = [n for n in info.events if n != 'main']
    base_case = {'src': src, 'sizes': list(sizes), 'args': None, 'unsafe_int_cast': unsafe_int_cast, 'origin': origin}
    comp = fp.FPCoreCompiler(unsafe_int_cast=unsafe_int_cast)
    cores = {}
    res.count('generated')
    for name in helper_names + ['main']:
        try:
            cores[name] = comp.compile(getattr(mod, name))
        except FPCoreCompileError as e:
            r = reject_reason(e)
            res.skip(f'rejected:{r}')
            res.count('rejected')
            if res.skipped[f'rejected:{r}'] <= 1:
                res.sample({'rejected': src, 'error': str(e)[:300]})
            return
        except Exception as e:
            # not accepted, but not through the documented rejection either: the statement only speaks about accepted
            # functions, so this is counted (and sampled) rather than failed
            r = f'rejected-other:{type(e).__name__}'
            res.skip(r)
            res.count('rejected')
            if res.skipped[r] <= 1:
                res.sample({'rejected_other': src, 'error': f'{type(e).__name__}: {str(e)[:300]}'})
            return
    res.count('programs')
    res.count('accepted')
    core = cores['main']
    sh = hashlib.blake2b(src.encode(), digest_size=8).hexdigest()

    # ---- program classes
    reorder = info.distinct_ctx >= 2 and info.after_inner
    carried2 = info.max_carried >= 2
    nt = reorder or carried2
    res.cls('p:ctx>=2+stmt-after-inner-with', 1 if reorder else 0)
    res.cls('p:loop-carried>=2', 1 if carried2 else 0)
    res.cls(f'p:with-depth-{min(info.max_with_depth, 3)}')
    for f in sorted(features):
        res.cls('f:' + f)

    # ---- (c) structural annotation check, once per function
    c_res = ('ok', None)
    for name in helper_names + ['main']:
        try:
            r = orc.structural_check(info.events[name], orc.core_events(cores[name]))
        except orc.Unsupported as e:
            r = ('misaligned', f'unsupported core node: {e}')
        if r[0] == 'fail':
            c_res = r
            break
        if r[0] == 'misaligned' and c_res[0] == 'ok':
            c_res = r
    res.cls('c:' + c_res[0])
    first_case = dict(base_case, args=progen_encode(inputs[0]) if inputs else [])
    if c_res[0] == 'misaligned':
        res.skip('c-misaligned')
        if res.skipped['c-misaligned'] <= 2:
            res.sample({'c_misaligned': src, 'detail': c_res[1], 'core': core.sexp})
    if c_res[0] == 'fail':
        res.fail(c_res[1], first_case, expected='every rounded node annotated with its enclosing source context', got=c_res[2])

    # ---- (b) read back
    env = fp.ForeignEnv.default()
    g = None
    ok = True
    for name in helper_names:
        h = readback(cores[name], env, res, first_case, f'helper {name}')
        if h is None:
            ok = False
            break
        env.globals[name] = h
    if ok:
        g = readback(core, env, res, first_case, 'main')
    res.cls('b:readback-built', 1 if g is not None else 0)
    hoist = while_cond_binds(core)

    helper_cores = [cores[n] for n in helper_names]
    b_timeouts = 0
    a_timeouts = 0
    # a non-terminating translation costs a full CPU budget per evaluation: after the first one in a program the
    # remaining evaluations of that oracle are skipped (counted), and a shard that has seen several gets a shorter budget
    budget = 6 if res.extra.get('timeouts', 0) < 3 else 1.5
    for idx, args in enumerate(inputs):
        res.case()
        case = dict(base_case, args=progen_encode(args))
        ref = orc.run_fpy(fn, args)
        if ref[0] != 'value':
            res.skip('fpy-raises:' + ref[1] if ref[0] == 'raise' else 'fpy-timeout')
            continue
        res.cls('returned')
        if nt:
            res.nontrivial((sh, idx))
            if reorder:
                res.cls('nt:ctx-reorder')
            if carried2:
                res.cls('nt:carried>=2')
            if res.evaluations % 211 == 0:
                res.sample(case, nt=True)
        elif res.evaluations % 997 == 0:
            res.sample(case)

        # (b)
        b_differs = False
        if g is not None:
            if b_timeouts >= 1:
                res.skip('b-skipped-after-divergence')
            else:
                got = orc.run_fpy(g, args, budget)
                if got[0] == 'timeout':
                    b_timeouts += 1
                    res.count('timeouts')
                    b_differs = True
                    res.fail('readback-diverges' + ('/while-cond-hoisted' if hoist else ''), case, expected=ref[1],
                             got='read-back function exceeded its CPU budget of seconds (the original returns in milliseconds)')
                elif got[0] == 'raise':
                    b_differs = True
                    res.fail(f'readback-raises-at-call:{got[1]}' + ('/' + c_res[1] if c_res[0] == 'fail' else ''), case,
                             expected=ref[1], got=f'{got[1]}: {got[2]}')
                elif got[1] != ref[1]:
                    b_differs = True
                    res.fail('readback-differs' + ('/' + c_res[1] if c_res[0] == 'fail' else ''), case, expected=ref[1], got=got[1])
                else:
                    res.cls('b:agree')

        # (a)
        if a_timeouts >= 1:
            res.skip('a-skipped-after-timeout')
            continue
        ta = orc.run_titan(core, helper_cores, args, budget)
        if ta[0] == 'timeout':
            a_timeouts += 1
            res.count('timeouts')
            res.skip('titanfp-timeout')
        elif ta[0] == 'error':
            res.skip('titanfp-no-verdict:' + ta[1])
            res.cls('a:no-verdict')
        elif ta[1] == ref[1]:
            res.cls('a:agree')
        else:
            res.count('disagreements_checked')
            if c_res[0] == 'fail' or b_differs:
                res.cls('a:disagree-confirmed')
                res.fail(classify_value_mismatch(c_res, b_differs, info, core), case, expected=ref[1], got=ta[1],
                         note='titanfp disagrees with the FPy interpreter; confirmed by ' + ('(c) ' if c_res[0] == 'fail' else '') + ('(b)' if b_differs else ''))
            else:
                res.cls('titanfp-only')
                if res.classes['titanfp-only'] <= 3:
                    res.sample({'titanfp_only': case, 'fpy': ref[1], 'titanfp': ta[1], 'core': core.sexp})


def progen_encode(args):
    def enc(a):
        if isinstance(a, list):
            return {'L': [enc(x) for x in a]}
        a = float(a)
        return {'f': a.hex() if a == a and a not in (float('inf'), float('-inf')) else repr(a)}
    return [enc(a) for a in args]


def decode_args(enc):
    def dec(a):
        if 'L' in a:
            return [dec(x) for x in a['L']]
        s = a['f']
        return float.fromhex(s) if s.startswith(('0x', '-0x')) else float(s)
    return [dec(a) for a in enc]


# ---------------------------------------------------------------------------------------------------------
# second layer: FPCore text that does not come from the compiler, read back and run against two references

CORE_ARGS_SMALL = [1.5, 2.0, -0.75, 3.0, 0.5, 2.5, -1.0, 4.0, 0.25, 1.0, 0.0, -2.25, 6.0]
CORE_ARGS_F64 = CORE_ARGS_SMALL + [0.1, 3.3, 1e10, -0.7, 1.0000001, 12345.678, 1e-8]

HAND_CORES = [
    ('(FPCore (x y) (let ([x y] [y x]) (- x y)))', 2),
    ('(FPCore (x y) (let* ([x y] [y x]) (- x y)))', 2),
    ('(FPCore (x y) (let ([x (+ x y)] [y (- x y)]) (+ (* x 10) y)))', 2),
    ('(FPCore (x y z) (let ([x y] [y z] [z x]) (+ (* x 100) (+ (* y 10) z))))', 3),
    ('(FPCore (x y) (while (> k 0) ([k 3 (- k 1)] [a x (+ a b)] [b y (- a b)]) (array a b)))', 2),
    ('(FPCore (x y) (while* (> k 0) ([k 3 (- k 1)] [a x (+ a b)] [b y (- a b)]) (array a b)))', 2),
    ('(FPCore (x y) (for ([i 3]) ([a x (+ a b)] [b y (- a (* b 0.5))]) (- a b)))', 2),
    ('(FPCore (x y) (for* ([i 3]) ([a x (+ a b)] [b y (- a (* b 0.5))]) (- a b)))', 2),
    ('(FPCore (x y) (! :precision binary32 (+ x (! :round toZero (* x y)))))', 2),
    ('(FPCore (x y) :precision binary32 :round toPositive (+ (/ x 3) (! :round toNegative (/ y 3))))', 2),
    ('(FPCore (x y) (! :precision (float 5 12) :round toZero (let ([a (/ x 3)]) (! :precision binary16 (* a (/ y 7))))))', 2),
    ('(FPCore (x y) (if (< x y) (let ([x y] [y x]) (/ x y)) (let* ([x y] [y x]) (/ x (+ y 1)))))', 2),
    ('(FPCore (x y) (! :precision binary32 (if (< x y) (! :round toZero (/ x 3)) (! :round toPositive (/ y 7)))))', 2),
    ('(FPCore (x y) :precision binary32 (if (< x y) (! :round toZero (/ x 3)) (! :round toPositive (/ y 7))))', 2),
    ('(FPCore (x y) (! :precision (float 5 12) :round toNegative (while (> k 0) ([k 2 (- k 1)] [a x (! :precision binary16 (/ a 3))]) (if (< a y) (! :round toZero (/ a 7)) a))))', 2),
]


def check_core(res: Result, text, nargs, inputs, features, origin):
    try:
        core = fpcparser.compile(text)[0]
    except Exception as e:
        raise RuntimeError(f'generated FPCore text does not parse: {e}\n{text}')
    res.count('core-programs')
    for f in sorted(features):
        res.cls('cf:' + f)
    try:
        g = fp.Function.from_fpcore(core, ignore_unknown=True)
    except Exception as e:
        # the reader refusing a core is not a wrong translation
        r = f'reader-refused:{type(e).__name__}'
        res.skip(r)
        if res.skipped[r] <= 2:
            res.sample({'reader_refused': text, 'error': f'{type(e).__name__}: {str(e)[:200]}'})
        return
    sh = hashlib.blake2b(text.encode(), digest_size=8).hexdigest()
    nt = bool(features & {'let-multi', 'let*-multi', 'while', 'while*', 'for', 'for*', 'partial-annotation'})
    if any(f.startswith('scoped-partial') for f in features):
        res.cls('core:scoped-partial-annotation')
    for idx, args in enumerate(inputs):
        res.case()
        case = {'core': text, 'args': progen_encode(args), 'origin': origin}
        ref = cg.ref_eval(core, args)
        ta = orc.run_titan(core, [], args)
        if ref[0] != 'value' or ta[0] != 'value':
            res.skip('core-no-verdict:' + ('reference-open' if ref[0] != 'value' else 'titanfp-' + ta[0]))
            continue
        if ref[1] != ta[1]:
            # the standard-based reference and titanfp disagree: no verdict either way
            res.count('disagreements_checked')
            res.cls('core:references-disagree')
            if res.classes['core:references-disagree'] <= 2:
                res.sample({'references_disagree': case, 'reference': ref[1], 'titanfp': ta[1]})
            continue
        if nt:
            res.nontrivial((sh, idx))
            res.cls('nt:core')
        got = orc.run_fpy(g, args)
        if got[0] == 'value' and got[1] == ref[1]:
            res.cls('core:agree')
            continue
        # name the root cause: which single wrong reading of the standard reproduces the reader's result?
        why = ''
        if got[0] == 'value':
            for alt in cg.ALTS:
                r = cg.ref_eval(core, args, alt=alt)
                if r[0] == 'value' and r[1] == got[1]:
                    why = '/' + alt
                    break
            res.fail('core-readback-differs' + why, case, expected=ref[1], got=got[1])
        elif got[0] == 'raise':
            res.fail(f'core-readback-raises:{got[1]}', case, expected=ref[1], got=f'{got[1]}: {got[2]}')
        else:
            res.fail('core-readback-diverges', case, expected=ref[1], got='CPU budget exceeded')


# ---------------------------------------------------------------------------------------------------------
# templates: one per clause of the statement, parameterised over contexts

T_CTX_FLOAT = ['fp.FP16', 'fp.FP32', 'fp.IEEEContext(5, 16, fp.RM.RTZ)', 'fp.IEEEContext(4, 8, fp.RM.RTP)',
               'fp.IEEEContext(8, 32, fp.RM.RTN)', 'fp.IEEEContext(3, 6, fp.RM.RAZ)', 'fp.IEEEContext(6, 20, fp.RM.RNA)',
               'fp.IEEEContext(11, 64, fp.RM.RTZ)', 'fp.FP128', 'fp.IEEEContext(8, 16, fp.RM.RNE)', 'fp.IEEEContext(11, 32, fp.RM.RTZ)',
               'fp.IEEEContext(5, 32, fp.RM.RNA)', 'fp.IEEEContext(8, 64, fp.RM.RTP)']
T_CTX_ANY = T_CTX_FLOAT + ['fp.INTEGER', 'fp.MPFixedContext(-1, fp.RM.RNA, enable_neg_zero=False)', 'fp.FixedContext(True, -2, 8, fp.RM.RTZ, fp.OV.SATURATE)',
                           'fp.FixedContext(True, -4, 12, fp.RM.RNE, fp.OV.SATURATE)', 'fp.FixedContext(True, -3, 10, fp.RM.RTP, fp.OV.OVERFLOW)',
                           'fp.REAL']

TEMPLATES = [
    ('headline-nested-continuation', '''
@fp.fpy
def main(a0: fp.Real, a1: fp.Real):
    with {c1}:
        a = a0 * a1
        with {c2}:
            b = a + a0
        c = b * a
    return c - a1
''', ['R', 'R'], 'any'),
    ('sequential-blocks', '''
@fp.fpy
def main(a0: fp.Real, a1: fp.Real):
    with {c1}:
        a = a0 / a1
    b = a * fp.round(0.1)
    with {c2}:
        c = b + a / 3
    d = c * c - b
    return (a, b, c, d)
''', ['R', 'R'], 'any'),
    ('three-level-nest', '''
@fp.fpy
def main(a0: fp.Real, a1: fp.Real):
    with {c1}:
        a = a0 / 3
        with {c2}:
            b = a * a1
            with {c3}:
                c = b / 7
            d = c + b
        e = d * a
    return e + a0 / 7
''', ['R', 'R'], 'float'),
    ('fixed-point-blocks', '''
@fp.fpy
def main(a0: fp.Real, a1: fp.Real):
    with fp.FixedContext(True, {s1}, {n1}, fp.RM.{rm1}, fp.OV.SATURATE):
        a = a0 * a1
    with fp.FixedContext(True, {s2}, {n2}, fp.RM.{rm2}, fp.OV.SATURATE):
        b = a / 3 + a0
    return a + b
''', ['r', 'r'], 'fixed'),
    # FPCore's `(fixed scale nbits)` is two's complement: an unsigned format has no spelling, so this is either refused
    # (a counted skip) or, if it is ever compiled, must still mean what the interpreter computes on negative operands
    ('unsigned-fixed-block', '''
@fp.fpy
def main(a0: fp.Real, a1: fp.Real):
    with fp.FixedContext(False, {s1}, {n1}, fp.RM.{rm1}, fp.OV.SATURATE):
        a = a0 * a1
        b = a - a0
    return (a, b)
''', ['r', 'r'], 'fixed'),
    ('declared-ctx-and-block', '''
@fp.fpy(ctx={c1})
def main(a0: fp.Real, a1: fp.Real):
    a = a0 * fp.round(0.3)
    with {c2}:
        b = a / a1
    c = b * b + a
    return c
''', ['s', 's'], 'float'),
    ('while-three-carried-with-inside', '''
@fp.fpy
def main(a0: fp.Real, a1: fp.Real):
    k = 3
    a = a0
    b = a1
    with {c1}:
        while k > 0:
            a = a * b + k
            with {c2}:
                b = b / 3
            a = a - b
            k = k - 1
    return a + b
''', ['R', 'R'], 'float'),
    ('for-zip-two-carried', '''
@fp.fpy
def main(a0: list[fp.Real], a1: list[fp.Real], a2: fp.Real):
    s = a2
    p = fp.round(1)
    with {c1}:
        for x, y in zip(a0, a1):
            s = s + x * y
            with {c2}:
                p = p * y + fp.round(0.1)
            s = s - p
    return (s, p)
''', ['L3', 'L3', 'R'], 'float'),
    ('for-enumerate-element-vs-index', '''
@fp.fpy
def main(a0: list[fp.Real], a1: fp.Real):
    acc = a1
    w = fp.round(0)
    for i, x in enumerate(a0):
        with {c1}:
            acc = acc + x * 3 - i
        w = w + x
    for e in a0:
        acc = acc * e
    for j in range(len(a0)):
        w = w - a0[j] / 3
    return (acc, w)
''', ['L3', 'R'], 'float'),
    ('if-bundling-and-intro', '''
@fp.fpy
def main(a0: fp.Real, a1: fp.Real):
    a = a0
    b = a1
    if a0 < a1:
        with {c1}:
            a = a / 3
        b = b * a
        z = a + b
    else:
        b = b - a
        with {c2}:
            z = b / 7
        a = z * a
    return (a, b, z)
''', ['R', 'R'], 'any'),
    ('reductions-under-ctx', '''
@fp.fpy
def main(a0: list[fp.Real], a1: fp.Real):
    with {c1}:
        s = sum(a0)
        ys = [x / 3 for x in a0]
        with {c2}:
            t = sum(ys)
        u = sum([s, t, a1])
    return (s, t, u, min(a0), max(ys), any([x < a1 for x in a0]), all([x < a1 for x in ys]), len(ys))
''', ['L4', 'R'], 'float'),
    ('helpers', '''
@fp.fpy
def h0(p0: fp.Real, p1: fp.Real):
    return p0 / p1 + fp.round(0.1)

@fp.fpy(ctx={c1})
def h1(p0: fp.Real):
    with {c2}:
        t = p0 / 3
    return t * p0 + h0(t, 7)

@fp.fpy
def main(a0: fp.Real, a1: fp.Real):
    a = h0(a0, a1)
    with {c3}:
        b = h0(a0, a1)
        c = h1(a0)
    return (a, b, c, h1(b))
''', ['R', 'R'], 'float'),
    ('tail-with-and-tuples', '''
@fp.fpy
def main(a0: fp.Real, a1: fp.Real):
    t = (a0 / 3, a1 * fp.round(0.7))
    with {c1}:
        u, v = t
        w = u + v
    q = (w * w, fp.fst(t) - w)
    with {c2}:
        return (fp.snd(q) / 3, w, fp.fst(q) + fp.snd(t))
''', ['R', 'R'], 'any'),
    ('while-cond-with-bindings', '''
@fp.fpy
def main(a0: fp.Real, a1: fp.Real):
    k = 3
    a = a0
    with {c1}:
        while min(k, a1) > 0:
            a = a * fp.round(0.5) + k
            k = k - 1
    return a
''', ['R', 'R'], 'float'),
    ('two-level-index', '''
@fp.fpy
def main(a0: list[list[fp.Real]], a1: fp.Real):
    m = [[a1, a1 * 2, a1 / 3], [fp.round(0.1), a1 - 1, fp.round(7)]]
    with {c1}:
        s = a0[0][2] * m[1][0] + a0[1][0]
        t = a0[1][2] - m[0][1] / 3
    return (s, t, m[1][2], a0[0][1], sum(a0[1]), max(m[0]))
''', ['M23', 'R'], 'float'),
    ('indexed-assign-local-list', '''
@fp.fpy
def main(a0: list[fp.Real], a1: fp.Real):
    ys = [x * a1 for x in a0]
    with {c1}:
        ys[1] = ys[0] / 3
        s = sum(ys)
    ys[0] = s + a1
    return (ys[0], ys[1], ys[2], s)
''', ['L3', 'R'], 'float'),
]

T_ARGS = {
    'R': c12_gen.F64_POOL,
    'r': [1.5, -2.25, 3.75, 0.5, 7.0, 2.5, -0.75, 10.0, 0.1, 1.1, 12.6],
    's': c12_gen.SMALL_DYADIC,
}


def template_cases(seed, tier):
    ch = progen.RandChooser(h64(seed, 'C12tmpl'))
    n_var = 30 if tier == 'thorough' else 6
    out = []
    for name, tmpl, tys, kind in TEMPLATES:
        for _ in range(n_var):
            pool = T_CTX_ANY if kind == 'any' else T_CTX_FLOAT
            c1, c2, c3 = ch.choice(pool), ch.choice(pool), ch.choice(pool)
            while c2 == c1:
                c2 = ch.choice(pool)
            s1, s2 = ch.int(-6, 0), ch.int(-6, 0)
            fmt = dict(c1=c1, c2=c2, c3=c3, s1=s1, n1=ch.int(6, 14), s2=s2, n2=ch.int(6, 14),
                       rm1=ch.choice(c12_gen.RMS), rm2=ch.choice(c12_gen.RMS))
            if fmt['n1'] == -s1:
                fmt['n1'] += 1
            src = tmpl.format(**fmt).lstrip('\n')
            if kind == 'float' and name == 'declared-ctx-and-block':
                apool = c12_gen.arg_pool(c1, False)
            else:
                apool = None
            sizes = [int(t[1:]) if t[0] == 'L' else [int(t[1]), int(t[2])] for t in tys if t[0] in 'LM']
            inputs = []
            finite_only = 'fp.REAL' in src or 'FixedContext' in src or 'fp.INTEGER' in src or 'MPFixedContext' in src
            for _ in range(8 if tier == 'thorough' else 5):
                args = []
                for t in tys:
                    p = apool if apool is not None else T_ARGS[t[0] if t[0] not in 'LM' else 'R']
                    if finite_only:
                        p = [x for x in p if x == x and abs(x) != float('inf')]
                    if t.startswith('L'):
                        args.append([ch.choice(p) for _ in range(int(t[1:]))])
                    elif t.startswith('M'):
                        cells = [x for x in dict.fromkeys(p) if x == x]
                        rows = []
                        for _r in range(int(t[1])):
                            row = []
                            for _c in range(int(t[2])):
                                x = ch.choice(cells)
                                cells.remove(x)
                                row.append(x)
                            rows.append(row)
                        args.append(rows)
                    else:
                        args.append(ch.choice(p))
                inputs.append(args)
            out.append((name, src, sizes, inputs))
    return out


# ---------------------------------------------------------------------------------------------------------

def profile_for(i):
    p = c12_gen.FpcProfile()
    if i % 4 == 1:
        p.max_stmts = 4
        p.helpers = False
    if i % 4 == 2:
        p.lists = False
        p.with_weight = 22
    if i % 4 == 3:
        p.real_ctx = False
        p.fixed_ctx = False
    return p


def shards(tier, seed):
    n_shards = 96 if tier == 'thorough' else 32
    per = 420 if tier == 'thorough' else 25
    out = [('gen', i, per, seed, tier) for i in range(n_shards)]
    out += [('hyp', i, 120 if tier == 'thorough' else 12, seed, tier) for i in range(16 if tier == 'thorough' else 4)]
    out += [('tmpl', k, seed, tier) for k in range(len(TEMPLATES))]
    out += [('core', i, 1500 if tier == 'thorough' else 150, seed, tier) for i in range(32 if tier == 'thorough' else 8)]
    out.append(('corehand', seed, tier))
    return out


def run_shard(shard):
    res = Result()
    kind = shard[0]
    if kind == 'tmpl':
        _, k, seed, tier = shard
        want = TEMPLATES[k][0]
        for name, src, sizes, inputs in template_cases(seed, tier):
            if name == want:
                check_program(res, src, sizes, inputs, {'template:' + name}, 'template:' + name)
        return res
    if kind == 'gen':
        _, i, per, seed, tier = shard
        for j in range(per):
            ch = progen.RandChooser(h64(seed, 'C12', i, j))
            prog = c12_gen.gen_program(ch, profile_for(i))
            inputs = [c12_gen.gen_inputs(ch, prog) for _ in range(N_INPUTS)]
            check_program(res, prog.src, prog.sizes(), inputs, prog.features, f'gen:{seed}:{i}:{j}')
        return res
    if kind == 'core':
        _, i, per, seed, tier = shard
        for j in range(per):
            ch = progen.RandChooser(h64(seed, 'C12core', i, j))
            text, nargs, feats = cg.gen_core(ch)
            pool = CORE_ARGS_SMALL if 'core-props' in feats else CORE_ARGS_F64
            inputs = [[ch.choice(pool) for _ in range(nargs)] for _ in range(3)]
            check_core(res, text, nargs, inputs, feats, f'core:{seed}:{i}:{j}')
        return res
    if kind == 'corehand':
        _, seed, tier = shard
        ch = progen.RandChooser(h64(seed, 'C12corehand'))
        for text, nargs in HAND_CORES:
            inputs = [[ch.choice(CORE_ARGS_SMALL) for _ in range(nargs)] for _ in range(4)]
            check_core(res, text, nargs, inputs, {'let-multi'}, 'core:hand')
        return res
    if kind == 'hyp':
        import hypothesis
        from hypothesis import HealthCheck, Phase, given, settings
        from hypothesis import strategies as st
        _, i, n, seed, tier = shard

        @st.composite
        def progs(draw):
            ch = progen.HypChooser(draw)
            prog = c12_gen.gen_program(ch, profile_for(i))
            inputs = [c12_gen.gen_inputs(ch, prog) for _ in range(2)]
            return prog, inputs

        @hypothesis.seed(h64(seed, i, 'C12hyp') % (1 << 32))
        @settings(max_examples=n, deadline=None, database=None, derandomize=False, report_multiple_bugs=False,
                  phases=[Phase.generate], suppress_health_check=list(HealthCheck))
        @given(progs())
        def prop(pi):
            prog, inputs = pi
            check_program(res, prog.src, prog.sizes(), inputs, prog.features, f'hyp:{seed}:{i}')
        prop()
        return res
    raise ValueError(shard)


def replay(case):
    res = Result()
    if 'core' in case:
        args = decode_args(case['args'])
        check_core(res, case['core'], len(args), [args], {'let-multi'}, case.get('origin', 'replay'))
        return [f for fl in res.failures.values() for f in fl]
    check_program(res, case['src'], case.get('sizes', []), [decode_args(case['args'])] if case.get('args') is not None else [],
                  set(), case.get('origin', 'replay'), unsafe_int_cast=case.get('unsafe_int_cast', True))
    return [f for fl in res.failures.values() for f in fl]


def selftest():
    # structural oracle on hand-built cores: correct nesting passes, continuation under the inner block fails
    src = ('@fp.fpy\ndef main(a0: fp.Real, a1: fp.Real):\n    with fp.FP32:\n        a = a0 * a1\n'
           '        with fp.IEEEContext(5, 16, fp.RM.RTZ):\n            b = a + a0\n        c = b * a\n    return c - a1\n')
    info = orc.source_events(src)
    ev = info.events['main']
    assert [e.kind for e in ev] == [('op', '*'), ('op', '+'), ('op', '*'), ('op', '-')], ev
    assert ev[2].ctx == ('float', 8, 32, 'RNE') and ev[2].trail == (('float', 5, 16, 'RTZ'),), ev[2]
    assert ev[3].ctx == orc.DEFAULT and info.after_inner and info.distinct_ctx == 3
    good = fpcparser.compile('(FPCore (a0 a1) (! :precision binary32 :round nearestEven (let ([a (* a0 a1)]) '
                             '(let ([b (! :precision (float 5 16) :round toZero (+ a a0))]) (let ([c (* b a)]) '
                             '(! :precision binary64 (- c a1)))))))')[0]
    bad = fpcparser.compile('(FPCore (a0 a1) (! :precision binary32 :round nearestEven (let ([a (* a0 a1)]) '
                            '(! :precision binary16 :round toZero (let ([b (+ a a0)]) (let ([c (* b a)]) (- c a1)))))))')[0]
    assert orc.structural_check(ev, orc.core_events(good)) == ('ok', None)
    r = orc.structural_check(ev, orc.core_events(bad))
    assert r[0] == 'fail' and r[1] == 'ctx-scopes-continuation', r
    fx = orc.source_events('@fp.fpy\ndef main(a0: fp.Real):\n    with fp.FixedContext(True, -2, 8, fp.RM.RTZ, fp.OV.SATURATE):\n        return a0 * a0\n')
    swapped = fpcparser.compile('(FPCore (a0) (! :precision (fixed 8 -2) :round toZero :overflow clamp (* a0 a0)))')[0]
    right = fpcparser.compile('(FPCore (a0) (! :precision (fixed -2 8) :round toZero :overflow clamp (* a0 a0)))')[0]
    assert orc.structural_check(fx.events['main'], orc.core_events(right)) == ('ok', None)
    assert orc.structural_check(fx.events['main'], orc.core_events(swapped))[1] == 'fixed-arg-order'
    # titanfp glue: exact argument conversion and result denotation
    c = fpcparser.compile('(FPCore (x y) (array (+ x y) (< x y) (- 0 x)))')[0]
    r = orc.run_titan(c, [], [0.5, 0.25])
    assert r == ('value', ('S', Fraction(3, 4), False, Fraction(-1, 2))), r
    assert c12_gen.ieee_representable(65504.0, 5, 16) and not c12_gen.ieee_representable(65505.0, 5, 16)
    assert c12_gen.ieee_representable(2.0 ** -24, 5, 16) and not c12_gen.ieee_representable(2.0 ** -25, 5, 16)
    assert not c12_gen.ieee_representable(0.1, 8, 32) and c12_gen.ieee_representable(1.5, 3, 6)
    # reference evaluator of the core layer: hand-computed values (let parallel, let* sequential, loops, inheritance)
    def rv(text, args, alt=None):
        return cg.ref_eval(fpcparser.compile(text)[0], args, alt)
    assert rv('(FPCore (x y) (let ([x y] [y x]) (- x y)))', [1.0, 4.0]) == ('value', Fraction(3))
    assert rv('(FPCore (x y) (let* ([x y] [y x]) (- x y)))', [1.0, 4.0]) == ('value', '+0')
    assert rv('(FPCore (a b) (let ([a (+ a b)] [b (- a b)]) (+ (* a 10) b)))', [5.0, 2.0]) == ('value', Fraction(73))
    assert rv('(FPCore (a b) (let ([a (+ a b)] [b (- a b)]) (+ (* a 10) b)))', [5.0, 2.0], 'let-sequential') == ('value', Fraction(75))
    assert rv('(FPCore (x y) (while (> k 0) ([k 2 (- k 1)] [a x (+ a b)] [b y (- a b)]) (array a b)))', [1.0, 2.0]) == ('value', ('S', Fraction(2), Fraction(4)))
    assert rv('(FPCore (x y) (while* (> k 0) ([k 2 (- k 1)] [a x (+ a b)] [b y (- a b)]) (array a b)))', [1.0, 2.0]) == ('value', ('S', Fraction(4), Fraction(3)))
    assert rv('(FPCore (x y) (for ([i 2]) ([a x (+ a i)] [b y (* a 2)]) (array a b)))', [1.0, 5.0]) == ('value', ('S', Fraction(2), Fraction(2)))
    # 1/3 to binary32 toward zero = 11184810 * 2^-25; without inheritance it would be rounded to binary64
    assert rv('(FPCore (x) (! :precision binary32 (! :round toZero (/ x 3))))', [1.0]) == ('value', Fraction(11184810, 2 ** 25))
    assert rv('(FPCore (x) (! :precision binary32 (! :round toZero (/ x 3))))', [1.0], 'annotation-no-inherit')[1] != Fraction(11184810, 2 ** 25)
