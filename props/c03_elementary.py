"""
C03 — Elementary functions and constants are correctly rounded.

Layers (all compare fpy2.ops.<fn>(x, ctx=...) / fpy2.ops.const_*(ctx=...) with an independent oracle):

  fn     functions x operands (all members of two small source formats inside the domain, domain edges,
         exact-result points, precision-dependent operands 2^-k / 1 +- 2^-k) x MPFloat p = 1..64 dense then
         {80,113,128,200,237,300,400} x 8 modes
  sub    MPSFloat contexts whose emin is placed relative to the magnitude of the result (results with
         p-1 ... 0 digits, and below the least subnormal), IEEE formats with operands steered into the
         subnormal range (exp(-k) ...) and beyond the overflow threshold, x 8 modes
  fix    fixed-point targets MPFixed(n), n placed across the magnitude of the result
         (one-pass e <= n and two-pass e > n branches of gmputils.mpfr_call), x 8 modes
  const  every fpy2.ops.const_* x MPFloat p = 1..400, MPFixed n = 2..-420, MPS / IEEE / bounded kinds, x 8 modes
  misc   other context families (MPB, EFloat, Fixed, SMFixed, MPBFixed, Exp), operand carriers int/float/Fraction
  hyp    Hypothesis hard-case search: operands with (digits+20) bits driven onto a rounding breakpoint of the
         target format by Newton iteration on the oracle's own evaluation, candidates ranked by distance

Oracle: vlib.c03_enclosure (directed-rounding MPFR enclosures at >= p+32 ... 4096 bits converted to exact
rationals; table of algebraic identities for rational results) + vlib.oracle_round on a mirrored Model.
"""

from __future__ import annotations

import math
from fractions import Fraction

import fpy2 as fp
from fpy2.number import Float

from vlib import c03_enclosure as E
from vlib import formats as F
from vlib.denote import NAN, NINF, NZERO, PINF, PZERO, den, pow2, show, to_float_obj
from vlib.oracle_round import MODES, Model, Outcome, expect, floor_log2, member, neighbours
from vlib.runner import Result, h64

PROPERTY = 'C03'
LEVEL = 'exploration'
RULE = ('Functions (24 unary + atan2 + pow, the list of fpy2.ops) x operands (all members of the source formats '
        'p=3,e in [-4,4] and p=5,e in [-2,3] inside the domain; domain edges; exact-result points; 2^-k and 1+-2^-k '
        'for k around the target precision) x contexts (MPFloat p=1..64 and {80,113,128,200,237,300,400}; MPSFloat with '
        'emin placed so that the result is subnormal / below the least subnormal; IEEE formats with steered operands; '
        'MPFixed(n) with n placed across the magnitude of the result; a sample of bounded families) x 8 rounding modes; '
        'all 12 named constants x p=1..400 x float and fixed targets x 8 modes; Hypothesis hard-case search driving '
        '(digits+20)-bit operands onto breakpoints. A case is decided by an MPFR directed-rounding enclosure at '
        '>= p+32 .. 4096 bits whose two ends round to the same member (else UNDECIDED, counted under skipped). '
        'Non-trivial = decided case whose true value (lower enclosure end) lies within 2^-9 ulp of a rounding breakpoint '
        '(member or midpoint; i.e. within 2^-(p+8) relative), or whose true result is rational (identity table: value '
        'and inexact=False checked when representable); distinct by hash of (function/constant, operand, context, mode).')
ASSUMPTIONS = [
    'Trusted base: gmpy2/MPFR evaluates each function with correct directed rounding (RoundDown/RoundUp) at the working '
    'precision (128..4096 bits); cross-checked in selftest against published digits, closed-form rational results and '
    'functional identities. The oracle never uses the implementation\'s RTZ(p+2)+sticky technique nor any fpy2 engine code.',
    'Irrationality of results outside the identity table rests on Lindemann-Weierstrass / Gelfond-Schneider; a rational '
    'result missing from the table could only show up as UNDECIDED, never as a violation.',
    'UNDECIDED cases (enclosure at 4096 bits still straddles a breakpoint) and rational results too large to write down are skipped and counted.',
    'Only the exact direction of the inexact flag is demanded: when the true result is rational and representable the result must '
    'be that value with inexact=False. inexact=False on an irrational result is only counted (counter inexact-clear-on-irrational).',
    'A true result of zero (sin 0, log 1, atan2(0, x>0) ...) may be returned as +0 or -0.',
    'const_pi_2, const_pi_4, const_sqrt1_2: docs/source/dev/derived-semantics.rst defines them as C(C(pi)/2), C(C(pi)/4), '
    'C(sqrt(C(1/2))) ("round twice"); the property says "rounded once". Either reading is accepted (a set of two values; '
    'they coincide for binary floating-point contexts without subnormal results; counter const-readings-differ). '
    'A result outside both readings is a violation.',
    'Overflow of a bounded context under RTO/RTE may give either the infinity(-substitute) or the largest value (as in C01).',
    'Non-dyadic rational operands (e.g. the exact value 1/10 of the literal 0.1) are at present refused by every transcendental function with '
    'NotImplementedError (MPFREngine declines Fraction arguments, RealEngine has no transcendental functions). A loud refusal is treated as '
    '"not offered", not as a wrong value: it is a counted, non-failing probe (counter nondyadic-operand-refused). A non-dyadic operand that is '
    'accepted is checked like any other operand (monotone unary functions by enclosing the operand; pow with an integer exponent exactly).',
    'Operands are finite and inside the real domain with a finite real result; poles, out-of-domain operands, infinities and NaN are not generated. '
    'atan2 with both operands zero and pow(0, 0) are treated as outside the domain.',
]
EXHAUSTIVE = {'quick': False, 'thorough': False}
# generator-health floors: fractions of the evaluations (absolute counts when >= 1)
FLOORS = {'hard': 0.05, 'exact': 0.03, 'exact-representable': 0.02, 'path:float-sub': 0.05, 'path:fixed-2pass': 0.05,
          'path:fixed-1pass': 0.01, 'rounds-to-zero': 0.01, 'overflow': 0.003, 'const': 90000, 'hyp': 0.02, 'layer:carrier': 5000}

UN = E.UNARY
BIG_P = (80, 113, 128, 200, 237, 300, 400)
COMPOSED = ('log2e', 'log10e', 'pi_2', 'pi_4', '1_pi', '2_pi', '2_sqrt_pi', 'sqrt1_2')
DOC_TWICE = ('pi_2', 'pi_4', 'sqrt1_2')
HARD_THRESHOLD = Fraction(1, 1 << 9)      # in ulps


def T(k: int) -> Fraction:
    return pow2(k)


# ---------------------------------------------------------------------------
# operands

def src_format(p, elo, ehi):
    return [Fraction(c) * pow2(e - p + 1) for e in range(elo, ehi + 1) for c in range(1 << (p - 1), 1 << p)]


SRC_POS = sorted(set(src_format(3, -4, 4)) | set(src_format(5, -2, 3)))
SRC = sorted(SRC_POS + [-x for x in SRC_POS])


def _pm(xs):
    return [s * Fraction(x) for x in xs for s in (1, -1)]


def _fl(x: float) -> Fraction:
    return Fraction(x)


_Z = [PZERO, NZERO]
_TINY = _pm([T(-20), T(-30), T(-64), T(-80), T(-200)])
_NEAR1_K = (10, 30, 53, 100)

EDGES = {
    'exp': _Z + _pm([1]) + _TINY + _pm([10, 100, 700, 745, 4096]) + [_fl(709.782712893384), _fl(-708.3964185322641),
            _fl(88.72283905206835), _fl(11.090354888959125), _fl(-103.27892990343185), Fraction(-17), Fraction(-10)],
    'exp2': _Z + _pm([1]) + _TINY + [Fraction(x) for x in (-1074, -1075, -150, -24, -25, -14, 3, 10, 127, 128, 1023, 1024, 5000)]
            + [Fraction(1, 2), Fraction(-1, 2), Fraction(21, 2), Fraction(-49, 2), Fraction(2047, 2), Fraction(-2149, 2)],
    'exp10': _Z + _pm([1]) + _TINY + [Fraction(x) for x in (2, 3, 5, 10, 22, 23, 38, 308, -2, -3, -5, -8, -45, -308, -323)]
             + [Fraction(1, 2), Fraction(-1, 2), Fraction(77, 2), Fraction(-15, 2)],
    'expm1': _Z + _pm([1]) + _TINY + _pm([10, 100, 700]) + [Fraction(-40), Fraction(-1, 2)],
    'log': [Fraction(x) for x in (1, 2, 3, 4, 8, 10, 100, 1000, 10 ** 22)] + [T(-1), T(-3), T(-10), T(100), T(-100), T(1000), T(-1074)]
           + [1 + T(-k) for k in _NEAR1_K] + [1 - T(-k) for k in _NEAR1_K] + [_fl(2.718281828459045)],
    'log1p': _Z + _TINY + [Fraction(1), Fraction(3), Fraction(7), Fraction(-1, 2), -(1 - T(-10)), -(1 - T(-50)), T(100), T(1000)],
    'sin': _Z + _TINY + _pm([1]) + [_fl(3.141592653589793), _fl(1.5707963267948966), _fl(0.7853981633974483), _fl(6.283185307179586),
           T(30), T(100), T(1000), Fraction(10 ** 22), Fraction(355), Fraction(22), -T(70)],
    'asin': _Z + _TINY + _pm([1]) + _pm([T(-1)]) + _pm([1 - T(-k) for k in _NEAR1_K]),
    'atan': _Z + _TINY + _pm([1]) + _pm([T(30), T(100), T(300)]),
    'sinh': _Z + _TINY + _pm([1, 10, 20, 40, 100, 700, 4096]),
    'asinh': _Z + _TINY + _pm([1]) + _pm([T(30), T(200), T(1000)]),
    'acosh': [Fraction(1), Fraction(2), Fraction(10), T(30), T(200), T(1000)] + [1 + T(-k) for k in _NEAR1_K],
    'atanh': _Z + _TINY + _pm([T(-1)]) + _pm([1 - T(-k) for k in _NEAR1_K]),
    'erf': _Z + _TINY + _pm([1, 2, 3, 5, 6, 10]) + [Fraction(27), T(10)],
    'erfc': _Z + _TINY + _pm([1, 2]) + [Fraction(x) for x in (5, 10, 26, 27, 40, 100, -5, -10, -27)],
    'tgamma': [Fraction(x) for x in (1, 2, 3, 4, 5, 6, 7, 8, 9, 10, 11, 12, 20, 30, 50, 100, 171, 172)]
              + [Fraction(x, 2) for x in (1, 3, -1, -3, -5, 21, -21, -41, 343, -341, 1001)] + _TINY,
    'lgamma': [Fraction(x) for x in (1, 2, 3, 4, 10, 100, 100000)] + [Fraction(x, 2) for x in (1, 3, 5, -1, -3, -5, -21)] + _TINY
              + [1 + T(-k) for k in _NEAR1_K] + [1 - T(-k) for k in _NEAR1_K] + [2 + T(-k) for k in _NEAR1_K] + [2 - T(-k) for k in _NEAR1_K]
              + [T(30), T(100), _fl(-2.4570247382208006), _fl(-2.7476826467274127)],
}
EDGES['log2'] = EDGES['log'] + [T(-24), T(-149), T(127)]
EDGES['log10'] = EDGES['log'] + [Fraction(10 ** k) for k in (4, 5, 15, 23, 30)]
EDGES['cos'] = EDGES['sin']
EDGES['tan'] = EDGES['sin']
EDGES['acos'] = EDGES['asin']
EDGES['cosh'] = EDGES['sinh']
EDGES['tanh'] = EDGES['sinh']

_NEAR1_FUNCS = ('log', 'log2', 'log10', 'acosh', 'acos', 'asin', 'atanh', 'lgamma', 'tgamma')


def structured(fname, p):
    """Operands whose result sits extremely close to a breakpoint of a p-digit target."""
    ks = sorted({max(1, p - 1), p, p + 1, p + 2, 2 * p + 1, 3 * p + 2})
    out = []
    for k in ks:
        cands = [T(-k), -T(-k)]
        if fname in _NEAR1_FUNCS:
            cands += [1 + T(-k), 1 - T(-k), -(1 - T(-k))]
        for x in cands:
            if E.in_domain(fname, (x,)):
                out.append(x)
    return out


def unary_pool(fname):
    return [x for x in SRC if E.in_domain(fname, (x,))]


def _dn(d):
    """numeric value of an operand denotation"""
    return Fraction(0) if d in (PZERO, NZERO) else d


_G2 = src_format(2, -2, 2)
_G2PM = sorted(_G2 + [-x for x in _G2])
_X3 = src_format(3, -2, 2)


def binary_pool(fname):
    """(pool, edges) of operand pairs."""
    if fname == 'atan2':
        pool = [(y, x) for y in _G2PM for x in _G2PM]
        edges = []
        for z in _Z:
            for x in (Fraction(1), Fraction(-1), Fraction(3, 4), Fraction(-5), T(-40), -T(100)):
                edges.append((z, x))
                edges.append((x, z))
        edges += [(T(-60), Fraction(1)), (-T(-60), Fraction(3)), (Fraction(1), T(-60)), (Fraction(1), -T(-60)), (T(-60), -Fraction(1)),
                  (T(200), T(-200)), (T(-200), T(200)), (Fraction(1), Fraction(1)), (Fraction(-7), Fraction(7)), (T(500), T(500))]
        return pool, edges
    if fname == 'pow':
        pool = [(x, y) for x in _X3 for y in _G2PM]
        edges = [(Fraction(2), Fraction(10)), (Fraction(2), Fraction(-10)), (Fraction(4), Fraction(1, 2)), (Fraction(9, 4), Fraction(3, 2)),
                 (Fraction(1, 4), Fraction(-3, 2)), (Fraction(10), Fraction(-2)), (Fraction(10), Fraction(22)), (Fraction(10), Fraction(300)),
                 (Fraction(2), Fraction(-1074)), (Fraction(2), Fraction(1, 2)), (Fraction(3), Fraction(1, 2)), (Fraction(1, 2), Fraction(1024)),
                 (Fraction(3), Fraction(5)), (Fraction(3), Fraction(40)), (Fraction(5), Fraction(-3)), (Fraction(7, 4), PZERO), (Fraction(7, 4), NZERO),
                 (Fraction(1), Fraction(13, 8)), (Fraction(1), -T(70)), (Fraction(81, 16), Fraction(1, 4)), (Fraction(81, 16), Fraction(-3, 4)),
                 (1 + T(-30), T(30)), (1 - T(-30), T(30)), (1 + T(-60), Fraction(1, 2)), (T(-300), Fraction(1, 128)),
                 (Fraction(2), T(-40)), (T(100), Fraction(7, 2)), (T(-100), Fraction(7, 2)), (Fraction(10), Fraction(-1, 2)),
                 (PZERO, Fraction(3)), (NZERO, Fraction(3)), (PZERO, Fraction(1, 2)), (NZERO, Fraction(2)), (PZERO, T(-20))]
        for x in (-1, -2, -3, Fraction(-1, 2), Fraction(-3, 2)):
            for y in (-3, -2, -1, 1, 2, 3, 4, 11):
                edges.append((Fraction(x), Fraction(y)))
        return pool, edges
    raise KeyError(fname)


def structured2(fname, p):
    ks = sorted({max(1, p - 1), p, p + 1, 2 * p + 1})
    out = []
    for k in ks:
        if fname == 'atan2':
            out += [(T(-k), Fraction(1)), (-T(-k), Fraction(1)), (Fraction(1), T(k)), (Fraction(3), T(k + 1))]
        else:
            out += [(1 + T(-k), Fraction(1, 2)), (1 - T(-k), Fraction(3)), (Fraction(2), T(-k)), (Fraction(2), -T(-k)), (1 + T(-k), Fraction(-1))]
    return out


# ---------------------------------------------------------------------------
# truth: exact value or enclosures of one (function, operands) / constant

class Truth:
    __slots__ = ('name', 'dens', 'args', 'margs', 'exact', 'cache', 'is_const')

    def __init__(self, name, dens=(), is_const=False):
        self.name = name
        self.dens = tuple(dens)
        self.is_const = is_const
        self.cache = {}
        if is_const:
            self.exact = None
            self.args = ()
            self.margs = ()
        else:
            self.args = tuple(_dn(d) for d in dens)
            self.exact = E.exact_value(name, self.args)
            self.margs = None

    def enc(self, w):
        v = self.cache.get(w)
        if v is None:
            if self.is_const:
                v = E.const_enclosure(self.name, w)
            else:
                if self.margs is None:
                    self.margs = tuple(E.to_mpfr(_dn(d), neg_zero=(d == NZERO)) for d in self.dens)
                v = E.enclose(self.name, self.margs, w)
            self.cache[w] = v
        return v

    def exponent(self):
        """floor(log2 |true value|), or None for a zero result"""
        if isinstance(self.exact, Fraction):
            return None if self.exact == 0 else floor_log2(abs(self.exact))
        if self.exact == 'big':
            return None
        lo, hi = self.enc(E.LADDER[0])
        return floor_log2(min(abs(lo), abs(hi))) if lo * hi > 0 else None


class SqrtTruth:
    """sqrt of a positive rational (for the documented double-rounding reading of const_sqrt1_2)."""
    is_const = True

    def __init__(self, q):
        self.q = q
        self.cache = {}
        n, d = q.numerator, q.denominator
        rn, rd = math.isqrt(n), math.isqrt(d)
        self.exact = Fraction(rn, rd) if rn * rn == n and rd * rd == d else None

    def enc(self, w):
        if w not in self.cache:
            self.cache[w] = E._sqrt_iv(self.q, self.q, w)
        return self.cache[w]


class RatTruth:
    """f(q) for a non-dyadic rational q and a function monotone around q: q is enclosed by dyadic numbers."""
    is_const = False
    MONOTONE = tuple(f for f in E.UNARY if f not in ('sin', 'cos', 'tan', 'tgamma', 'lgamma'))

    def __init__(self, fname, q):
        self.name, self.q, self.cache, self.exact = fname, q, {}, None

    def enc(self, w):
        if w not in self.cache:
            xl, xh = _round_bits(self.q, w + 32, False), _round_bits(self.q, w + 32, True)
            a = E.enclose(self.name, (E.to_mpfr(xl),), w)
            b = E.enclose(self.name, (E.to_mpfr(xh),), w)
            self.cache[w] = (min(a[0], b[0]), max(a[1], b[1]))
        return self.cache[w]


NONDYADIC_REFUSAL_IS_FAILURE = False
NONDYADIC = (Fraction(1, 10), Fraction(1, 3), Fraction(-2, 3), Fraction(7, 5), Fraction(22, 7))


def path_of(m: Model, e_y):
    if m.kind == 'exp':
        return 'exp'
    if e_y is None:
        return 'zero'
    if m.p is None:
        return 'fixed-1pass' if e_y <= m.nmin else 'fixed-2pass'
    if m.nmin is not None and e_y < m.nmin + m.p:
        return 'float-sub'
    return 'float'


def decide_modes(truth, models):
    """models: mode -> Model (same format, differing only in rm).
    Returns (mode -> Outcome for decided modes, info dict)."""
    m0 = next(iter(models.values()))
    info = {'exact': False, 'hard': False, 'e': None, 'ref': None, 'w': 0, 'why': None}
    out = {}
    ex = truth.exact
    if ex == 'big':
        info['why'] = 'rational result too large'
        return out, info
    if isinstance(ex, Fraction):
        info['exact'] = True
        info['ref'] = ex
        info['e'] = None if ex == 0 else floor_log2(abs(ex))
        for mode, m in models.items():
            if ex == 0:
                if m.kind == 'exp':
                    o = expect(m, PZERO)
                else:
                    o = Outcome(values={PZERO, NZERO} if m.has_neg_zero else {PZERO}, inexact=False, overflow=False, why='zero')
            else:
                o = expect(m, ex)
            out[mode] = o
        return out, info
    lo0, hi0 = truth.enc(E.LADDER[0])
    if lo0 * hi0 <= 0:
        info['why'] = 'enclosure contains zero'
        return out, info
    e_y = floor_log2(min(abs(lo0), abs(hi0)))
    info['e'] = e_y
    if m0.p is None:
        pneed = max(1, e_y - m0.nmin)
    else:
        pneed = m0.p
    pending = dict(models)
    fast = m0.kind not in ('exp', 'real')
    for w in E.ladder_from(pneed):
        lo, hi = truth.enc(w)
        if lo * hi <= 0:
            continue
        if fast:
            n1 = neighbours(lo, m0.p, m0.nmin)
            n2 = neighbours(hi, m0.p, m0.nmin)
            if n1 == n2 and n1[0] != n1[1]:
                a, b = n1
                mid = (a + b) / 2
                al, ah = abs(lo), abs(hi)
                if (al < mid and ah < mid) or (al > mid and ah > mid):
                    for mode, m in pending.items():
                        o = expect(m, lo)
                        o.inexact = None
                        out[mode] = o
                    pending = {}
                    ulp = b - a
                    dist = min(al - a, abs(al - mid), b - al) / ulp
                    info['hard'] = dist <= HARD_THRESHOLD
                    info['ref'] = lo
                    info['w'] = w
                    break
        still = {}
        for mode, m in pending.items():
            if m.overflow == 'WRAP':
                # wrapping is not monotone: only a common rounding cell (fast path above) decides
                still[mode] = m
                continue
            ol, oh = expect(m, lo), expect(m, hi)
            if ol.values == oh.values and ol.raises == oh.raises and ol.overflow == oh.overflow:
                ol.inexact = None
                out[mode] = ol
            else:
                still[mode] = m
        pending = still
        info['ref'] = lo
        info['w'] = w
        if not pending:
            break
    if fast and info['ref'] is not None and not info['hard'] and out:
        lo = info['ref']
        a, b = neighbours(lo, m0.p, m0.nmin)
        if a == b:
            info['hard'] = True          # enclosure end exactly on a member: the true value is within 2^-w of it
        else:
            al = abs(lo)
            info['hard'] = min(al - a, abs(al - (a + b) / 2), b - al) / (b - a) <= HARD_THRESHOLD
    if pending:
        info['why'] = 'undecided'
    return out, info


# ---------------------------------------------------------------------------
# contexts

_CTX: dict = {}


def ctx_for(kind, cargs, kwi, mode):
    key = (kind, cargs, kwi, mode)
    v = _CTX.get(key)
    if v is None:
        kw = dict(kwi)
        kw['rm'] = mode
        v = F.build((kind, cargs, kw))
        if len(_CTX) > 30000:
            _CTX.clear()
        _CTX[key] = v
    return v


def fmt(kind, *cargs, **kw):
    return (kind, tuple(cargs), tuple(sorted(kw.items())))


def label_of(f, mode):
    kind, cargs, kwi = f
    kw = {k: (show(v) if isinstance(v, Fraction) else v) for k, v in kwi}
    kw['rm'] = mode
    return [kind, [show(a) if isinstance(a, Fraction) else a for a in cargs], kw]


_EXC = (ValueError, OverflowError, TypeError, ZeroDivisionError, ArithmeticError, AssertionError,
        RuntimeError, NotImplementedError, AttributeError, KeyError, IndexError)


def operand_obj(d, carrier='Float'):
    if carrier == 'Float':
        return to_float_obj(d)
    if carrier == 'Float*8':
        # redundant encoding of the same value (zeros: a zero with a non-zero exponent)
        x = to_float_obj(d)
        return Float(s=x.s, c=x.c << 3, exp=x.exp - 3)
    q = _dn(d)
    if carrier == 'int':
        return int(q)
    if carrier == 'float':
        return -0.0 if d == NZERO else float(q)
    if carrier == 'Fraction':
        return Fraction(q)
    raise ValueError(carrier)


def make_invoke(ident):
    if 'const' in ident:
        fn = getattr(fp.ops, E.CONST_OPS[ident['const']])
        return lambda ctx: fn(ctx=ctx)
    fn = getattr(fp.ops, ident['fn'])
    objs = tuple(operand_obj(d, ident.get('carrier', 'Float')) for d in ident['_dens'])
    return lambda ctx: fn(*objs, ctx=ctx)


def ident_fn(fname, dens, carrier='Float'):
    return {'fn': fname, 'args': [show(d) for d in dens], 'carrier': carrier, '_dens': tuple(dens)}


def _public(ident):
    return {k: v for k, v in ident.items() if not k.startswith('_')}


def check_group(res: Result, f, truth, ident, classes=(), modes=MODES, alt=None):
    """One (function, operands | constant) under one format, all rounding modes.
    `alt(model) -> Outcome | None`: an additional accepted reading (documented double rounding of three constants)."""
    kind, cargs, kwi = f
    ctxs, models = {}, {}
    for mode in modes:
        try:
            c, m = ctx_for(kind, cargs, kwi, mode)
        except (ValueError, TypeError):
            res.skip('constructor rejected')
            continue
        ctxs[mode], models[mode] = c, m
    if not models:
        return
    dec, info = decide_modes(truth, models)
    invoke = make_invoke(ident)
    is_const = 'const' in ident
    idkey = (ident.get('const') or ident['fn'], tuple(ident.get('args', ())), ident.get('carrier'))
    for mode, m in models.items():
        o = dec.get(mode)
        if o is None:
            res.skip(info['why'] or 'undecided')
            res.cls('undecided')
            continue
        res.case()
        path = path_of(m, info['e'])
        res.cls('path:' + path)
        for c in classes:
            res.cls(c)
        accepted = set(o.values)
        if alt is not None:
            a = alt(m)
            if a is not None and not a.raises:
                if a.values != o.values:
                    res.count('const-readings-differ')
                accepted |= a.values
        exact_repr = info['exact'] and o.inexact is False
        nt = info['hard'] or info['exact']
        if info['hard']:
            res.cls('hard')
        if info['exact']:
            res.cls('exact')
            if exact_repr:
                res.cls('exact-representable')
        if o.overflow:
            res.cls('overflow')
        if accepted & {PZERO, NZERO} and not (info['exact'] and info['e'] is None):
            res.cls('rounds-to-zero')
        case = dict(_public(ident), ctx=label_of(f, mode))
        if nt:
            res.nontrivial((idkey, f, mode))
            if res.evaluations % 4999 == 1:
                res.sample(dict(case, hard=info['hard'], exact=info['exact'], w=info['w']), nt=True)
        elif res.evaluations % 4999 == 2:
            res.sample(case)
        # ---- implementation
        try:
            r = invoke(ctxs[mode])
            exc = None
        except _EXC as e:
            r, exc = None, type(e).__name__
        why = None
        got = None
        near = ''
        if exc is not None:
            got = f'raised {exc}'
            if exc not in o.raises:
                why = f'raised {exc}'
        elif not isinstance(r, Float):
            why, got = 'not a Float', repr(r)
        else:
            gd = den(r)
            got = {'value': show(gd), 'inexact': r.inexact}
            if not accepted:
                why = f'returned instead of raising {sorted(o.raises)}'
            elif gd not in accepted:
                why = 'wrong value'
                ref = info['ref']
                if isinstance(gd, Fraction) and isinstance(ref, Fraction) and ref != 0 and m.kind != 'exp':
                    a, b = neighbours(ref, m.p, m.nmin)
                    near = '/other-neighbour' if abs(gd) in (a, b) and (gd < 0) == (ref < 0) else '/far'
                elif gd in (PZERO, NZERO):
                    near = '/zero'
            elif exact_repr and r.inexact is not False:
                why = 'inexact flag set on exact result'
            elif not member(m, gd):
                why = 'result not a member'
            if why is None and not info['exact'] and r.inexact is False and gd != NAN:
                res.count('inexact-clear-on-irrational')
        if why is not None:
            if is_const and ident['const'] in COMPOSED:
                bucket = 'composed-constant' + ('' if why == 'wrong value' else '/' + why)
            else:
                bucket = f'{"constant" if is_const else "fn"}/{path}/{why}{near}'
            res.count('fail:' + (ident.get('const') or ident['fn']))
            res.fail(bucket, case, expected={'values': sorted(show(v) for v in accepted), 'raises': sorted(o.raises),
                                             'inexact': False if exact_repr else None,
                                             'enclosure_lo': show(info['ref']) if isinstance(info['ref'], Fraction) and
                                             info['ref'].denominator.bit_length() < 400 else 'see replay'},
                     got=got)


# ---------------------------------------------------------------------------
# layer: functions x MPFloat

def mp_precisions(tier):
    if tier == 'thorough':
        return list(range(1, 97)) + list(BIG_P) + [500, 800]
    return list(range(1, 65)) + list(BIG_P)


def fn_operands(fname, p, tier, salt=0):
    """Operand tuples (denotations) used for function fname at target digit count p."""
    stride = 1 if tier == 'thorough' else 6
    if fname in UN:
        pool = unary_pool(fname)
        sel = [(x,) for i, x in enumerate(pool) if (i + 3 * p + salt) % stride == 0]
        sel += [(x,) for x in EDGES[fname] if E.in_domain(fname, (_dn(x),))]
        sel += [(x,) for x in structured(fname, p)]
    else:
        pool, edges = binary_pool(fname)
        sel = [a for i, a in enumerate(pool) if (i + 3 * p + salt) % stride == 0]
        sel += [a for a in edges if E.in_domain(fname, tuple(_dn(d) for d in a))]
        sel += [a for a in structured2(fname, p) if E.in_domain(fname, a)]
    seen, out = set(), []
    for a in sel:
        if a not in seen:
            seen.add(a)
            out.append(a)
    return out


def run_fn(res, fname, plist, tier):
    truths = {}
    for p in plist:
        f = fmt('mp', p)
        for dens in fn_operands(fname, p, tier):
            t = truths.get(dens)
            if t is None:
                t = truths[dens] = Truth(fname, dens)
            check_group(res, f, t, ident_fn(fname, dens), classes=('layer:fn',))
        if len(truths) > 3000:
            truths.clear()


# ---------------------------------------------------------------------------
# layer: subnormal results (MPS with emin relative to the result; IEEE with steered operands)

IEEE_FORMATS = ((5, 16), (8, 16), (4, 8), (8, 32), (11, 64), (15, 128))


def steer(fname, t):
    """Operand tuples for which |f(x)| is roughly 2^t (t may be very negative or large)."""
    c3 = (Fraction(5, 4), Fraction(3, 2), Fraction(7, 4), Fraction(1))
    LN2 = Fraction(6243314768165359, 9007199254740992)
    out = []
    if fname == 'exp':
        for c in c3:
            x = (t + c - 1) * LN2
            out.append((Fraction(round(x * 64), 64),))
    elif fname == 'exp2':
        out += [(Fraction(t),), (Fraction(t) + Fraction(1, 2),), (Fraction(t) + Fraction(3, 8),)]
    elif fname == 'exp10':
        L = Fraction(1233, 4096)   # ~log10(2)
        out += [(Fraction(round((t + j) * L * 32), 32),) for j in (0, Fraction(1, 2))]
    elif fname in ('expm1', 'sin', 'tan', 'asin', 'atan', 'sinh', 'tanh', 'asinh', 'atanh', 'erf', 'log1p'):
        if t < -2:
            out += [(c * T(t),) for c in c3[:3]] + [(-c3[0] * T(t),)]
        elif fname in ('expm1', 'sinh') and t > 3:
            out += [(Fraction(round(t * LN2 * 16), 16),)]
    elif fname in ('log', 'log2', 'log10'):
        if -3000 < t < -2:
            out += [(1 + T(t),), (1 - T(t),), (1 + 3 * T(t - 1),)]
    elif fname == 'acos':
        if -1500 < t < -2:
            out += [(1 - T(2 * t - 1),), (1 - 3 * T(2 * t - 2),)]
    elif fname == 'acosh':
        if -1500 < t < -2:
            out += [(1 + T(2 * t - 1),), (1 + 3 * T(2 * t - 2),)]
    elif fname == 'erfc':
        if t < -4:
            x = math.sqrt(-t * 0.6931471805599453)
            out += [(Fraction(round(x * 16), 16),), (Fraction(round(x * 16) + 1, 16),)]
    elif fname == 'cosh':
        if t > 3:
            out += [(Fraction(round(t * LN2 * 16), 16),)]
    elif fname == 'lgamma':
        if -3000 < t < -2:
            out += [(1 + T(t),), (2 - T(t),)]
    elif fname == 'tgamma':
        if t > 3:
            # gamma(x) ~ 2^t: crude inverse by search on the oracle side
            x = 3.0
            while math.lgamma(x) / math.log(2) < t and x < 1e6:
                x *= 1.02
            out += [(Fraction(round(x * 4), 4),)]
        elif t < -8:
            x = 3.0
            while math.lgamma(x) / math.log(2) < -t and x < 1e6:
                x *= 1.02
            out += [(-(Fraction(round(x)) + Fraction(1, 2)),)]
    elif fname == 'pow':
        out += [(Fraction(2), Fraction(t) + Fraction(1, 2)), (Fraction(3), Fraction(round(t / 1.584962500721156 * 8), 8)),
                (T(t), Fraction(3, 4) if t < 0 else Fraction(5, 4)), (Fraction(2), Fraction(t))]
    elif fname == 'atan2':
        if t < -2:
            out += [(T(t) * 3, Fraction(2)), (-T(t), Fraction(5)), (T(t), Fraction(-3))]
    return out


def sub_operands(fname, tier, salt):
    stride = 4 if tier == 'thorough' else 12
    if fname in UN:
        pool = unary_pool(fname)
        sel = [(x,) for i, x in enumerate(pool) if (i + salt) % stride == 0]
        sel += [(x,) for i, x in enumerate(EDGES[fname]) if E.in_domain(fname, (_dn(x),)) and (tier == 'thorough' or (i + salt) % 2 == 0)]
    else:
        pool, edges = binary_pool(fname)
        sel = [a for i, a in enumerate(pool) if (i + salt) % (stride * 2) == 0]
        sel += [a for i, a in enumerate(edges) if E.in_domain(fname, tuple(_dn(d) for d in a)) and (tier == 'thorough' or (i + salt) % 2 == 0)]
    return sel


def run_sub(res, fname, tier):
    Tt = tier == 'thorough'
    ps = (1, 2, 3, 4, 5, 8, 11, 24, 53, 113) if Tt else (1, 2, 3, 5, 8, 24, 53)
    for pi, p in enumerate(ps):
        for dens in sub_operands(fname, tier, pi):
            t = Truth(fname, dens)
            e = t.exponent()
            if e is None:
                check_group(res, fmt('mps', p, 0), t, ident_fn(fname, dens), classes=('layer:sub',))
                continue
            for j in sorted({1, 2, p - 1, p, p + 1, p + 3} - {0, -1}):
                if j < 1:
                    continue
                check_group(res, fmt('mps', p, e + j), t, ident_fn(fname, dens), classes=('layer:sub',))
    # IEEE formats, operands steered below emin and beyond the largest value
    for es, nbits in (IEEE_FORMATS if Tt else IEEE_FORMATS[:5]):
        p = nbits - es
        emax = (1 << (es - 1)) - 1
        emin = 1 - emax
        targets = [emin + 1, emin, emin - 1, emin - 2, emin - p // 2, emin - p + 2, emin - p + 1, emin - p, emin - p - 1, emin - p - 3,
                   emax - 1, emax, emax + 1, emax + 3]
        for ov in ('OVERFLOW', 'SATURATE') if Tt else ('OVERFLOW',):
            f = fmt('ieee', es, nbits, overflow=ov)
            for tg in targets:
                for dens in steer(fname, tg):
                    if not E.in_domain(fname, tuple(_dn(d) for d in dens)):
                        continue
                    t = Truth(fname, dens)
                    check_group(res, f, t, ident_fn(fname, dens), classes=('layer:ieee',))


# ---------------------------------------------------------------------------
# layer: fixed-point targets

FIX_D = (-3, -1, 0, 1, 2, 3, 4, 5, 8, 13, 24, 53, 64, 113, 237, 400)


def run_fix(res, fname, tier):
    Tt = tier == 'thorough'
    ds = FIX_D
    for salt in range(3 if Tt else 1):
        for dens in sub_operands(fname, tier, salt + 5):
            t = Truth(fname, dens)
            e = t.exponent()
            if e is None:
                for n in (-1, 3, -40):
                    check_group(res, fmt('mpfixed', n), t, ident_fn(fname, dens), classes=('layer:fix',))
                continue
            for d in ds:
                check_group(res, fmt('mpfixed', e - d), t, ident_fn(fname, dens), classes=('layer:fix',))
    # p-dependent operands against the matching digit count
    for d in (1, 2, 3, 8, 24, 53):
        ops = [(x,) for x in structured(fname, d)] if fname in UN else [a for a in structured2(fname, d) if E.in_domain(fname, a)]
        for dens in ops:
            t = Truth(fname, dens)
            e = t.exponent()
            if e is None:
                continue
            check_group(res, fmt('mpfixed', e - d), t, ident_fn(fname, dens), classes=('layer:fix',))
    # steered magnitudes against absolute positions (large and tiny results under the same grid)
    for n in (-1, -11, -60):
        for tg in (n - 40, n - 2, n - 1, n, n + 1, n + 2, n + 12, n + 64, n + 300):
            for dens in steer(fname, tg)[:2]:
                if not E.in_domain(fname, tuple(_dn(d) for d in dens)):
                    continue
                t = Truth(fname, dens)
                check_group(res, fmt('mpfixed', n), t, ident_fn(fname, dens), classes=('layer:fix',))


# ---------------------------------------------------------------------------
# layer: constants

def const_alt(name, truths):
    """Documented reading of pi_2, pi_4, sqrt1_2: the operand of the final operation is itself rounded."""
    if name not in DOC_TWICE:
        return None

    def alt(m: Model):
        if m.kind in ('mp', 'exp', 'real'):
            return None          # scaling by a power of two commutes with unbounded binary floating-point rounding
        if name in ('pi_2', 'pi_4'):
            d, _ = decide_modes(truths['pi'], {m.rm: m})
            oi = d.get(m.rm)
        else:
            oi = expect(m, Fraction(1, 2))
        if oi is None or oi.raises or len(oi.values) != 1:
            return None
        v = next(iter(oi.values))
        if v in (PZERO, NZERO):
            return Outcome(values={v})
        if not isinstance(v, Fraction):
            return None
        if name == 'pi_2':
            return expect(m, v / 2)
        if name == 'pi_4':
            return expect(m, v / 4)
        st = SqrtTruth(v)
        d, _ = decide_modes(st, {m.rm: m})
        return d.get(m.rm)
    return alt


def const_formats(part, tier):
    Tt = tier == 'thorough'
    if part == 'mp':
        return [fmt('mp', p) for p in range(1, 401)]
    if part == 'fixed':
        return [fmt('mpfixed', n) for n in range(3, -421, -1)]
    out = []
    for p in (1, 2, 3, 5, 8, 11, 24, 53):
        for emin in (-6, -3, -2, -1, 0, 1, 2, 3, 5):
            out.append(fmt('mps', p, emin))
    for es, nbits in IEEE_FORMATS + ((2, 4), (3, 6), (2, 6), (3, 8)):
        for ov in ('OVERFLOW', 'SATURATE'):
            out.append(fmt('ieee', es, nbits, overflow=ov))
    for p, emin, mv in ((3, -2, Fraction(7, 2)), (4, -6, Fraction(15)), (2, -1, Fraction(3, 2)), (8, -20, Fraction(255, 128))):
        for ov in ('OVERFLOW', 'SATURATE'):
            out.append(fmt('mpb', p, emin, mv, overflow=ov))
    for signed in (False, True):
        for scale in (-14, -6, -3, -1, 0, 1):
            for nbits in (4, 8, 10):
                for ov in ('SATURATE', 'WRAP', 'OVERFLOW'):
                    out.append(fmt('fixed', signed, scale, nbits, overflow=ov))
    for scale in (-6, -2, 0):
        out.append(fmt('smfixed', scale, 8, overflow='SATURATE'))
    for nmin, mv in ((-4, Fraction(3)), (-9, Fraction(1, 2)), (-1, Fraction(100)), (-30, Fraction(4))):
        for ov in ('SATURATE', 'WRAP', 'OVERFLOW'):
            out.append(fmt('mpbfixed', nmin, mv, overflow=ov))
    for nbits, eo in ((4, 0), (3, -2), (5, 3)):
        out.append(fmt('exp', nbits, eo, overflow='SATURATE'))
    for es, nbits, inf, nk, eo in ((4, 8, False, 1, 0), (2, 6, False, 3, 0), (5, 8, True, 2, -1), (3, 8, True, 0, 0)):
        out.append(fmt('efloat', es, nbits, inf, nk, eo, overflow='SATURATE'))
    return out


def run_const(res, name, part, tier):
    truths = {name: Truth(name, is_const=True), 'pi': Truth('pi', is_const=True)}
    alt = const_alt(name, truths)
    ident = {'const': name}
    for f in const_formats(part, tier):
        check_group(res, f, truths[name], ident, classes=('const', 'const:' + part), alt=alt)


# ---------------------------------------------------------------------------
# layer: other context families and operand carriers

def misc_formats():
    out = []
    for p, emin, mv in ((3, -2, Fraction(7, 2)), (4, -6, Fraction(15)), (5, -8, Fraction(31, 4)), (2, -3, Fraction(96))):
        for ov in ('OVERFLOW', 'SATURATE'):
            out.append(fmt('mpb', p, emin, mv, overflow=ov))
    for es, nbits, inf, nk, eo in ((4, 8, False, 1, 0), (2, 6, False, 3, 0), (5, 8, True, 2, -1), (3, 8, True, 0, 0), (2, 4, False, 3, 0)):
        for ov in ('OVERFLOW', 'SATURATE'):
            out.append(fmt('efloat', es, nbits, inf, nk, eo, overflow=ov))
    for signed, scale, nbits in ((True, -6, 8), (False, -4, 8), (True, 0, 8), (True, -8, 10), (False, 0, 4)):
        for ov in ('SATURATE', 'WRAP'):
            out.append(fmt('fixed', signed, scale, nbits, overflow=ov))
    out.append(fmt('smfixed', -4, 8, overflow='SATURATE'))
    out.append(fmt('mpbfixed', -5, Fraction(6), overflow='SATURATE'))
    out.append(fmt('mpbfixed', -12, Fraction(100), overflow='WRAP'))
    out.append(fmt('exp', 5, 0, overflow='SATURATE'))
    out.append(fmt('exp', 4, -3, overflow='OVERFLOW'))
    return out


def run_misc(res, fname, tier):
    ops = sub_operands(fname, tier, 9)
    for f in misc_formats():
        for dens in ops[::2] if tier != 'thorough' else ops:
            t = Truth(fname, dens)
            check_group(res, f, t, ident_fn(fname, dens), classes=('layer:misc',))
    # non-dyadic rational operands (decimal literals are exact rationals in FPy): at present refused with NotImplementedError
    if fname in UN:
        for q in NONDYADIC:
            if not E.in_domain(fname, (q,)):
                continue
            for f in (fmt('mp', 11), fmt('ieee', 11, 64, overflow='OVERFLOW'), fmt('mpfixed', -20)):
                ctx, m = ctx_for(*f, 'RNE')
                try:
                    r = getattr(fp.ops, fname)(q, ctx=ctx)
                except NotImplementedError:
                    res.count('nondyadic-operand-refused')
                    if NONDYADIC_REFUSAL_IS_FAILURE:
                        res.case()
                        res.fail('fn/non-dyadic-operand/raised NotImplementedError',
                                 {'fn': fname, 'args': [show(q)], 'carrier': 'Fraction', 'ctx': label_of(f, 'RNE')},
                                 expected='a rounded result', got='raised NotImplementedError')
                    continue
                res.count('nondyadic-operand-accepted')
                if fname in RatTruth.MONOTONE:
                    d, info = decide_modes(RatTruth(fname, q), {'RNE': m})
                    o = d.get('RNE')
                    if o is None:
                        res.skip('undecided')
                        continue
                    res.case()
                    res.cls('nondyadic')
                    gd = den(r) if isinstance(r, Float) else repr(r)
                    if gd not in o.values:
                        res.fail('fn/non-dyadic-operand/wrong value',
                                 {'fn': fname, 'args': [show(q)], 'carrier': 'Fraction', 'ctx': label_of(f, 'RNE')},
                                 expected={'values': sorted(show(v) for v in o.values)}, got=show(gd))
    if fname == 'pow':
        for q in NONDYADIC:
            for y in (Fraction(2), Fraction(-1), Fraction(3), Fraction(1, 2), Fraction(-3, 4)):
                if not E.in_domain('pow', (q, y)):
                    continue
                for f in (fmt('mp', 11), fmt('ieee', 11, 64, overflow='OVERFLOW'), fmt('mpfixed', -20)):
                    ctx, m = ctx_for(*f, 'RNE')
                    try:
                        r = fp.ops.pow(q, y, ctx=ctx)
                    except NotImplementedError:
                        res.count('nondyadic-operand-refused')
                        continue
                    res.count('nondyadic-operand-accepted')
                    if y.denominator != 1:
                        res.skip('non-dyadic pow with fractional exponent accepted: no oracle')
                        continue
                    o = expect(m, q ** int(y))
                    res.case()
                    res.cls('nondyadic')
                    gd = den(r) if isinstance(r, Float) else repr(r)
                    if gd not in o.values or (o.inexact is False and r.inexact is not False):
                        res.fail('fn/non-dyadic-operand/wrong value',
                                 {'fn': 'pow', 'args': [show(q), show(y)], 'carrier': 'Fraction', 'ctx': label_of(f, 'RNE')},
                                 expected={'values': sorted(show(v) for v in o.values), 'inexact': o.inexact}, got=show(gd))
    if fname == 'atan2':
        for q in NONDYADIC:
            ctx, m = ctx_for(*fmt('mp', 11), 'RNE')
            try:
                fp.ops.atan2(q, Fraction(1), ctx=ctx)
                res.skip('non-dyadic atan2 accepted: no oracle')
            except NotImplementedError:
                res.count('nondyadic-operand-refused')
    # carriers: the same operands given as int / float / dyadic Fraction
    for dens in ops:
        qs = [_dn(d) for d in dens]
        for carrier in ('int', 'float', 'Fraction', 'Float*8'):
            if carrier == 'int' and not all(q.denominator == 1 for q in qs):
                continue
            if carrier == 'float':
                try:
                    if not all(Fraction(float(q)) == q for q in qs):
                        continue
                except OverflowError:
                    continue
            if carrier in ('int', 'Fraction') and NZERO in dens:
                continue
            t = Truth(fname, dens)
            for f in (fmt('mp', 7), fmt('ieee', 5, 16, overflow='OVERFLOW'), fmt('mpfixed', -9)):
                check_group(res, f, t, ident_fn(fname, dens, carrier), classes=('layer:carrier',), modes=('RNE', 'RTP', 'RTZ', 'RTO'))


# ---------------------------------------------------------------------------
# layer: Hypothesis hard-case search

# (lo, hi) of log2|x| ranges and sign choices from which start points are drawn, per function
_HYP_RANGE = {
    'exp': (-6, 6, True), 'exp2': (-6, 8, True), 'exp10': (-6, 5, True), 'expm1': (-8, 5, True),
    'log': (-12, 12, False), 'log2': (-12, 12, False), 'log10': (-12, 12, False), 'log1p': (-8, 8, False),
    'sin': (-8, 6, True), 'cos': (-6, 6, True), 'tan': (-8, 6, True), 'asin': (-8, 0, True), 'acos': (-8, 0, True),
    'atan': (-8, 8, True), 'sinh': (-8, 5, True), 'cosh': (-6, 5, True), 'tanh': (-8, 3, True), 'asinh': (-8, 10, True),
    'acosh': (0, 10, False), 'atanh': (-8, 0, True), 'erf': (-8, 2, True), 'erfc': (-6, 3, True),
    'tgamma': (-4, 5, True), 'lgamma': (-4, 8, True), 'atan2': (-6, 6, True), 'pow': (-4, 4, False),
}


def _round_bits(q: Fraction, bits: int, up: bool) -> Fraction:
    """q (non-zero) to `bits` significant bits, toward -inf (up=False) or +inf (up=True)."""
    e = floor_log2(abs(q))
    ulp = pow2(e - bits + 1)
    k = q / ulp
    f = k.numerator // k.denominator
    if up and f != k:
        f += 1
    return f * ulp


def _feval(fname, args, w):
    """Approximate f(args) as a Fraction (lower enclosure end at precision w); None outside the domain."""
    if not E.in_domain(fname, args):
        return None
    if isinstance(E.exact_value(fname, args), Fraction):
        return None
    try:
        return E.enclose(fname, tuple(E.to_mpfr(a) for a in args), w)[0]
    except E.DomainError:
        return None


def nearest_breakpoint(y: Fraction, p, nmin, want_mid):
    a, b = neighbours(y, p, nmin)
    if a == b:
        return y
    s = -1 if y < 0 else 1
    if want_mid:
        return s * (a + b) / 2
    ay = abs(y)
    return s * (a if ay - a <= b - ay else b)


def hard_candidates(fname, fixed_args, vary_idx, x0: Fraction, p, nmin_of, bits, want_mid):
    """Drives operand `vary_idx` from x0 toward a point where f hits a breakpoint of the grid (p, nmin);
    returns candidate operand tuples with `bits` significant bits, best (closest to a breakpoint) first.
    nmin_of(e) gives the least position of the target grid once the result exponent e is known."""
    w = max(192, 2 * bits + 96)

    def full(x):
        a = list(fixed_args)
        a.insert(vary_idx, x)
        return tuple(a)

    y0 = _feval(fname, full(x0), w)
    if y0 is None or y0 == 0:
        return [], None
    nmin = nmin_of(floor_log2(abs(y0)))
    b = nearest_breakpoint(y0, p, nmin, want_mid)
    if b == 0:
        return [], nmin
    x = x0
    h = pow2(-(bits + 24))
    cands = {x0}
    for _ in range(4):
        y = _feval(fname, full(x), w)
        if y is None:
            break
        dx = x * h
        y2 = _feval(fname, full(x + dx), w)
        if y2 is None or y2 == y:
            break
        slope = (y2 - y) / dx
        step = (y - b) / slope
        if abs(step) > abs(x) / 2:
            step = step / (4 * abs(step) / abs(x))      # damp: stay in the neighbourhood / domain
        xn = x - step
        if xn == 0 or not E.in_domain(fname, full(xn)):
            break
        # keep the iterate at a manageable size
        x = _round_bits(xn, w, False)
        for up in (False, True):
            c = _round_bits(x, bits, up)
            if c != 0 and E.in_domain(fname, full(c)):
                cands.add(c)
    scored = []
    for c in cands:
        y = _feval(fname, full(c), w)
        if y is None or y == 0:
            continue
        n2 = nmin_of(floor_log2(abs(y))) if p is not None else nmin
        a, bb = neighbours(y, p, n2 if p is not None else nmin)
        if a == bb:
            dist = Fraction(0)
        else:
            ay = abs(y)
            dist = min(ay - a, abs(ay - (a + bb) / 2), bb - ay) / (bb - a)
        scored.append((dist, c))
    scored.sort(key=lambda t: (t[0], t[1]))
    return [full(c) for _, c in scored[:2]], nmin


def run_hyp(res, idx, tier, seed):
    import hypothesis
    from hypothesis import HealthCheck, Phase, given, settings
    from hypothesis import strategies as st

    Tt = tier == 'thorough'
    n_examples = 400 if Tt else 110
    FN = E.FUNCTIONS

    @st.composite
    def hard_case(draw):
        fname = draw(st.sampled_from(FN))
        kind = draw(st.sampled_from(['mp', 'mp', 'mp', 'mps', 'mpfixed', 'mpfixed']))
        if draw(st.integers(0, 9)) < 8:
            p = draw(st.integers(1, 64))
        else:
            p = draw(st.sampled_from(BIG_P))
        want_mid = draw(st.booleans())
        sig = draw(st.integers(0, (1 << 64) - 1))
        e_sel = draw(st.integers(0, 1 << 16))
        neg = draw(st.booleans())
        j = draw(st.integers(0, 6))
        aux = draw(st.integers(0, 1 << 16))
        return fname, kind, p, want_mid, sig, e_sel, neg, j, aux

    @hypothesis.seed(h64(seed, idx, 'C03') % (1 << 32))
    @settings(max_examples=n_examples, deadline=None, database=None, derandomize=False,
              report_multiple_bugs=False, phases=[Phase.generate], suppress_health_check=list(HealthCheck))
    @given(hard_case())
    def prop(case):
        fname, kind, p, want_mid, sig, e_sel, neg, j, aux = case
        elo, ehi, signed = _HYP_RANGE[fname]
        bits = p + 20
        c = (sig % (1 << (bits - 1))) | (1 << (bits - 1))
        e = elo + e_sel % (ehi - elo + 1)
        x0 = Fraction(c) * pow2(e - bits + 1)
        if neg and signed:
            x0 = -x0
        if fname == 'atan2':
            other = _G2PM[aux % len(_G2PM)]
            fixed, vary = (other,), 0            # vary y, fixed x
        elif fname == 'pow':
            yv = _G2PM[aux % len(_G2PM)] * (3 if aux & 64 else 1)
            fixed, vary = (yv,), 0               # vary x > 0, fixed y
        else:
            fixed, vary = (), 0
        full0 = list(fixed)
        full0.insert(vary, x0)
        if not E.in_domain(fname, tuple(full0)):
            res.skip('hyp start outside domain')
            return
        if kind == 'mp':
            pp, nmin_of = p, (lambda e_y: None)
            mk = lambda e_y: fmt('mp', p)
        elif kind == 'mps':
            jj = (1, 2, max(1, p // 2), max(1, p - 1), p, p + 1, p + 2)[j]
            pp, nmin_of = p, (lambda e_y: e_y + jj - p)
            mk = lambda e_y: fmt('mps', p, e_y + jj)
        else:
            pp, nmin_of = None, (lambda e_y: e_y - p)
            mk = lambda e_y: fmt('mpfixed', e_y - p)
        cands, _ = hard_candidates(fname, fixed, vary, x0, pp, nmin_of, bits, want_mid)
        if not cands:
            res.skip('hyp no candidate')
            return
        for args in cands:
            t = Truth(fname, args)
            e_y = t.exponent()
            if e_y is None:
                continue
            check_group(res, mk(e_y), t, ident_fn(fname, args), classes=('hyp', 'hyp:' + kind))

    prop()


# ---------------------------------------------------------------------------
# shards

def shards(tier, seed):
    out = []
    plist = mp_precisions(tier)
    chunk = 6
    for fname in E.FUNCTIONS:
        for i in range(0, len(plist), chunk):
            out.append(('fn', fname, tuple(plist[i:i + chunk]), tier))
    for fname in E.FUNCTIONS:
        out.append(('sub', fname, tier))
        out.append(('fix', fname, tier))
        out.append(('misc', fname, tier))
    for name in E.CONSTANTS:
        for part in ('mp', 'fixed', 'other'):
            out.append(('const', name, part, tier))
    nh = 96 if tier == 'thorough' else 48
    out += [('hyp', i, tier, seed) for i in range(nh)]
    # heavy shards first
    order = {'fn': 1, 'const': 0, 'hyp': 2, 'sub': 3, 'fix': 4, 'misc': 5}
    out.sort(key=lambda s: order[s[0]])
    return out


def run_shard(shard):
    res = Result()
    k = shard[0]
    if k == 'fn':
        run_fn(res, shard[1], shard[2], shard[3])
    elif k == 'sub':
        run_sub(res, shard[1], shard[2])
    elif k == 'fix':
        run_fix(res, shard[1], shard[2])
    elif k == 'misc':
        run_misc(res, shard[1], shard[2])
    elif k == 'const':
        run_const(res, shard[1], shard[2], shard[3])
    elif k == 'hyp':
        run_hyp(res, shard[1], shard[2], shard[3])
    else:
        raise ValueError(shard)
    return res


# ---------------------------------------------------------------------------

def selftest():
    E.selftest()
    # the function list is the list offered by fpy2.ops
    for f in E.FUNCTIONS:
        assert callable(getattr(fp.ops, f)), f
    offered = sorted(n for n in fp.ops.__all__ if n.startswith('const_'))
    assert offered == sorted(E.CONST_OPS.values()), (offered, sorted(E.CONST_OPS.values()))
    # decision procedure on cases with a known answer
    _, m = F.build(('mp', (24,), {'rm': 'RNE'}))
    d, info = decide_modes(Truth('pi', is_const=True), {'RNE': m})
    assert d['RNE'].values == {Fraction(13176795, 4194304)}, d['RNE'].values       # float32 pi
    _, m = F.build(('ieee', (11, 64), {'rm': 'RNE'}))
    d, info = decide_modes(Truth('exp', (Fraction(1),)), {'RNE': m})
    assert d['RNE'].values == {Fraction(2.718281828459045)}, d
    d, info = decide_modes(Truth('exp', (PZERO,)), {'RNE': m})
    assert d['RNE'].values == {Fraction(1)} and d['RNE'].inexact is False and info['exact']
    d, info = decide_modes(Truth('pow', (Fraction(2), Fraction(10))), {'RNE': m})
    assert d['RNE'].values == {Fraction(1024)} and d['RNE'].inexact is False
    # exp(2^-200) under p=10: just above 1: RTP must go up, RNE stay; only decidable above 200 bits
    ms = {mode: F.build(('mp', (10,), {'rm': mode}))[1] for mode in ('RNE', 'RTP', 'RTZ')}
    d, info = decide_modes(Truth('exp', (T(-200),)), ms)
    assert d['RNE'].values == {Fraction(1)} and d['RTZ'].values == {Fraction(1)} and d['RTP'].values == {1 + T(-9)}, d
    assert info['hard'] and info['w'] >= 256
    # const_pi_2 under MPFloat(2, RTP) is 2 (pi/2 = 1.5707...)
    _, m = F.build(('mp', (2,), {'rm': 'RTP'}))
    d, _ = decide_modes(Truth('pi_2', is_const=True), {'RTP': m})
    assert d['RTP'].values == {Fraction(2)}


def _unshow(v):
    if isinstance(v, str):
        if v in (NAN, PINF, NINF, PZERO, NZERO):
            return v
        try:
            return Fraction(v)
        except ValueError:
            return v
    return v


def replay(case):
    """Re-runs one saved case (plain data) against the tree."""
    res = Result()
    kind, cargs, kw = case['ctx']
    kw = dict(kw)
    mode = kw.pop('rm')
    cargs = tuple(_unshow(a) if isinstance(a, str) else a for a in cargs)
    kw = {k: (_unshow(v) if isinstance(v, str) and k not in ('overflow',) else v) for k, v in kw.items()}
    f = (kind, cargs, tuple(sorted(kw.items())))
    if 'const' in case:
        name = case['const']
        truths = {name: Truth(name, is_const=True), 'pi': Truth('pi', is_const=True)}
        check_group(res, f, truths[name], {'const': name}, modes=(mode,), alt=const_alt(name, truths))
    else:
        dens = tuple(_unshow(a) for a in case['args'])
        carrier = case.get('carrier', 'Float')
        if len(dens) == 1 and isinstance(dens[0], Fraction) and not E.is_dyadic(dens[0]):
            ctx, m = ctx_for(*f, mode)
            try:
                r = getattr(fp.ops, case['fn'])(dens[0], ctx=ctx)
            except NotImplementedError:
                if NONDYADIC_REFUSAL_IS_FAILURE:
                    res.fail('fn/non-dyadic-operand/raised NotImplementedError', case, 'a rounded result', 'raised NotImplementedError')
                return [x for fl in res.failures.values() for x in fl]
            if case['fn'] in RatTruth.MONOTONE:
                d, _ = decide_modes(RatTruth(case['fn'], dens[0]), {mode: m})
                o = d.get(mode)
                if o is not None and (den(r) if isinstance(r, Float) else None) not in o.values:
                    res.fail('fn/non-dyadic-operand/wrong value', case, sorted(show(v) for v in o.values), repr(r))
            return [x for fl in res.failures.values() for x in fl]
        tdens = tuple(PZERO if (d == NZERO and carrier in ('int', 'Fraction')) else d for d in dens)
        check_group(res, f, Truth(case['fn'], tdens), ident_fn(case['fn'], dens, carrier), modes=(mode,))
    return [x for fl in res.failures.values() for x in fl]
