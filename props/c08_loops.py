"""
C08 — Loop and iterator restructuring preserves results.

    f(*args, ctx=c)   versus   T(f)(*args, ctx=c)          (vlib.difftest, vlib.denote.deep_den equality)

for T in  unroll_for(times 1..4, PEEL | STRICT, where, custom temporaries),  unroll_while(times 1..3, where),
split(factor 1..5 | captured variable K, PEEL | STRICT, where),  elim_iter(flag combinations),  fuse,  and two-step
schedules of those, on every input on which the ORIGINAL returns.  Programs come from vlib.c08_gen (progen extended
with loop productions; source text through the real @fp.fpy decorator) and from hand-parameterised templates.

A transform raising at transform time is counted (`refused:*` / `transform-raises:*`), not a violation of this
property.  STRICT is only asked for where its documented precondition (length divisible by the factor) holds by
construction; an inserted assert firing on an input that violates it would be a generator bug (exit 2).

Failure buckets are root-cause signatures: `gensym/name-collision:numbered-name` (a generated temporary equals a user
name; decided by re-running on an alpha-renamed program, vlib.c08_diag), `<strategy>/name-collision:comprehension-scope`,
`<strategy>/name-collision:user-name`, otherwise `<strategy>[/PEEL|STRICT]/<raises:Exc|wrong-value>/<most specific suspect
feature of the program or input>`.  A failing two-step schedule is attributed to the step that already fails alone.
"""

from __future__ import annotations

import hashlib
import json
import re

import fpy2 as fp
from fpy2 import strategies as S
from fpy2.ast import fpyast as A
from fpy2.transform import ForUnrollStrategy, SplitLoopStrategy

from vlib import c08_diag, c08_gen, difftest, progen
from vlib.load import load_module, unload
from vlib.runner import Result, h64

PROPERTY = 'C08'
LEVEL = 'exploration'
RULE = ('Programs: vlib.c08_gen (progen subclass) with 1-3 possibly nested for/while loops over lists, list literals, range with '
        '1-3 args (negative step, empty), zip (equal lengths by construction), enumerate, enumerate(zip), any/all over '
        'comprehensions in every statement position; bodies reassign outer variables, store into the iterated list or an alias '
        '(current index, index ahead, via a helper), rebind the iterated name, return early, nest loops and coarse `with` blocks; '
        'variable/parameter/global names drawn from the transforms\' temporaries (t n i j m acc b _i _src + numbered forms); plus '
        'hand-parameterised templates. Each program x 6-8 configurations (unroll_for times 1-4, unroll_while 1-3, split 1-5 or '
        'captured K, PEEL/STRICT, where in None/index/site cursor/region, custom temp ids, elim_iter flags, fuse, 2-step schedules) '
        'x list lengths 0..7 chosen below/at/above the factor. Non-trivial = the transform changed the AST, the original returned, '
        'and (trip count not a multiple of the factor, or zero/one trip, or the body mutates the iterable / returns early / nests '
        'loops, or names collide with the temporaries); distinct by (source hash, configuration, input index).')
ASSUMPTIONS = [
    'Differential oracle: the interpreter running the original program is the reference; only inputs on which it returns are in scope.',
    'zip over unequal lengths is documented as undefined: all list parameters of one input have the same length by construction.',
    'STRICT is exercised only where every selected loop runs len(list parameter) (made divisible) or a divisible constant number of '
    'times; statically indivisible loops under STRICT are expected refusals / expected assertion failures (counted, not compared).',
    'A transform that raises at transform time is counted, not a violation; a watchdog expiry is inconclusive, never a violation.',
    'Two-step schedules are included because each step must itself preserve results; later steps use where=None.',
]
EXHAUSTIVE = {'quick': False, 'thorough': False}
FLOORS = {'returned': 0.4, 'trip-nonmultiple': 0.08, 'zero-trip': 0.02, 'one-trip': 0.02, 'mutates-iterable': 0.04,
          'early-return': 0.08, 'name-collision': 0.3, 'nested-loops': 0.08, 'ast-changed': 0.5}

EXPECTED_REFUSALS = {'TransformDeclined', 'TransformReferenceError', 'ValueError'}


# ---------------------------------------------------------------------------
# applying a configuration

def loop_tops(func_ast):
    """Top-level statement index of every `for` / `while` loop of main, in visit order (outermost-first)."""
    for_tops, while_tops = [], []

    def walk(block, top):
        for k, s in enumerate(block.stmts):
            t = k if top is None else top
            if isinstance(s, A.ForStmt):
                for_tops.append(t)
                walk(s.body, t)
            elif isinstance(s, A.WhileStmt):
                while_tops.append(t)
                walk(s.body, t)
            elif isinstance(s, A.IfStmt):
                walk(s.ift, t)
                walk(s.iff, t)
            elif isinstance(s, (A.If1Stmt, A.ContextStmt)):
                walk(s.body, t)
    walk(func_ast.body, None)
    return for_tops, while_tops, len(func_ast.body.stmts)


def resolve_where(f, where, strategy_fn):
    if where is None:
        return None
    if 'index' in where:
        return where['index']
    if 'site' in where:
        # the PEEL listing names every loop, in visit order; the cursor takes the loop and everything beneath it
        return S.sites(strategy_fn, f)[where['site']]
    if 'region' in where:
        lo, hi = where['region']
        return S.BlockCursor(f.ast, S.FuncBody(), range(lo, hi))
    raise ValueError(where)


def apply_cfg(f, cfg):
    t = cfg['t']
    if t == 'seq':
        g = f
        for step in cfg['steps']:
            g = apply_cfg(g, step)
        return g
    if t == 'unroll_for':
        strat = ForUnrollStrategy.STRICT if cfg['strategy'] == 'STRICT' else ForUnrollStrategy.PEEL
        return S.unroll_for(f, where=resolve_where(f, cfg['where'], S.unroll_for), times=cfg['times'], strategy=strat,
                            **(cfg.get('ids') or {}))
    if t == 'unroll_while':
        return S.unroll_while(f, where=resolve_where(f, cfg['where'], S.unroll_while), times=cfg['times'])
    if t == 'split':
        strat = SplitLoopStrategy.STRICT if cfg['strategy'] == 'STRICT' else SplitLoopStrategy.PEEL
        return S.split(f, cfg['factor'], where=resolve_where(f, cfg['where'], S.split), strategy=strat, **(cfg.get('ids') or {}))
    if t == 'elim_iter':
        return S.elim_iter(f, enable_enumerate=cfg['enum'], enable_zip=cfg['zip'])
    if t == 'fuse':
        return S.fuse(f)
    raise ValueError(cfg)


def label(cfg):
    t = cfg['t']
    if t == 'seq':
        return 'seq(' + '+'.join(label(s) for s in cfg['steps']) + ')'
    if t in ('unroll_for', 'split'):
        s = f'{t}/{cfg["strategy"]}'
        if t == 'split' and cfg['factor'] == 'K':
            s += '/varfactor'
        return s
    return t


FUSE_HINTS = ['anyall-in-while-cond', 'anyall-guarded-fault', 'comp-target-shadows-outer', 'anyall-under-shortcircuit',
              'anyall-in-ifexp-branch', 'anyall-nested', 'anyall-in-loop']
ELIM_HINTS = ['derived-iter-body-mutates-source', 'comp-capture', 'zip-whole-tuple', 'comp-over-zip', 'comp-over-enumerate',
              'enumerate-zip', 'loop-under-coarse-ctx']
LOOP_HINTS = ['mutates-iterable', 'rebinds-iterable', 'early-return', 'nested-loops', 'loop-under-coarse-ctx', 'name-collision']


def bucket_of(cfg, feats, verdict, length, k, trips=None):
    """Root-cause signature: strategy / what differs / the most specific suspect feature of the program or input."""
    lab = label(cfg)
    sym = f'raises:{verdict[1]}' if verdict[0] == 'raises' else 'wrong-value'
    kinds = {cfg['t']} if cfg['t'] != 'seq' else {s['t'] for s in cfg['steps']}
    hint = None
    if 'fuse' in kinds:
        order = FUSE_HINTS
        if verdict[0] == 'raises' and 'anyall-guarded-fault' in feats:
            order = ['anyall-guarded-fault'] + FUSE_HINTS      # the original returned, so a fault was guarded
        hint = next((h for h in order if h in feats), None)
    if hint is None and 'elim_iter' in kinds:
        hint = next((h for h in ELIM_HINTS if h in feats), None)
    if hint is None and kinds & {'unroll_for', 'split', 'unroll_while'}:
        if k and k > 1 and kinds & {'unroll_for', 'split'} and any(t % k for t in (trips or [])):
            hint = 'remainder'          # some selected loop runs a number of times that is not a multiple of the factor
        if hint is None:
            hint = next((h for h in LOOP_HINTS if h in feats), None)
    return f'{lab}/{sym}/{hint or "other"}'


# ---------------------------------------------------------------------------
# one program

class _Meta:
    """What the harness needs to know about a program: loops, K, min length, features."""
    def __init__(self, for_loops, while_loops, k_value, min_a, features, n_anyall=0):
        self.for_loops = for_loops
        self.while_loops = while_loops
        self.k_value = k_value
        self.min_a = min_a
        self.features = set(features)
        self.n_anyall = n_anyall


def first_list_len(args):
    for a in args:
        if isinstance(a, list):
            return len(a)
    return None


def input_classes(cfg, meta_feats, length, k, sel_trips):
    """Classes of one evaluation for the histogram / non-triviality rule."""
    cls = set()
    trips = []
    for t in sel_trips:
        if t == 'A':
            if length is not None:
                trips.append(length)
        elif isinstance(t, int):
            trips.append(t)
    if k and k > 1 and any(t % k for t in trips):
        cls.add('trip-nonmultiple')
    if k and any(t < k for t in trips):
        cls.add('trip<factor')
    if 0 in trips:
        cls.add('zero-trip')
    if 1 in trips:
        cls.add('one-trip')
    for f in ('mutates-iterable', 'early-return', 'name-collision', 'nested-loops', 'loop-under-coarse-ctx', 'global-collides',
              'derived-iter-body-mutates-source', 'any-all', 'rebinds-iterable', 'helper-mutates-iterable', 'with-inside-loop'):
        if f in meta_feats:
            cls.add(f)
    return cls


NT_CLASSES = {'trip-nonmultiple', 'trip<factor', 'zero-trip', 'one-trip', 'mutates-iterable', 'early-return', 'name-collision',
              'nested-loops'}


def check_config(res: Result, fn, src, cfg, inputs, orig, meta_feats, sel_trips, k, origin, sh, kval=2):
    """inputs: [(args, ctx_text)]; orig: outcomes of the original on them (filled lazily)."""
    lab = label(cfg)
    st = difftest.transform(fn, lambda f: apply_cfg(f, cfg))
    res.count('transforms')
    if st[0] == 'timeout':
        res.skip('transform-timeout')
        return
    if st[0] == 'refuses':
        if st[1] in EXPECTED_REFUSALS:
            res.skip(f'refused:{st[1]}')
            res.count(f'refused:{lab}')
        else:
            res.skip(f'transform-raises:{st[1]}')
            res.count(f'transform-raises:{lab}:{st[1]}')
            if res.extra.get(f'transform-raises:{lab}:{st[1]}', 0) <= 1:
                res.sample({'transform_raises': f'{st[1]}: {st[2]}', 'src': src, 'cfg': cfg})
        return
    g = st[1]
    changed = difftest.ast_changed(fn, g)
    diagnosed = {}
    for idx, inp in enumerate(inputs):
        args, ctx = inp
        if id(inp) not in orig:
            orig[id(inp)] = (inp, difftest.call(fn, args, ctx))     # keeps `inp` alive, so the id stays unique
        o = orig[id(inp)][1]
        res.case()
        res.cls('t:' + lab)
        if o[0] != 'value':
            res.skip('original-' + ('timeout' if o[0] == 'timeout' else 'raises'))
            continue
        res.cls('returned')
        n = difftest.call(g, args, ctx)
        v = difftest.verdict(o, n)
        length = first_list_len(args)
        cls = input_classes(cfg, meta_feats, length, k, sel_trips)
        if changed:
            cls.add('ast-changed')
        for c in cls:
            res.cls(c)
        if cfg.get('where') is not None:
            res.cls('where:' + next(iter(cfg['where'])))
        case = {'src': src, 'cfg': cfg, 'args': difftest.encode_args(args), 'ctx': ctx, 'feats': sorted(meta_feats), 'origin': origin}
        if changed and cls & NT_CLASSES:
            res.nontrivial((sh, json.dumps(cfg, sort_keys=True), idx))
            if res.evaluations % 499 == 0:
                res.sample(case, nt=True)
        elif res.evaluations % 2503 == 0:
            res.sample(case)
        if v == 'same':
            continue
        if v == 'inconclusive':
            res.skip('timeout-inconclusive')
            if res.skipped.get('timeout-inconclusive', 0) <= 2:
                res.sample({'timeout': lab, 'src': src, 'cfg': cfg, 'args': difftest.encode_args(args), 'ctx': ctx})
            continue
        if v[0] == 'raises' and v[1] == 'AssertionError' and cfg.get('strategy') == 'STRICT':
            if cfg.get('strict') == 'static-indivisible':
                # a selected loop has a constant trip count that is not a multiple of the factor and the transform
                # could not tell: the inserted assert is the documented outcome
                res.skip('strict-precondition-false')
                continue
            if k and length is not None and length % k != 0:
                raise RuntimeError(f'generator bug: STRICT asked for on a length {length} not divisible by {k}: {cfg}\n{src}')
            res.fail(f'{lab}/raises:AssertionError/assert-fired-on-divisible-length', case, expected=o[1], got=f'{v[1]}: {v[2]}')
            continue
        # diagnosed once per (program, configuration); further failing inputs of the same pair share the signature
        # unless the symptom class differs
        sym = v[0] if v[0] == 'differs' else v[1]
        if 'elim_iter' in lab:
            diagnosed.pop(sym, None)
        if sym not in diagnosed:
            diagnosed[sym] = fail_bucket(fn, src, cfg, args, ctx, o, v, meta_feats, length, k, kval, resolved_trips(sel_trips, length))
        b = diagnosed[sym]
        if v[0] == 'raises':
            res.fail(b, case, expected=o[1], got=f'{v[1]}: {v[2]}')
        else:
            res.fail(b, case, expected=v[1], got=v[2])


def resolved_trips(sel_trips, length):
    out = []
    for t in sel_trips or []:
        if t == 'A':
            if length is not None:
                out.append(length)
        elif isinstance(t, int):
            out.append(t)
    return out


def fail_bucket(fn, src, cfg, args, ctx, o, v, feats, length, k, kval, trips=None):
    """Root-cause signature of one disagreement.  A schedule that already fails with one of its steps alone is
    attributed to that step; a disagreement that disappears when names are renamed apart is a name collision."""
    if cfg['t'] == 'seq':
        for step in cfg['steps']:
            st = difftest.transform(fn, lambda f: apply_cfg(f, step))
            if st[0] != 'ok':
                continue
            v2 = difftest.verdict(o, difftest.call(st[1], args, ctx))
            if isinstance(v2, tuple):
                return fail_bucket(fn, src, step, args, ctx, o, v2, feats, length, c08_gen.factor_of(step, kval), kval, trips)
    cause = c08_diag.diagnose(src, lambda new_src: still_fails(new_src, cfg, args, ctx))
    if cause == 'name-collision:numbered-name':
        # every rewrite mints its temporaries through Gensym, and only Gensym spells a name base+count
        return f'gensym/{cause}'
    if cause is not None:
        kind = cfg['t'] if cfg['t'] != 'seq' else label(cfg)
        return f'{kind}/{cause}'
    if cfg['t'] == 'elim_iter':
        # the statement path and the comprehension path are separate code: say which one disagrees
        site = elim_site_cause(fn, cfg, args, ctx, o)
        if site is not None:
            return f'elim_iter/{site}'
    return bucket_of(cfg, feats, v, length, k, trips)


class _Writes:
    """Our own scan (independent of the transform's): does a block / expression store into a list, itself or in an
    FPy function it calls (transitively)?"""

    @staticmethod
    def scan(node, is_block):
        from fpy2.ast.visitor import DefaultVisitor
        found = []
        seen = set()

        class V(DefaultVisitor):
            def _visit_indexed_assign(self, stmt, ctx):
                found.append('store')
                return super()._visit_indexed_assign(stmt, ctx)

            def _visit_call(self, e, ctx):
                callee = getattr(getattr(e, 'fn', None), 'ast', None)
                body = getattr(callee, 'body', None)
                if isinstance(body, A.StmtBlock) and id(callee) not in seen:
                    seen.add(id(callee))
                    self._visit_block(body, None)
                return super()._visit_call(e, ctx)

        v = V()
        if is_block:
            v._visit_block(node, None)
        else:
            v._visit_expr(node, None)
        return bool(found)


def derived_sites_write(func_ast):
    """(some zip/enumerate `for` loop has a body that may store, some comprehension with a zip/enumerate stage has
    an element / later iterable that may store)"""
    from fpy2.ast.visitor import DefaultVisitor
    res = {'for': False, 'comp': False}

    class V(DefaultVisitor):
        def _visit_for(self, stmt, ctx):
            if isinstance(stmt.iterable, (A.Zip, A.Enumerate)) and _Writes.scan(stmt.body, True):
                res['for'] = True
            return super()._visit_for(stmt, ctx)

        def _visit_list_comp(self, e, ctx):
            if any(isinstance(it, (A.Zip, A.Enumerate)) for it in e.iterables):
                if _Writes.scan(e.elt, False) or any(_Writes.scan(it, False) for it in e.iterables[1:]):
                    res['comp'] = True
            return super()._visit_list_comp(e, ctx)

    V()._visit_function(func_ast, None)
    return res['for'], res['comp']


def elim_variant(f, cfg, part):
    """elim_iter restricted to one kind of site: part='for' rewrites only `for` loops, 'comp' only comprehension
    stages.  Built from the transform's own visitor classes with the other path switched back to the default walk;
    a diagnosis aid only (raises if those internals change, and the caller falls back)."""
    from fpy2.analysis import DefineUse
    from fpy2.ast.visitor import DefaultTransformVisitor
    from fpy2.transform import enumerate_elim, zip_elim
    ast = f.ast
    for enabled, base in ((cfg['enum'], enumerate_elim._EnumerateElimInstance), (cfg['zip'], zip_elim._ZipElimInstance)):
        if not enabled:
            continue
        if part == 'for':
            class V(base):
                def _visit_list_comp(self, e, ctx):
                    return DefaultTransformVisitor._visit_list_comp(self, e, ctx)
        else:
            class V(base):
                def _visit_for(self, stmt, ctx):
                    return DefaultTransformVisitor._visit_for(self, stmt, ctx)
        ast = V(ast, DefineUse.analyze(ast)).apply()
    return f.with_ast(ast)


def elim_site_cause(fn, cfg, args, ctx, o):
    """Which kind of elim_iter site makes this input disagree, and does that kind of site store into a list?"""
    try:
        for_w, comp_w = derived_sites_write(fn.ast)
        for part, writes in (('for', for_w), ('comp', comp_w)):
            st = difftest.transform(fn, lambda f: elim_variant(f, cfg, part))
            if st[0] != 'ok':
                return None
            v = difftest.verdict(o, difftest.call(st[1], args, ctx))
            if isinstance(v, tuple):
                if part == 'for':
                    return 'for-loop-body-or-callee-writes' if writes else 'for-loop-rewrite'
                return 'comprehension-stage-callee-writes' if writes else 'comprehension-stage-rewrite'
    except Exception:       # diagnosis aid: never a harness error
        return None
    return None


def still_fails(src, cfg, args, ctx):
    """Re-run one configuration on one input against another spelling of the program: True / False / None (undecided)."""
    try:
        mod = load_module(src)
    except Exception:
        return None
    try:
        fn = mod.main
        o = difftest.call(fn, args, ctx)
        if o[0] != 'value':
            return None
        st = difftest.transform(fn, lambda f: apply_cfg(f, cfg))
        if st[0] != 'ok':
            return None
        v = difftest.verdict(o, difftest.call(st[1], args, ctx))
        if v == 'same':
            return False
        if v == 'inconclusive':
            return None
        return True
    finally:
        unload(mod)


def sel_trips_of(cfg, meta, for_tops):
    if cfg['t'] == 'seq':
        out = []
        for s in cfg['steps']:
            out += sel_trips_of(s, meta, for_tops)
        return out
    if cfg['t'] in ('unroll_for', 'split'):
        sel = c08_gen.selected_for_loops(meta.for_loops, cfg.get('where'), for_tops)
        return [meta.for_loops[i]['trip'] for i in (sel or []) if i < len(meta.for_loops)]
    if cfg['t'] == 'unroll_while':
        return [r['trip'] for r in meta.while_loops]
    # elim_iter / fuse: every derived-iterable loop; the list length is the interesting quantity
    return ['A']


def check_program(res: Result, src, meta: _Meta, make_cfgs, make_inputs, origin):
    """make_cfgs(fn, for_tops, while_tops, n_top) -> [cfg]; make_inputs(cfg) -> [(args, ctx)] (cached per key by the caller)."""
    try:
        mod = load_module(src)
    except Exception as e:
        res.skip(f'rejected:{type(e).__name__}')
        res.count('rejected')
        if res.extra.get('rejected', 0) <= 2:
            res.sample({'rejected': src, 'error': f'{type(e).__name__}: {str(e)[:300]}'})
        return
    try:
        fn = mod.main
        res.count('programs')
        for_tops, while_tops, n_top = loop_tops(fn.ast)
        if len(for_tops) != len(meta.for_loops) or len(while_tops) != len(meta.while_loops):
            raise RuntimeError(f'generator bug: loop bookkeeping {len(for_tops)}/{len(meta.for_loops)} for, '
                               f'{len(while_tops)}/{len(meta.while_loops)} while\n{src}')
        sh = hashlib.blake2b(src.encode(), digest_size=8).hexdigest()
        orig = {}       # id(input) -> (input, outcome of the original)
        for cfg in make_cfgs(fn, for_tops, while_tops, n_top):
            inputs = make_inputs(cfg)
            k = c08_gen.factor_of(cfg, meta.k_value)
            check_config(res, fn, src, cfg, inputs, orig, meta.features, sel_trips_of(cfg, meta, for_tops), k, origin, sh, meta.k_value)
    finally:
        unload(mod)


# ---------------------------------------------------------------------------
# generated programs

N_CFG = {'quick': 6, 'thorough': 8}
N_LEN = {'quick': 5, 'thorough': 7}


def run_generated(res, seed, i, j, tier):
    ch = progen.RandChooser(h64(seed, 'C08', i, j))
    prog = c08_gen.gen_program(ch, c08_gen.c08_profile(i), collide_rate=0.0 if i % 8 == 7 else 0.6)
    meta = _Meta(prog.for_loops, prog.while_loops, prog.k_value, prog.min_a, prog.features, prog.n_anyall)
    by_len = {}

    def inputs_of_len(n):
        if n not in by_len:
            by_len[n] = (c08_gen.gen_args(ch, prog.params, n), ch.choice(c08_gen.CALLER_CTXS))
        return by_len[n]

    lists = {}

    def make_inputs(cfg):
        lens = tuple(c08_gen.lengths_for(ch, cfg, prog.k_value, prog.min_a, N_LEN[tier]))
        if lens not in lists:
            lists[lens] = [inputs_of_len(n) for n in lens]
        return lists[lens]

    def make_cfgs(fn, for_tops, while_tops, n_top):
        names = sorted({n for n, _ in prog.params} | set(prog.names))
        return c08_gen.sample_configs(ch, prog, N_CFG[tier], for_tops, while_tops, n_top, names)

    check_program(res, prog.src, meta, make_cfgs, make_inputs, f'gen:{seed}:{i}:{j}')


# ---------------------------------------------------------------------------
# templates: (name, source with {CTX}/{K}, for-loop records, while-loop count, kinds, features, min length)

def _loops(*trips_parents):
    return [dict(id=i, trip=t, parent=p, kind='tmpl', srcs=[], feats=set(), inner_feats=set()) for i, (t, p) in enumerate(trips_parents)]


TEMPLATES = [
    ('sum-list', '''
@fp.fpy
def main(t, n, i, m):
    acc = i
    with {CTX}:
        for x in t:
            acc = acc + x * m
    return (acc, t, n)
''', _loops(('A', None)), 0, {'unroll_for', 'split'}, {'name-collision', 'loop-under-coarse-ctx'}, 0),
    ('record-positions', '''
@fp.fpy
def main(t, n, i, m):
    acc = i
    j = [0, 0, 0, 0, 0, 0, 0, 0]
    with {CTX}:
        for _i, x in enumerate(t):
            j[_i] = x
            acc = max(acc, x)
        for b in t:
            i = min(i, b)
    return (acc, i, j, t)
''', _loops(('A', None), ('A', None)), 0, {'unroll_for', 'split', 'elim_iter'}, {'name-collision', 'loop-under-coarse-ctx', 'enumerate'}, 0),
    ('enumerate-zip-store-current', '''
@fp.fpy
def main(t, n, i, m):
    acc = i
    j = 0
    with {CTX}:
        for _i, (x, y) in enumerate(zip(t, n)):
            t[_i] = x + y
            acc = acc + x * y + _i
            j = x
    return (acc, j, t, n)
''', _loops(('A', None)), 0, {'unroll_for', 'split', 'elim_iter'}, {'name-collision', 'loop-under-coarse-ctx', 'enumerate-zip', 'mutates-iterable'}, 0),
    ('list-store-ahead', '''
@fp.fpy
def main(t, n, i, m):
    acc = i
    last = len(t) - 1
    al = t
    with {CTX}:
        for x in t:
            al[last] = x + acc
            acc = acc + x
    return (acc, t, n)
''', _loops(('A', None)), 0, {'unroll_for', 'split'}, {'name-collision', 'mutates-iterable', 'list-alias'}, 0),
    ('zip-store-ahead', '''
@fp.fpy
def main(t, n, i, m):
    acc = i
    last = len(t) - 1
    for x, y in zip(t, n):
        t[last] = x + acc
        n[0] = y + 1
        acc = acc + x * y
    for _i, x in enumerate(t):
        t[last] = x + 1
        acc = acc + _i * x
    return (acc, t, n)
''', _loops(('A', None), ('A', None)), 0, {'unroll_for', 'split', 'elim_iter'},
     {'name-collision', 'mutates-iterable', 'zip', 'enumerate', 'derived-iter-body-mutates-source'}, 0),
    ('early-return', '''
@fp.fpy
def main(t, n, i, m):
    acc = i
    with {CTX}:
        for x in t:
            if x > m:
                return (acc, x, t)
            acc = acc + x
    return (acc, m, n)
''', _loops(('A', None)), 0, {'unroll_for', 'split'}, {'name-collision', 'early-return'}, 0),
    ('nested', '''
@fp.fpy
def main(t, n, i, m):
    acc = i
    for x in t:
        for j in range(3):
            acc = acc * 2 + x + j
        with {CTX}:
            for y in n:
                acc = acc - y
                if acc > 1000:
                    return (acc, x, y)
    return (acc, m, 0)
''', _loops(('A', None), (3, 0), ('A', 0)), 0, {'unroll_for', 'split'}, {'name-collision', 'nested-loops', 'early-return'}, 0),
    ('ranges', '''
@fp.fpy
def main(t, n, i, m):
    acc = i
    with {CTX}:
        for i5 in range(7, 0, -2):
            acc = acc * 3 + i5
        for i6 in range(2, 7):
            acc = acc - i6
        for i7 in range(5):
            acc = acc + i7 * m
        for i8 in range(4, 4):
            acc = acc + 1000
        for i9 in range(0, 6, 4):
            acc = acc * 2 + i9
    return (acc, t)
''', _loops((4, None), (5, None), (5, None), (0, None), (2, None)), 0, {'unroll_for', 'split'}, {'name-collision', 'static-zero-trip'}, 0),
    ('while-count', '''
@fp.fpy
def main(t, n, i, m):
    acc = i
    k = 0
    while k < len(t) and acc < 500:
        acc = acc * 2 + t[k]
        j = 3
        while j > 0:
            acc = acc + j
            if acc > 400:
                return (acc, k, j)
            j = j - 1
        k = k + 1
    return (acc, k, 0)
''', [], 2, {'unroll_while'}, {'name-collision', 'nested-loops', 'early-return', 'while'}, 0),
    ('target-leaks', '''
@fp.fpy
def main(t, n, i, m):
    x = m
    y = i
    for x in t:
        pass
    for _, y in enumerate(n):
        pass
    return (x, y)
''', _loops(('A', None), ('A', None)), 0, {'unroll_for', 'split', 'elim_iter'}, {'name-collision', 'target-rebinds-outer', 'enumerate'}, 0),
    ('rebind-iterable', '''
@fp.fpy
def main(t, n, i, m):
    acc = i
    for x in t:
        t = [q + 1 for q in t]
        acc = acc + x
    for x, y in zip(t, n):
        n = [q * 2 for q in n]
        acc = acc * 2 + x - y
    return (acc, t, n)
''', _loops(('A', None), ('A', None)), 0, {'unroll_for', 'split', 'elim_iter'}, {'name-collision', 'rebinds-iterable', 'zip'}, 0),
    ('whole-tuple', '''
@fp.fpy
def main(t, n, i, m):
    acc = i
    with {CTX}:
        for p in zip(t, n):
            acc = acc + fp.fst(p) - fp.snd(p) * m
        for _i, p in enumerate(zip(t, n)):
            acc = acc * 2 + fp.snd(p) + _i
        for a, _, c in zip(t, n, t):
            acc = acc + a * c
        for (a, c), d in zip(zip(t, n), t):
            acc = acc * 2 + a * c - d
    return (acc, t)
''', _loops(('A', None), ('A', None), ('A', None), ('A', None)), 0, {'unroll_for', 'split', 'elim_iter'},
     {'name-collision', 'zip', 'enumerate-zip', 'zip-whole-tuple'}, 0),
    ('helper-mutates', '''
@fp.fpy
def h0(p0, p1):
    p0[len(p0) - 1] = p0[len(p0) - 1] + p1
    return p1 * 2

@fp.fpy
def main(t, n, i, m):
    acc = i
    for x in t:
        acc = acc + h0(t, x)
    for x, y in zip(n, t):
        acc = acc + h0(n, y) - x
    for j, x in enumerate(t):
        acc = acc * 2 + h0(t, j) - x
    r = [h0(t, x) + y for x, y in zip(t, n)]
    s = [h0(n, x) + j for j, x in enumerate(n)]
    return (acc, t, n, r, s)
''', _loops(('A', None), ('A', None), ('A', None)), 0, {'unroll_for', 'split', 'elim_iter'},
     {'name-collision', 'mutates-iterable', 'helper-mutates-iterable', 'zip', 'derived-iter-body-mutates-source'}, 0),
    ('comprehension-paths', '''
_i = 10

@fp.fpy
def main(t, n, i, m):
    with {CTX}:
        r1 = [x * y + _i for x, y in zip(t, n)]
        r2 = [j + x for j, x in enumerate(t)]
        r3 = [fp.fst(p) - fp.snd(p) for p in zip(t, n)]
        r4 = [(a + b) * c for (a, b), c in zip(zip(t, n), t)]
        r5 = [j * (a - b) for j, (a, b) in enumerate(zip(t, n))]
        r6 = [sum([x + q for q in n]) for x, _ in zip(t, n)]
    return (r1, r2, r3, r4, r5, r6)
''', [], 0, {'elim_iter'}, {'name-collision', 'comp-over-zip', 'comp-over-enumerate', 'global-collides'}, 0),
    ('comprehension-capture', '''
@fp.fpy
def main(t, n, i, m):
    r = [sum([x + t for t in n]) for x, y in zip(t, n)]
    s = [sum([j * x + t for t in n]) for j, x in enumerate(t)]
    return (r, s)
''', [], 0, {'elim_iter'}, {'name-collision', 'comp-over-zip', 'comp-over-enumerate', 'comp-capture'}, 0),
    ('fuse-positions', '''
@fp.fpy
def main(t, n, i, m):
    acc = any([x > i for x in t])
    b = all([x > i for x in t])
    j = 0
    if any([x * y > m for x, y in zip(t, n)]):
        j = 1
    with {CTX}:
        b2 = all([q + _i > m for _i, q in enumerate(t)]) or any([q < m for q in n])
    acc3 = not any([all([q < w for q in t]) for w in n])
    return (acc, b, j, b2, acc3, any([w < 0 for w in range(0)]), all([w < 0 for w in range(0)]))
''', [], 0, {'fuse'}, {'name-collision', 'any-all', 'anyall-under-shortcircuit', 'anyall-nested'}, 0),
    ('fuse-shadow', '''
@fp.fpy
def main(t, n, i, m):
    x = m
    b = any([x > i for x in t])
    acc = all([i < m for i in n])
    return (b, acc, x, i)
''', [], 0, {'fuse'}, {'name-collision', 'any-all', 'comp-target-shadows-outer'}, 0),
    ('fuse-guarded', '''
@fp.fpy
def main(t, n, i, m):
    b = len(t) > 2 and any([t[2] > y for y in n])
    acc = len(t) <= 3 or all([t[3] >= y for y in n])
    x = 1 if (any([t[5] > y for y in n]) if len(t) > 5 else False) else 0
    return (b, acc, x)
''', [], 0, {'fuse'}, {'name-collision', 'any-all', 'anyall-under-shortcircuit', 'anyall-guarded-fault', 'anyall-in-ifexp-branch'}, 0),
    ('fuse-guarded-rows', '''
@fp.fpy
def main(rows, n, i, m):
    b = i < len(rows) and all([v > m for v in rows[i]])
    acc = i >= len(rows) or any([v < m for v in rows[i]])
    j = len(rows) > 2 and any([v >= 1 for v in rows[2]])
    t = (len(rows) <= 5 or all([v != m for v in rows[5]])) and (len(n) > 3 and any([v > n[3] for v in rows[0]]))
    x = 0 <= i < len(rows) < 9 and i < len(rows) and all([m < v for v in rows[i]])
    y = any([v > m for v in n]) or all([v < m for v in n])
    return (b, acc, j, t, x, y)
''', [], 0, {'fuse'}, {'name-collision', 'any-all', 'anyall-under-shortcircuit', 'anyall-guarded-fault', 'anyall-indexed-iterable'}, 0,
     [('rows', 'LL'), ('n', 'L'), ('i', 'I'), ('m', 'R')]),
    ('fuse-while-cond', '''
@fp.fpy
def main(t, n, i, m):
    k = 0
    while any([x > k for x in t]) and k < 6:
        k = k + 1
    j = 0
    for y in n:
        if all([x > y for x in t]):
            j = j + 1
    return (k, j)
''', _loops(('A', None)), 1, {'fuse', 'unroll_while', 'unroll_for', 'split'}, {'name-collision', 'any-all', 'anyall-in-while-cond', 'anyall-in-loop'}, 0),
    ('numbered-names', '''
@fp.fpy
def main(t, n, i, m):
    t24 = i
    t25 = m
    t26 = 1
    t27 = 2
    i28 = 3
    i29 = 4
    j30 = 5
    j31 = 6
    n25 = 7
    acc26 = 8
    b27 = False
    _i26 = 9
    _src25 = 10
    with {CTX}:
        for x, y in zip(t, n):
            t24 = t24 + x * t25
            i28 = max(i28, y)
        for j32, x in enumerate(t):
            t26 = t26 + j32 * x
            b27 = b27 or any([q > x for q in n])
    return (t24, t25, t26, t27, i28, i29, j30, j31, n25, acc26, b27, _i26, _src25)
''', _loops(('A', None), ('A', None)), 0, {'unroll_for', 'split', 'elim_iter', 'fuse'},
     {'name-collision', 'zip', 'enumerate', 'any-all', 'anyall-in-loop', 'anyall-under-shortcircuit'}, 0),
    ('default-temp-names', '''
@fp.fpy
def main(t, n, i, m):
    _i = i
    _src = m
    acc = 0
    b = 1
    j = 2
    for x, y in zip(t, n):
        acc = acc + x * y + _i
    for x, y in zip(n, t):
        b = b + x - y + _src
    for j, x in enumerate(t):
        acc = acc - j * x
    c = any([x > _i for x in t]) or all([y < b for y in n])
    return (_i, _src, acc, b, j, c, i, m)
''', _loops(('A', None), ('A', None), ('A', None)), 0, {'unroll_for', 'split', 'elim_iter', 'fuse'},
     {'name-collision', 'zip', 'enumerate', 'any-all', 'anyall-under-shortcircuit', 'target-rebinds-outer'}, 0),
    ('two-loops-branches', '''
@fp.fpy
def main(t, n, i, m):
    acc = i
    if m > 2:
        for x in t:
            acc = acc + x
    else:
        for j, x in enumerate(t):
            acc = acc - x * j
    k = 2
    while k > 0:
        with {CTX}:
            for y in n:
                acc = acc * 2 + y
        k = k - 1
    return (acc, k)
''', _loops(('A', None), ('A', None), ('A', None)), 1, {'unroll_for', 'split', 'unroll_while', 'elim_iter'},
     {'name-collision', 'nested-loops', 'enumerate'}, 0),
]

TEMPLATE_CTXS = ['fp.MPFloatContext(2)', 'fp.MPFixedContext(1, fp.RM.RTZ)', 'fp.MPFloatContext(1, fp.RM.RNE)', 'fp.FP64',
                 'fp.MPFixedContext(2, fp.RM.RNE)', 'fp.MPFloatContext(3, fp.RM.RTP)']


def template_cfgs(kinds, meta, for_tops, n_top):
    nf, nw = len(meta.for_loops), len(meta.while_loops)
    cfgs = []
    wheres_f = [None] + [{'index': i} for i in range(nf)] + [{'site': i} for i in range(nf)] + ([{'region': [0, n_top]}] if nf else [])
    if 'unroll_for' in kinds:
        for times in (1, 2, 3, 4):
            for w in wheres_f:
                cfgs.append({'t': 'unroll_for', 'times': times, 'where': w, 'strategy': 'PEEL'})
                sel = c08_gen.selected_for_loops(meta.for_loops, w, for_tops)
                st = c08_gen.strict_status(meta.for_loops, sel, times + 1) if sel is not None else None
                if st is not None and c08_gen.strict_where_ok(meta.for_loops, w, times + 1):
                    cfgs.append({'t': 'unroll_for', 'times': times, 'where': w, 'strategy': 'STRICT', 'strict': st})
        cfgs.append({'t': 'unroll_for', 'times': 2, 'where': None, 'strategy': 'PEEL', 'ids': {'temp_id': 'acc', 'len_id': 'i', 'idx_id': 'x'}})
    if 'split' in kinds:
        for factor in (1, 2, 3, 4, 5, 'K'):
            k = meta.k_value if factor == 'K' else factor
            for w in wheres_f:
                cfgs.append({'t': 'split', 'factor': factor, 'where': w, 'strategy': 'PEEL'})
                sel = c08_gen.selected_for_loops(meta.for_loops, w, for_tops)
                st = c08_gen.strict_status(meta.for_loops, sel, k) if sel is not None else None
                if st is not None and c08_gen.strict_where_ok(meta.for_loops, w, k):
                    cfgs.append({'t': 'split', 'factor': factor, 'where': w, 'strategy': 'STRICT', 'strict': st})
        cfgs.append({'t': 'split', 'factor': 2, 'where': None, 'strategy': 'PEEL', 'ids': {'temp_id': 'acc', 'outer_id': 'x', 'inner_id': 'i'}})
    if 'unroll_while' in kinds:
        for times in (1, 2, 3):
            for w in [None] + [{'index': i} for i in range(nw)] + [{'site': i} for i in range(nw)]:
                cfgs.append({'t': 'unroll_while', 'times': times, 'where': w})
    if 'elim_iter' in kinds:
        for e, z in ((True, True), (True, False), (False, True)):
            cfgs.append({'t': 'elim_iter', 'enum': e, 'zip': z})
        if 'split' in kinds:
            cfgs.append({'t': 'seq', 'steps': [{'t': 'elim_iter', 'enum': True, 'zip': True},
                                               {'t': 'split', 'factor': 3, 'where': None, 'strategy': 'PEEL'}]})
            cfgs.append({'t': 'seq', 'steps': [{'t': 'elim_iter', 'enum': True, 'zip': True},
                                               {'t': 'unroll_for', 'times': 2, 'where': None, 'strategy': 'PEEL'}]})
    if 'fuse' in kinds:
        cfgs.append({'t': 'fuse'})
        cfgs.append({'t': 'seq', 'steps': [{'t': 'fuse'}, {'t': 'unroll_for', 'times': 1, 'where': None, 'strategy': 'PEEL'}]})
        cfgs.append({'t': 'seq', 'steps': [{'t': 'fuse'}, {'t': 'split', 'factor': 2, 'where': None, 'strategy': 'PEEL'}]})
    if {'unroll_for', 'split'} <= set(kinds):
        cfgs.append({'t': 'seq', 'steps': [{'t': 'split', 'factor': 2, 'where': None, 'strategy': 'PEEL'},
                                           {'t': 'unroll_for', 'times': 1, 'where': None, 'strategy': 'PEEL'}]})
        cfgs.append({'t': 'seq', 'steps': [{'t': 'unroll_for', 'times': 2, 'where': None, 'strategy': 'PEEL'},
                                           {'t': 'split', 'factor': 'K', 'where': None, 'strategy': 'PEEL'}]})
    return cfgs


def run_template(res, seed, ti, variant, tier):
    name, tmpl, loops, nwhile, kinds, feats, min_a = TEMPLATES[ti][:7]
    params = TEMPLATES[ti][7] if len(TEMPLATES[ti]) > 7 else [('t', 'L'), ('n', 'L'), ('i', 'R'), ('m', 'R')]
    ch = progen.RandChooser(h64(seed, 'C08tmpl', ti, variant))
    ctx = TEMPLATE_CTXS[(variant + ti) % len(TEMPLATE_CTXS)]
    kval = 1 + (variant + ti) % 5
    src = f'K = {kval}\n' + re.sub(r'(def main\([^)]*\):\n)', r'\1    kk = K\n', tmpl.replace('{CTX}', ctx).lstrip('\n'), count=1)
    fl = [dict(r, feats=set(), inner_feats=set()) for r in loops]
    wl = [dict(id=i, trip=None, kind='tmpl', feats=set(), inner_feats=set()) for i in range(nwhile)]
    meta = _Meta(fl, wl, kval, min_a, set(feats) | {'template:' + name})
    n_in = 2 if tier == 'thorough' else 1
    all_inputs = {n: [(c08_gen.gen_args(ch, params, n), ch.choice(c08_gen.CALLER_CTXS)) for _ in range(n_in)] for n in range(0, 8)}
    lists = {}

    def make_inputs(cfg):
        if cfg.get('strategy') == 'STRICT' and cfg.get('strict') == 'ok':
            k = c08_gen.factor_of(cfg, kval)
            lens = tuple(n for n in range(8) if n % k == 0)
        else:
            lens = tuple(range(8))
        if lens not in lists:
            lists[lens] = [inp for n in lens for inp in all_inputs[n]]
        return lists[lens]

    def make_cfgs(fn, for_tops, while_tops, n_top):
        cfgs = template_cfgs(kinds, meta, for_tops, n_top)
        if tier != 'thorough':
            # a deterministic sample of the (times/factor x where x strategy) grid; everything else is kept
            grid = [c for c in cfgs if c['t'] in ('unroll_for', 'split') and 'ids' not in c]
            keep = []
            for c in cfgs:
                if c['t'] not in ('unroll_for', 'split') or 'ids' in c or ch.int(0, max(1, len(grid)) - 1) < 36:
                    keep.append(c)
            cfgs = keep
        return cfgs

    check_program(res, src, meta, make_cfgs, make_inputs, f'template:{name}:{variant}')


# ---------------------------------------------------------------------------

def shards(tier, seed):
    n_shards = 96 if tier == 'thorough' else 48
    per = 260 if tier == 'thorough' else 24
    out = [('gen', i, per, seed, tier) for i in range(n_shards)]
    nv = 6 if tier == 'thorough' else 2
    out += [('tmpl', ti, v, seed, tier) for ti in range(len(TEMPLATES)) for v in range(nv)]
    return out


def run_shard(shard):
    res = Result()
    if shard[0] == 'gen':
        _, i, per, seed, tier = shard
        for j in range(per):
            run_generated(res, seed, i, j, tier)
        return res
    if shard[0] == 'tmpl':
        _, ti, v, seed, tier = shard
        run_template(res, seed, ti, v, tier)
        return res
    raise ValueError(shard)


def replay(case):
    res = Result()
    src, cfg = case['src'], case['cfg']
    args = difftest.decode_args(case['args'])
    mod = load_module(src)
    try:
        fn = mod.main
        for_tops, _, _ = loop_tops(fn.ast)
        feats = set(case.get('feats', []))
        kval = getattr(mod, 'K', 2)
        k = c08_gen.factor_of(cfg, kval if isinstance(kval, int) else 2)
        check_config(res, fn, src, cfg, [(args, case.get('ctx'))], {}, feats, ['A'], k, case.get('origin', 'replay'), 'replay',
                     kval if isinstance(kval, int) else 2)
    finally:
        unload(mod)
    return [f for fl in res.failures.values() for f in fl]


def selftest():
    # 1. the differential harness sees a transform that drops the last iteration, and accepts the identity
    src = 'K = 2\n@fp.fpy\ndef main(t, n, i, m):\n    acc = i * K\n    for x in t:\n        acc = acc + x\n    return (acc, t)\n'
    mod = load_module(src)
    try:
        f = mod.main
        o = difftest.call(f, [[1, 2, 3], [0, 0, 0], 10, 0], None)
        assert o == ('value', ('T', 26, ('L', 1, 2, 3))), o
        bad = load_module(src.replace('for x in t:', 'for x in t[:len(t) - 1]:'))
        try:
            v = difftest.verdict(o, difftest.call(bad.main, [[1, 2, 3], [0, 0, 0], 10, 0], None))
            assert v[0] == 'differs', v
        finally:
            unload(bad)
        # 2. configurations resolve: every kind of `where` selects what the bookkeeping says
        loops = [dict(id=0, trip='A', parent=None), dict(id=1, trip=3, parent=0), dict(id=2, trip=None, parent=None)]
        assert c08_gen.selected_for_loops(loops, {'site': 0}) == [0, 1]
        assert c08_gen.selected_for_loops(loops, {'region': [1, 2]}, [0, 0, 1]) == [2]
        assert c08_gen.strict_status(loops, [0, 1], 3) == 'ok' and c08_gen.strict_status(loops, [0, 1], 2) == 'static-indivisible'
        assert c08_gen.strict_status(loops, [2], 2) is None
        g = apply_cfg(f, {'t': 'split', 'factor': 'K', 'where': {'site': 0}, 'strategy': 'PEEL'})
        assert difftest.ast_changed(f, g)
    finally:
        unload(mod)
