"""
C13 tracing interpreter: extends vlib.trace (nothing there is changed) with what the soundness
oracles of props/c13_analyses.py need.

  * observations are *snapshots*: a list/tuple value is copied structurally when the expression is
    evaluated, so a later element store through an alias cannot rewrite what was observed;
  * binding events also fire for `with ... as c` and once per comprehension element (comprehension
    variables are bindings, and they are scoped: the writer of a shadowed outer name is restored when
    the comprehension finishes);
  * every binding event records, for each local name, the *identity* of every list object reachable
    from its value through list elements and tuple fields (a `place`: (name, path, id)), and the
    statement that last wrote each name -- the data the alias oracle needs;
  * list objects returned by calls are remembered (aliasing through a callee is not one of the
    routes the property names).

Paths use fpy2.analysis.alias' part keys: None for "the elements of a list", an int for a tuple field.
"""

from __future__ import annotations

import ast as pyast
from fractions import Fraction

from fpy2.ast.fpyast import Call, ContextStmt, IndexedAssign, ListComp, Var
from fpy2.function import Function
from fpy2.interpret.value import from_value, to_value
from fpy2.number import Context, Float
from fpy2.utils import NamedId

from vlib.trace import MAX_OBS, Recorder, TracingCompiler, TracingInterpreter, _target_names

ELTS = None
MAX_PLACE_DEPTH = 3
MAX_FANOUT = 12


def snap(v):
    """Structural copy of an FPy value (scalars are immutable and shared)."""
    if isinstance(v, list):
        return [snap(x) for x in v]
    if isinstance(v, tuple):
        return tuple(snap(x) for x in v)
    return v


def places_of(value, path=(), out=None, depth=0):
    """[(path, id)] for every list object reachable from `value`."""
    if out is None:
        out = []
    if isinstance(value, list):
        out.append((path, id(value)))
        if depth < MAX_PLACE_DEPTH:
            for x in value[:MAX_FANOUT]:
                if isinstance(x, (list, tuple)):
                    places_of(x, path + (ELTS,), out, depth + 1)
    elif isinstance(value, tuple):
        if depth < MAX_PLACE_DEPTH:
            for i, x in enumerate(value):
                if isinstance(x, (list, tuple)):
                    places_of(x, path + (i,), out, depth + 1)
    return out


def _lists_in(value, out):
    if isinstance(value, list):
        out.append(value)
        for x in value:
            _lists_in(x, out)
    elif isinstance(value, tuple):
        for x in value:
            _lists_in(x, out)


MAX_BITS = 1 << 16


class ValueTooLarge(Exception):
    """A run is abandoned (skipped, counted) once a number outgrows MAX_BITS bits of significand or exponent
    range: exact arithmetic in a loop doubles the size of a product each trip, and a single multiplication of
    gigabyte integers cannot be interrupted.  Runs are bounded by size, never by time."""


def _check_size(v):
    if isinstance(v, Float):
        if v.c.bit_length() > MAX_BITS or abs(v.exp) > MAX_BITS:
            raise ValueTooLarge()
    elif isinstance(v, Fraction):
        if v.numerator.bit_length() > MAX_BITS or v.denominator.bit_length() > MAX_BITS:
            raise ValueTooLarge()


class Recorder13(Recorder):
    def __init__(self, func):
        super().__init__(func)
        self.binds = []            # (stmt idx, written names, [(name, path, id)], {name: writer idx})
        self.call_objs = []        # keeps call-returned lists alive so that ids stay unique
        self.call_ids = set()
        self.n_reads = {}

    def reset(self):
        super().reset()
        self.binds.clear()
        self.call_objs.clear()
        self.call_ids.clear()
        self.n_reads.clear()

    def on_expr(self, idx, value):
        _check_size(value)
        c = self.expr_count.get(idx, 0)
        self.expr_count[idx] = c + 1
        if c < MAX_OBS:
            self.expr_obs.setdefault(idx, []).append(snap(value))
        node = self.nodes[idx]
        if isinstance(node, Var):
            if len(self.reads) < self.max_events:
                self.reads.append((idx, self.last_writer.get(str(node.name), -1)))
        elif isinstance(node, Call):
            if not isinstance(value, Context):
                ls = []
                _lists_in(value, ls)
                for l in ls:
                    self.call_objs.append(l)
                    self.call_ids.add(id(l))
        return value

    def on_bind(self, idx, names, env):
        if isinstance(self.nodes[idx], IndexedAssign) and len(self.reads) < self.max_events:
            # `xs[i] = e` also *uses* the definition of xs that is current before the store
            self.reads.append((idx, self.last_writer.get(names[0], -1)))
        for n in names:
            self.last_writer[n] = idx
        if len(self.binds) < self.max_events:
            places = []
            for k, v in env.items():
                if isinstance(v, (list, tuple)) and not k.startswith('__'):
                    for path, i in places_of(v):
                        places.append((k, path, i))
            self.binds.append((idx, tuple(names), places, dict(self.last_writer)))

    # comprehension scoping
    def on_comp_enter(self, idx, names):
        saved = {n: self.last_writer.get(n) for n in names}
        for n in names:
            self.last_writer[n] = idx
        return saved

    def on_comp_exit(self, idx, saved, value):
        for n, w in saved.items():
            if w is None:
                self.last_writer.pop(n, None)
            else:
                self.last_writer[n] = w
        return value

    def on_comp_elt(self, idx, names, env, value=None):
        self.on_bind(idx, names, env)
        return value


class TracingCompiler13(TracingCompiler):
    def _const(self, v, attrs):
        return pyast.Constant(value=v, kind=None, **attrs)

    def _names_tuple(self, names, attrs):
        return pyast.Tuple(elts=[self._const(n, attrs) for n in names], ctx=pyast.Load(), **attrs)

    def _visit_list_comp(self, e: ListComp, ctx):
        out = super()._visit_list_comp(e, ctx)
        idx = self.rec.register(e)
        attrs = self._location_to_attributes(e.loc)
        names = []
        for t in e.targets:
            names += _target_names(t)
        # one binding event per element, fired before the element expression runs
        pre = self._hook_call('__vt_celt', [self._const(idx, attrs), self._names_tuple(names, attrs),
                                            self._hook_call('locals', [], attrs)], attrs)
        out.elt = pyast.Subscript(value=pyast.Tuple(elts=[pre, out.elt], ctx=pyast.Load(), **attrs),
                                  slice=self._const(1, attrs), ctx=pyast.Load(), **attrs)
        enter = self._hook_call('__vt_center', [self._const(idx, attrs), self._names_tuple(names, attrs)], attrs)
        return self._hook_call('__vt_cexit', [self._const(idx, attrs), enter, out], attrs)

    def _visit_statement(self, stmt, ctx):
        out = super()._visit_statement(stmt, ctx)
        if isinstance(stmt, ContextStmt) and isinstance(stmt.target, NamedId) and isinstance(out, pyast.Try):
            hook = self._bind_stmt(stmt, [str(stmt.target)])
            out.body.insert(3, hook)     # after: stash, switch to REAL, bind target + __ctx__
        return out


class TracingInterpreter13(TracingInterpreter):
    def eval(self, func: Function, args, ctx=None, *, convert: bool = True):
        if not isinstance(func, Function):
            raise TypeError(f'Expected Function, got `{func}`')
        if func.ast not in self.func_cache:
            rec = Recorder13(func.ast)
            compiler = TracingCompiler13(func.ast, func.env, rec)
            fn = compiler.compile()
            g = fn.__globals__
            g['__vt_expr'] = rec.on_expr
            g['__vt_bind'] = rec.on_bind
            g['__vt_celt'] = rec.on_comp_elt
            g['__vt_center'] = rec.on_comp_enter
            g['__vt_cexit'] = rec.on_comp_exit
            g['locals'] = locals
            self.func_cache[func.ast] = fn
            self.recs[id(func.ast)] = rec
        fn = self.func_cache[func.ast]
        ctx = self._func_ctx(func.ast, ctx)
        if convert:
            args = tuple(to_value(arg) for arg in args)
        res = fn(*args, __ctx__=ctx)
        return from_value(res) if convert else res
