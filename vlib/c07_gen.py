"""
C07 program generator: vlib.progen extended (by subclassing; progen itself is untouched) with the
statement shapes that constant folding, copy propagation and dead-code elimination feed on.

Extra productions ("idioms", each tags the program in `features`):

  copy-redef      y = x ; x (or y) redefined straight / in a branch / in a loop / by a for-target / by a
                  comprehension variable ; then both are used.   Also with lists (ys = xs ; xs = [...]).
  ctx-const       constants computed from literals and captured globals under a statically known context
                  (`with fp.MPFloatContext(2, fp.RM.RTZ): k = 1 / 3`), chains of them through nested contexts,
                  constant conditions, constants merged at a phi (incl. +0 / -0), loop-carried constants.
  dead-store      assignments nobody reads: plain, overwritten, in a branch, tuple-destructuring leaves,
                  indexed reads, helper calls (incl. helpers that mutate their list argument), dead lists
                  that are stored into.
  alias-store     ys = xs ; [t = xs[i]] ; ys[i] = e (or xs[i] = e, or h(ys) with a mutating helper),
                  straight / in a branch / in a loop ; then xs[i] is read.  xs may be a parameter, a local
                  list of computed values or a local list of constants.
  const-assert    assert over constants (folds to `assert True`), assert over inputs that holds.
  shadow          a captured global re-bound locally before use; loop/comprehension targets re-binding a local.
  tuple-idiom     (a, b) = tuple literal / tuple variable / helper result, partially constant, with `_` targets:
                  loop-carried components read later in the body, arg-max / running-min-with-index (targets read
                  only through the loop merge), an `if` inside an `if` or a loop (phi of a phi), while counters.

All random choices go through the progen Chooser, so the generator is a pure function of the seed.
"""

from __future__ import annotations

from vlib import progen
from vlib.progen import Gen, Profile, Program, _Fn

# captured globals available to every generated module (name, python text, progen type)
GLOBALS = [
    ('K0', '2.5', 'R'),
    ('K1', '3', 'R'),
    ('K2', '0.1', 'R'),
    ('KC', 'fp.MPFloatContext(3, fp.RM.RTZ)', 'C'),
    ('KD', 'fp.IEEEContext(4, 8, fp.RM.RAZ)', 'C'),
]
GLOBAL_SRC = ''.join(f'{n} = {t}\n' for n, t, _ in GLOBALS) + '\n'

CONST_LITS = ['1', '3', '7', '10', '0.1', '0.3', '1.5', '2.75', '1e-3', '100', '0.0', '-0.0', '5', '0.7', '255', '1e3']
SMALL_CTXS = [
    'fp.MPFloatContext(2, fp.RM.{rm})', 'fp.MPFloatContext(3, fp.RM.{rm})', 'fp.MPFloatContext(5, fp.RM.{rm})',
    'fp.IEEEContext(3, 6, fp.RM.{rm})', 'fp.IEEEContext(4, 8, fp.RM.{rm})', 'fp.MPFixedContext(-2, fp.RM.{rm})',
    'fp.MPSFloatContext(4, -3, fp.RM.{rm})', 'fp.FixedContext(True, -2, 8, fp.RM.{rm}, fp.OV.SATURATE)',
]


def c07_profile(variant: int = 0) -> Profile:
    p = Profile(name='c07')
    p.max_stmts = 5
    p.expr_depth = 2
    p.max_depth = 2
    if variant % 4 == 1:
        p.max_stmts = 3
        p.expr_depth = 1
    if variant % 4 == 2:
        p.lists = False
        p.tuples = False
    if variant % 4 == 3:
        p.max_stmts = 7
        p.max_depth = 3
    return p


class C07Gen(Gen):
    def __init__(self, ch, profile=None, idiom_rate=0.45, use_globals=True):
        super().__init__(ch, profile or c07_profile())
        self.idiom_rate = idiom_rate
        self.use_globals = use_globals
        self._in_idiom = 0
        self._cur_fn = None
        self._globals_read = set()      # captured globals read so far in the function being generated

    def _glob(self, names):
        n = self.ch.choice(names)
        self._globals_read.add(n)
        return n

    # -- small helpers -------------------------------------------------------
    def rm(self):
        return self.ch.choice(self.p.rm_pool)

    def small_ctx(self, fn=None):
        ch = self.ch
        if self.use_globals and ch.bool(0.15):
            self.features.add('global-ctx')
            return self._glob(['KC', 'KD'])
        if ch.bool(0.15):
            return ch.choice(['fp.FP16', 'fp.FP32', 'fp.FP64', 'fp.REAL'])
        return ch.choice(SMALL_CTXS).format(rm=self.rm())

    def clit(self):
        ch = self.ch
        if self.use_globals and ch.bool(0.15):
            self.features.add('global-const')
            return self._glob(['K0', 'K1', 'K2'])
        return ch.choice(CONST_LITS)

    def const_expr(self, consts, d=1):
        """An expression over literals, globals and already-constant locals."""
        ch = self.ch
        def leaf():
            if consts and ch.bool(0.5):
                return ch.choice(consts)
            return self.clit()
        if d <= 0:
            return leaf()
        k = ch.weighted([(10, 'bin'), (3, 'div'), (2, 'neg'), (2, 'sqrt'), (2, 'fma'), (2, 'round'), (1, 'minmax'), (1, 'ifexp'), (1, 'abs')])
        a, b = self.const_expr(consts, d - 1), self.const_expr(consts, d - 1)
        if k == 'bin':
            return f'({a} {ch.choice(["+", "-", "*"])} {b})'
        if k == 'div':
            return f'({a} / {ch.choice(["3", "7", "10", "0.3"])})'
        if k == 'neg':
            return f'(-{a})'
        if k == 'sqrt':
            return f'fp.sqrt(abs({a}))'
        if k == 'fma':
            return f'fp.fma({a}, {b}, {leaf()})'
        if k == 'round':
            return f'fp.round({a})'
        if k == 'minmax':
            return f'{ch.choice(["min", "max"])}({a}, {b})'
        if k == 'abs':
            return f'abs({a})'
        return f'({a} if ({leaf()} {ch.choice(["<", ">=", "=="])} {leaf()}) else {b})'

    def rvar(self, fn, allow_protected=False):
        vs = [v for v in self.vars_of(fn, 'R') if allow_protected or v not in fn.protected]
        return self.ch.choice(vs) if vs else None

    def upd(self, fn, name):
        """A right-hand side redefining `name` from itself."""
        ch = self.ch
        e = self.expr_R(fn, 1)
        return ch.choice([f'{name} + {e}', f'{name} * {e}', f'{name} - {e}', f'{e} - {name}', f'{name} + 1', f'{name} * 2', f'-{name}'])

    # -- expressions: let captured globals appear in ordinary expressions -------
    def lit(self):
        if self.use_globals and self.ch.bool(0.06):
            self.features.add('global-const')
            return self._glob(['K0', 'K1', 'K2'])
        return super().lit()

    # -- statements ----------------------------------------------------------
    def stmt(self, fn: _Fn, ind, depth, out, in_loop, in_with):
        ch = self.ch
        if fn is not self._cur_fn:
            self._cur_fn = fn
            self._globals_read = set()
        if self._in_idiom == 0 and ch.bool(self.idiom_rate):
            opts = [(10, 'copy'), (10, 'const'), (8, 'dead'), (2, 'cassert'), (3, 'shadow')]
            if self.p.tuples:
                opts.append((9, 'tuple'))
            if self.p.lists:
                opts += [(10, 'alias'), (3, 'copy-list')]
            k = ch.weighted(opts)
            self._in_idiom += 1
            try:
                done = getattr(self, 'idiom_' + k.replace('-', '_'))(fn, ind, depth, out, in_loop, in_with)
            finally:
                self._in_idiom -= 1
            if done:
                return False
        return super().stmt(fn, ind, depth, out, in_loop, in_with)

    # --- copy then redefine -------------------------------------------------
    def idiom_copy(self, fn, ind, depth, out, in_loop, in_with):
        ch = self.ch
        x = self.rvar(fn)
        if x is None or ch.bool(0.2):
            x = fn.fresh('v')
            out.append(f'{ind}{x} = {self.expr_R(fn, 1)}')
            fn.env[x] = 'R'
        y = fn.fresh('v')
        out.append(f'{ind}{y} = {x}')
        fn.env[y] = 'R'
        if ch.bool(0.15):           # copy chain
            y2 = fn.fresh('v')
            out.append(f'{ind}{y2} = {y}')
            fn.env[y2] = 'R'
            y = y2
        r = x if ch.bool(0.7) else y
        shapes = [(4, 'straight')]
        if depth > 0:
            shapes += [(6, 'if1'), (3, 'ifelse'), (5, 'for'), (4, 'loop-inner')]
            if fn.safe and self.p.while_loops:
                shapes.append((2, 'while'))
            if self.vars_of(fn, 'L'):
                shapes += [(3, 'for-target'), (2, 'comp-target')]
        sh = ch.weighted(shapes)
        i2 = ind + '    '
        protected = set(fn.protected)
        fn.protected |= {x, y}
        if sh == 'straight':
            out.append(f'{ind}{r} = {self.upd(fn, r)}')
        elif sh == 'if1':
            out.append(f'{ind}if {self.expr_B(fn, 1)}:')
            out.append(f'{i2}{r} = {self.upd(fn, r)}')
        elif sh == 'ifelse':
            out.append(f'{ind}if {self.expr_B(fn, 1)}:')
            out.append(f'{i2}{r} = {self.upd(fn, r)}')
            out.append(f'{ind}else:')
            out.append(f'{i2}{r} = {self.upd(fn, r)}' if ch.bool(0.5) else f'{i2}pass')
        elif sh == 'for':
            i = fn.fresh('i')
            out.append(f'{ind}for {i} in range({ch.int(0, 3)}):')
            out.append(f'{i2}{r} = {self.upd(fn, r)}')
        elif sh == 'while':
            c = fn.fresh('k')
            out.append(f'{ind}{c} = {ch.int(0, 3)}')
            out.append(f'{ind}while {c} > 0:')
            out.append(f'{i2}{r} = {self.upd(fn, r)}')
            out.append(f'{i2}{c} = {c} - 1')
        elif sh == 'loop-inner':
            # z = x ; x = f(x) ; w = z   inside a loop: the copy is taken and used within one iteration
            w, z, i = fn.fresh('v'), fn.fresh('v'), fn.fresh('i')
            out.append(f'{ind}{w} = {self.lit()}')
            out.append(f'{ind}for {i} in range({ch.int(1, 3)}):')
            out.append(f'{i2}{z} = {r}')
            out.append(f'{i2}{r} = {self.upd(fn, r)}')
            out.append(f'{i2}{w} = {ch.choice([z, f"{w} + {z}", f"{z} * {r}"])}')
            fn.env[w] = 'R'
        elif sh == 'for-target':
            l = ch.choice(self.vars_of(fn, 'L'))
            acc = fn.fresh('v')
            out.append(f'{ind}{acc} = 0')
            out.append(f'{ind}for {x} in {l}:')
            out.append(f'{i2}{acc} = {acc} + {y} * {x}')
            fn.env[acc] = 'R'
            self.features.add('shadow')
        elif sh == 'comp-target':
            l = ch.choice(self.vars_of(fn, 'L'))
            acc = fn.fresh('v')
            out.append(f'{ind}{acc} = sum([{y} {ch.choice(["+", "*", "-"])} {x} for {x} in {l}])')
            fn.env[acc] = 'R'
            self.features.add('shadow')
        fn.protected = protected
        u, _ = self.new_or_old(fn, 'R', 'v')
        if u in (x, y):
            u = fn.fresh('v')
        out.append(f'{ind}{u} = {ch.choice([f"{y} + {x}", f"{y} - {x}", f"{y} * {x}", f"fp.fma({y}, 1, {x})", y])}')
        fn.env[u] = 'R'
        self.features.add('copy-redef')
        self.features.add('copy-redef:' + sh)
        return True

    def idiom_copy_list(self, fn, ind, depth, out, in_loop, in_with):
        ch = self.ch
        ls = [l for l in self.vars_of(fn, 'L') if fn.len_lb.get(l, 0) >= 1]
        if not ls:
            return False
        xs = ch.choice(ls)
        n = fn.len_lb[xs]
        ys = fn.fresh('xs')
        out.append(f'{ind}{ys} = {xs}')
        fn.env[ys] = 'L'
        fn.len_lb[ys] = n
        new = ch.choice([f'[{", ".join(self.expr_R(fn, 1) for _ in range(n))}]', f'[e0 + 1 for e0 in {xs}]', f'{xs}[:]'])
        if depth > 0 and ch.bool(0.5):
            out.append(f'{ind}if {self.expr_B(fn, 1)}:')
            out.append(f'{ind}    {xs} = {new}')
        else:
            out.append(f'{ind}{xs} = {new}')
        if ch.bool(0.5):
            out.append(f'{ind}{xs}[0] = {self.expr_R(fn, 1)}')
        u = fn.fresh('v')
        out.append(f'{ind}{u} = {ys}[0] + {xs}[{ch.int(0, n - 1)}]')
        fn.env[u] = 'R'
        self.features.add('copy-redef')
        self.features.add('copy-redef:list')
        return True

    # --- constants under contexts ---------------------------------------------
    def idiom_const(self, fn, ind, depth, out, in_loop, in_with):
        ch = self.ch
        shapes = [(6, 'chain')]
        if depth > 0:
            shapes += [(8, 'with'), (4, 'phi'), (4, 'loop'), (3, 'cond'), (3, 'nested'), (3, 'while-nested')]
        sh = ch.weighted(shapes)
        i2, i3 = ind + '    ', ind + '        '
        consts = []

        def chain(indent, n):
            for _ in range(n):
                k = fn.fresh('k')
                out.append(f'{indent}{k} = {self.const_expr(consts, ch.int(0, 2))}')
                consts.append(k)

        if sh == 'chain':
            # in the current context (statically known only inside a `with` or a function declaring ctx)
            chain(ind, ch.int(1, 3))
        elif sh == 'with':
            asn = f' as {fn.fresh("c")}' if ch.bool(0.2) else ''
            out.append(f'{ind}with {self.small_ctx(fn)}{asn}:')
            chain(i2, ch.int(1, 3))
        elif sh == 'nested':
            out.append(f'{ind}with {self.small_ctx(fn)}:')
            chain(i2, ch.int(1, 2))
            out.append(f'{i2}with {self.small_ctx(fn)}:')
            chain(i3, ch.int(1, 2))
            if ch.bool(0.5):
                chain(i2, 1)
        elif sh == 'phi':
            wrap = ch.bool(0.7)
            j = i2 if wrap else ind
            j2 = j + '    '
            if wrap:
                out.append(f'{ind}with {self.small_ctx(fn)}:')
            k = fn.fresh('k')
            form = ch.int(0, 3)
            a = self.const_expr(consts, 1)
            b = {0: a, 1: self.const_expr(consts, 1), 2: None, 3: None}[form]
            if form == 2:           # zeros of either sign
                a, b = ch.choice([('0.0', '-0.0'), ('-0.0', '0.0'), ('0', '-0.0'), ('0.0 * 1', '-0.0 * 1'), ('-0.0', '0 * -1')])
            if form == 3:           # if-without-else over a constant
                out.append(f'{j}{k} = {a}')
                out.append(f'{j}if {self.expr_B(fn, 1)}:')
                out.append(f'{j2}{k} = {ch.choice([a, self.const_expr(consts, 1), "-" + k, k + " * 1"])}')
            else:
                out.append(f'{j}if {self.expr_B(fn, 1)}:')
                out.append(f'{j2}{k} = {a}')
                out.append(f'{j}else:')
                out.append(f'{j2}{k} = {b}')
            consts.append(k)
            if wrap and ch.bool(0.5):
                k2 = fn.fresh('k')
                out.append(f'{j}{k2} = {ch.choice([k, f"{k} * 1", f"{k} + 0", f"fp.copysign(1, {k})", f"-{k}"])}')
                consts.append(k2)
        elif sh == 'loop':
            wrap = ch.bool(0.8)
            j = i2 if wrap else ind
            j2 = j + '    '
            if wrap:
                out.append(f'{ind}with {self.small_ctx(fn)}:')
            k = fn.fresh('k')
            out.append(f'{j}{k} = {ch.choice(["0.0", "-0.0", "1", self.clit()])}')
            i = fn.fresh('i')
            hdr = ch.choice([f'range({ch.int(0, 3)})'] + [f'range(len({l}))' for l in self.vars_of(fn, "L")[:1]])
            out.append(f'{j}for {i} in {hdr}:')
            out.append(f'{j2}{k} = {ch.choice(["-" + k, k + " * 1", k + " + 0", k, k + " * -1", "0 - " + k, k + " / 3", "abs(" + k + ")"])}')
            consts.append(k)
        elif sh == 'while-nested':
            # a while loop inside another loop whose condition is over a variable that is constant on entry the
            # first time round only; the body zeroes it, so every entry runs at most one iteration
            k, acc, i = fn.fresh('k'), fn.fresh('v'), fn.fresh('i')
            k0, body = ch.weighted([(4, ('0', k + ' - ' + k)), (3, ('-1', '-1')), (3, ('-1', k + ' * 0 - 1')), (1, ('0', '-1')), (1, ('1', k + ' - ' + k))])
            out.append(f'{ind}with {ch.choice(["fp.FP64", "fp.FP32", "fp.MPFloatContext(5, fp.RM." + self.rm() + ")", "fp.IEEEContext(4, 8, fp.RM." + self.rm() + ")"])}:')
            out.append(f'{i2}{k} = {k0}')
            out.append(f'{i2}{acc} = {self.expr_R(fn, 0)}')
            out.append(f'{i2}for {i} in range({ch.int(1, 3)}):')
            out.append(f'{i3}while {k} {ch.choice(["> 0", "> 0.5", ">= 0.5", ">= 1"])}:')      # false for k in {0, -1}
            out.append(f'{i3}    {k} = {body}')
            out.append(f'{i3}    {acc} = {acc} {ch.choice(["+", "-", "*"])} {self.expr_R(fn, 0)}')
            out.append(f'{i3}{k} = {ch.choice(["2", "1", "3", "0", k + " + 2"])}')
            u, _ = self.new_or_old(fn, 'R', 'v')
            out.append(f'{ind}{u} = {acc}')
            fn.env[u] = 'R'
            fn.env[acc] = 'R'
            fn.env[k] = 'R'
            fn.protected.add(k)
            self.features.add('while')
        elif sh == 'cond':
            out.append(f'{ind}with {self.small_ctx(fn)}:')
            chain(i2, 1)
            b = fn.fresh('b')
            out.append(f'{i2}{b} = {consts[0]} {ch.choice(["<", "<=", ">", "==", "!="])} {self.const_expr(consts, 1)}')
            v, _ = self.new_or_old(fn, 'R', 'v')
            alt = fn.fresh('v')
            out.append(f'{i2}{alt} = {self.expr_R(fn, 1)}')
            out.append(f'{i2}if {b}:')
            out.append(f'{i3}{alt} = {self.expr_R(fn, 1)}')
            if ch.bool(0.5):
                out.append(f'{i2}else:')
                out.append(f'{i3}{alt} = {self.expr_R(fn, 1)}')
            out.append(f'{ind}{v} = {alt}')
            fn.env[v] = 'R'
        # the constants are used afterwards, mixed with inputs, in the enclosing context
        if consts:
            for k in consts:
                fn.env[k] = 'R'
                fn.protected.add(k)     # keep them constant for later idioms / statements
            u, _ = self.new_or_old(fn, 'R', 'v')
            if u in consts:
                u = fn.fresh('v')
            k = ch.choice(consts)
            other = self.expr_R(fn, 1)
            out.append(f'{ind}{u} = {ch.choice([f"{k} * {other}", f"{k} + {other}", k, f"fp.copysign({other}, {k})", f"{other} / {k}"])}')
            fn.env[u] = 'R'
        self.features.add('ctx-const')
        self.features.add('ctx-const:' + sh)
        return True

    # --- dead stores ---------------------------------------------------------------
    def idiom_dead(self, fn, ind, depth, out, in_loop, in_with):
        ch = self.ch
        t = fn.fresh('d')
        ls = [l for l in self.vars_of(fn, 'L') if fn.len_lb.get(l, 0) >= 1] if self.p.lists else []
        opts = [(6, 'plain'), (4, 'overwrite'), (3, 'tuple')]
        if depth > 0:
            opts.append((4, 'branch'))
        if ls:
            opts += [(5, 'index'), (4, 'deadlist')]
        is_helper = fn.name in [h[0] for h in self.helpers]
        calls = [h for h in self.helpers if h[2] == 'R' and not is_helper and fn.name != h[0]]
        if calls and fn.is_main:
            opts.append((10, 'call'))
        k = ch.weighted(opts)
        if k == 'plain':
            out.append(f'{ind}{t} = {self.expr_R(fn, 2)}')
        elif k == 'overwrite':
            out.append(f'{ind}{t} = {self.expr_R(fn, 1)}')
            out.append(f'{ind}{t} = {self.expr_R(fn, 1)}')
            if ch.bool(0.6):
                fn.env[t] = 'R'
        elif k == 'tuple':
            p, q = fn.fresh('v'), fn.fresh('d')
            form = ch.int(0, 2)
            if form == 0:
                out.append(f'{ind}{p}, {q} = ({self.expr_R(fn, 1)}, {self.expr_R(fn, 1)})')
                fn.env[p] = 'R'
            elif form == 1:
                out.append(f'{ind}{p}, _ = ({self.expr_R(fn, 1)}, {self.expr_R(fn, 1)})')
                fn.env[p] = 'R'
            else:
                out.append(f'{ind}{p}, {q} = ({self.expr_R(fn, 1)}, {self.expr_R(fn, 1)})')     # both dead
            self.features.add('tuple-destructure')
        elif k == 'branch':
            out.append(f'{ind}if {self.expr_B(fn, 1)}:')
            out.append(f'{ind}    {t} = {self.expr_R(fn, 1)}')
        elif k == 'index':
            l = ch.choice(ls)
            out.append(f'{ind}{t} = {l}[{self.index_of(fn, l)}]')
            self.features.add('dead-indexed-read')
        elif k == 'deadlist':
            n = ch.int(1, 3)
            dl = fn.fresh('ds')
            out.append(f'{ind}{dl} = {ch.choice(["[" + ", ".join(self.expr_R(fn, 1) for _ in range(n)) + "]", ch.choice(ls)])}')
            out.append(f'{ind}{dl}[0] = {self.expr_R(fn, 1)}')
            self.features.add('dead-list-store')
        elif k == 'call':
            h = ch.choice(calls)
            form = ch.int(0, 2)
            seen_list = None
            cands = [l for l in self.vars_of(fn, 'L') if all(fn.len_lb.get(l, 0) >= v for v in h[5].values())]
            if h[4] and cands:
                # a helper that writes into its list argument: hand it a list that is read afterwards
                seen_list = ch.choice(cands)
                call = f'{h[0]}({", ".join(seen_list if pt == "L" else self.expr_R(fn, 0) for _, pt in h[1])})'
                self.features.add('helper-call')
            else:
                call = self.call_text(fn, h, 1)
            if form == 0 or depth <= 0:
                out.append(f'{ind}{t} = {call}')
            elif form == 1:
                out.append(f'{ind}if {self.expr_B(fn, 1)}:')
                out.append(f'{ind}    {t} = {call}')
            else:
                out.append(f'{ind}{t} = {self.lit()}')
                out.append(f'{ind}if {self.expr_B(fn, 1)}:')
                out.append(f'{ind}    {t} = {call}')
            self.features.add('dead-call')
            if h[4]:
                self.features.add('dead-call-mutating')
            if seen_list is not None:
                u = fn.fresh('v')
                out.append(f'{ind}{u} = sum({seen_list})')
                fn.env[u] = 'R'
        self.features.add('dead-store')
        return True

    # --- stores through aliases --------------------------------------------------------
    def idiom_alias(self, fn, ind, depth, out, in_loop, in_with):
        ch = self.ch
        ls = [l for l in self.vars_of(fn, 'L') if fn.len_lb.get(l, 0) >= 1]
        if ls and ch.bool(0.55):
            xs = ch.choice(ls)
            kind = 'existing'
        else:
            xs = fn.fresh('xs')
            n = ch.int(1, 3)
            if ch.bool(0.5):
                out.append(f'{ind}{xs} = [{", ".join(self.clit() for _ in range(n))}]')
                kind = 'const-list'
            else:
                out.append(f'{ind}{xs} = [{", ".join(self.expr_R(fn, 1) for _ in range(n))}]')
                kind = 'local-list'
            fn.env[xs] = 'L'
            fn.len_lb[xs] = n
        n = fn.len_lb[xs]
        i = ch.int(0, n - 1)
        ys = fn.fresh('xs')
        true_copy = ch.bool(0.12)
        out.append(f'{ind}{ys} = {xs}[:]' if true_copy else f'{ind}{ys} = {xs}')
        fn.env[ys] = 'L'
        fn.len_lb[ys] = n
        t = None
        if ch.bool(0.5):
            t = fn.fresh('v')
            out.append(f'{ind}{t} = {ch.choice([xs, ys])}[{i}]')
            fn.env[t] = 'R'
        w, r = (ys, xs) if ch.bool(0.7) else (xs, ys)      # written through / read through
        mut_helpers = [h for h in self.helpers if h[4] and fn.is_main and len([p for p in h[1] if p[1] == 'L']) == 1
                       and all(v <= n for v in h[5].values())]
        e = self.expr_R(fn, 1)
        store = f'{w}[{i}] = {e}'
        shp = ch.weighted([(6, 'straight')] + ([(3, 'if1'), (3, 'for')] if depth > 0 else []))
        if mut_helpers and ch.bool(0.4):
            h = ch.choice(mut_helpers)
            args = [w if pt == 'L' else self.expr_R(fn, 0) for _, pt in h[1]]
            d = fn.fresh('d')
            store = f'{d} = {h[0]}({", ".join(args)})'
            if shp == 'straight' and h[2] == 'R' and ch.bool(0.5):
                fn.env[d] = 'R'
            self.features.add('alias-store:helper')
            self.features.add('helper-call')
        if shp == 'straight':
            out.append(f'{ind}{store}')
        elif shp == 'if1':
            out.append(f'{ind}if {self.expr_B(fn, 1)}:')
            out.append(f'{ind}    {store}')
        else:
            j = fn.fresh('i')
            out.append(f'{ind}for {j} in range({ch.int(0, 2)}):')
            out.append(f'{ind}    {store}')
        u = fn.fresh('v')
        out.append(f'{ind}{u} = {r}[{i}]' + (f' + {t}' if t is not None and ch.bool(0.6) else ''))
        fn.env[u] = 'R'
        self.features.add('alias-store')
        self.features.add('alias-store:' + kind)
        if true_copy:
            self.features.add('alias-store:true-copy')
        return True

    # --- tuple destructuring in loops and nested branches -------------------------------------------
    def idiom_tuple(self, fn, ind, depth, out, in_loop, in_with):
        """`(a, b) = <tuple literal | tuple variable | helper result>` with loop-carried components, partially
        constant right-hand sides, `_` targets, and targets that are read only through an outer merge
        (arg-max / running-min-with-index, an `if` inside an `if`)."""
        ch = self.ch
        shapes = [(3, 'straight')]
        if depth > 0:
            shapes += [(7, 'carried'), (7, 'argmax'), (6, 'nested-if'), (3, 'if-in-loop')]
            if fn.safe and self.p.while_loops:
                shapes.append((3, 'while'))
        sh = ch.weighted(shapes)
        wrap = depth > 0 and ch.bool(0.6)           # under a statically known context, so that operations fold
        j = ind
        if wrap:
            out.append(f'{ind}with {ch.choice(["fp.FP64", "fp.FP64", "fp.FP32", "fp.MPFloatContext(5, fp.RM." + self.rm() + ")", "fp.IEEEContext(5, 16, fp.RM." + self.rm() + ")"])}:')
            j = ind + '    '
        j2, j3 = j + '    ', j + '        '
        helpers_T = [h for h in self.helpers if h[2] == 'T' and fn.is_main and all(pt == 'R' for _, pt in h[1])]

        def rhs(e1, e2):
            """the pair (e1, e2) as a literal, through a tuple variable (emitted at indent `at`), or from a helper"""
            return f'({e1}, {e2})'

        def destructure(at, a, b, e1, e2, allow_helper=True):
            form = ch.weighted([(6, 'lit'), (3, 'var')] + ([(3, 'helper')] if helpers_T and allow_helper else []))
            tgt = ch.choice([f'({a}, {b})', f'{a}, {b}'])
            if form == 'lit':
                out.append(f'{at}{tgt} = ({e1}, {e2})')
            elif form == 'var':
                t = fn.fresh('t')
                out.append(f'{at}{t} = ({e1}, {e2})')
                out.append(f'{at}{tgt} = {t}')
            else:
                h = ch.choice(helpers_T)
                args = [e1, e2] + [self.expr_R(fn, 0) for _ in h[1]]
                out.append(f'{at}{tgt} = {h[0]}({", ".join(args[:len(h[1])])})')
                self.features.add('helper-call')
                self.features.add('tuple:helper-result')
            self.features.add('tuple:' + form)

        cop = ch.choice(['+', '-', '*'])
        if sh == 'straight':
            a, b = fn.fresh('v'), fn.fresh('v')
            destructure(j, a, ch.choice([b, '_']), self.expr_R(fn, 1), ch.choice([self.clit(), self.expr_R(fn, 1)]))
            fn.env[a] = 'R'
            u = fn.fresh('v')
            out.append(f'{ind}{u} = {a} {cop} {self.expr_R(fn, 0)}')
            fn.env[u] = 'R'
        elif sh == 'carried':
            # (a, b) = (a + 1.0, 2.0) in a loop: `a` is constant on the first iteration only; it is read later in the body
            a, b, s_, i = fn.fresh('v'), fn.fresh('v'), fn.fresh('v'), fn.fresh('i')
            out.append(f'{j}{a} = {ch.choice(["1.0", "0.0", "1", "2.5", "-0.0", self.clit()])}')
            out.append(f'{j}{s_} = {ch.choice(["0.0", "0", self.expr_R(fn, 0)])}')
            hdr = ch.choice([f'range({ch.int(1, 4)})', f'range({ch.int(2, 3)})'] + [l for l in self.vars_of(fn, 'L')][:1])
            out.append(f'{j}for {i} in {hdr}:')
            step = ch.choice([f'{a} + 1.0', f'{a} * 2', f'{a} - 0.5', f'-{a}', f'{a} + {self.clit()}'])
            other = ch.choice([self.clit(), '2.0', self.expr_R(fn, 0)])
            if ch.bool(0.5):
                destructure(j2, a, b, step, other, allow_helper=False)
            else:
                destructure(j2, b, a, other, step, allow_helper=False)
            out.append(f'{j2}{s_} = {s_} {cop} {ch.choice([f"{a} * {b}", a, f"{a} + {b}", f"{b} - {a}"])}')
            fn.env[a] = 'R'
            fn.env[s_] = 'R'
            u = fn.fresh('v')
            out.append(f'{ind}{u} = {ch.choice([s_, f"{s_} + {a}"])}')
            fn.env[u] = 'R'
        elif sh == 'argmax':
            # running max / min with index: the targets are read only through the loop merge
            best, idx, i, x = fn.fresh('v'), fn.fresh('v'), fn.fresh('i'), fn.fresh('i')
            ls = self.vars_of(fn, 'L')
            out.append(f'{j}{best} = {ch.choice(["-1.0", "0.0", "1e3", "-100", self.expr_R(fn, 0)])}')
            out.append(f'{j}{idx} = {ch.choice(["-1.0", "-1", "0"])}')
            if ls and ch.bool(0.75):
                out.append(f'{j}for {i}, {x} in enumerate({ch.choice(ls)}):')
                elem = x
            else:
                out.append(f'{j}for {i} in range({ch.int(1, 4)}):')
                elem = f'({i} {ch.choice(["*", "-", "+"])} {self.expr_R(fn, 0)})'
            out.append(f'{j2}if {elem} {ch.choice([">", "<", ">=", "<="])} {best}:')
            second = ch.choice([i, i, f'{i} + 1', f'{idx} + 1'])
            tgt2 = idx if ch.bool(0.85) else '_'
            destructure(j3, best, tgt2, elem, second)
            if ch.bool(0.3):
                out.append(f'{j2}else:')
                destructure(j3, best, idx, ch.choice([best, f'{best} {cop} 1']), idx, allow_helper=False)
            fn.env[best] = 'R'
            fn.env[idx] = 'R'
            u = fn.fresh('v')
            out.append(f'{ind}{u} = {ch.choice([idx, best, f"{idx} {cop} {best}", f"{idx} + 0"])}')
            fn.env[u] = 'R'
        elif sh in ('nested-if', 'if-in-loop'):
            a, b = fn.fresh('v'), fn.fresh('v')
            out.append(f'{j}{a} = {ch.choice(["0.0", self.clit(), self.expr_R(fn, 0)])}')
            out.append(f'{j}{b} = {ch.choice(["0.0", self.clit(), self.expr_R(fn, 0)])}')
            c1, c2 = self.expr_B(fn, 0), self.expr_B(fn, 0)
            if ch.bool(0.4):
                v = self.expr_R(fn, 0)
                c1 = ch.choice([f'({v} == {v})', f'(not fp.isnan({v}))', f'({v} <= {v})'])
            if sh == 'nested-if':
                out.append(f'{j}if {c1}:')
            else:
                out.append(f'{j}for {fn.fresh("i")} in range({ch.int(1, 3)}):')
            out.append(f'{j2}if {c2}:')
            destructure(j3, a, b, self.expr_R(fn, 1), ch.choice([self.expr_R(fn, 1), self.clit(), f'{a} {cop} 1']))
            if ch.bool(0.25):
                out.append(f'{j2}else:')
                destructure(j3, a, '_', self.expr_R(fn, 1), b, allow_helper=False)
            fn.env[a] = 'R'
            fn.env[b] = 'R'
            u = fn.fresh('v')
            out.append(f'{ind}{u} = {ch.choice([f"{a} {cop} {b}", a, b])}')
            fn.env[u] = 'R'
        elif sh == 'while':
            acc, k = fn.fresh('v'), fn.fresh('k')
            out.append(f'{j}{acc} = {ch.choice(["0.0", "1", self.expr_R(fn, 0)])}')
            out.append(f'{j}{k} = {ch.int(0, 3)}')
            out.append(f'{j}while {k} > 0:')
            if ch.bool(0.5):
                destructure(j2, acc, k, f'{acc} {cop} {ch.choice([k, self.expr_R(fn, 0), "2"])}', f'{k} - 1', allow_helper=False)
            else:
                destructure(j2, k, acc, f'{k} - 1', f'{acc} {cop} {ch.choice([k, self.expr_R(fn, 0), "2"])}', allow_helper=False)
            fn.env[acc] = 'R'
            fn.env[k] = 'R'
            fn.protected.add(k)
            u = fn.fresh('v')
            out.append(f'{ind}{u} = {acc} + {k}')
            fn.env[u] = 'R'
            self.features.add('while')
        self.features.add('tuple-destructure')
        self.features.add('tuple-idiom')
        self.features.add('tuple-idiom:' + sh)
        return True

    # --- asserts ------------------------------------------------------------------------
    def idiom_cassert(self, fn, ind, depth, out, in_loop, in_with):
        ch = self.ch
        form = ch.int(0, 2)
        if form == 0:
            out.append(f'{ind}assert {ch.choice(["1 < 2", "K1 == 3", "0.5 <= 0.5", "not (1 > 2)", "True"])}')
        elif form == 1:
            v = self.expr_R(fn, 1)
            out.append(f'{ind}assert {v} == {v} or fp.isnan({v})')
        else:
            out.append(f'{ind}with fp.FP64:')
            out.append(f'{ind}    assert 1 / 3 < 0.5, "unreachable"')
        self.features.add('const-assert')
        return True

    # --- shadowing of captured globals -------------------------------------------------------
    def idiom_shadow(self, fn, ind, depth, out, in_loop, in_with):
        # A captured global may be re-bound locally only before any read of it in this function
        # (FPy rejects `y = K0; K0 = ...`), and only at the top level of the body (so it is bound on every path).
        if not self.use_globals or ind != '    ' or in_loop:
            return False
        cands = [k for k in ('K0', 'K1', 'K2') if k not in self._globals_read and k not in fn.env]
        if not cands:
            return False
        k = self.ch.choice(cands)
        e = self.expr_R(fn, 1)
        if k in self._globals_read:      # the right-hand side itself read it
            return False
        out.append(f'{ind}{k} = {e}')
        fn.env[k] = 'R'
        self._globals_read.add(k)
        self.features.add('shadow')
        self.features.add('shadow:global')
        return True

    # -- functions / program -----------------------------------------------------------------------
    def program(self) -> Program:
        if self.p.tuples and self.ch.bool(0.5):
            # a helper returning a pair, for `(a, b) = hp(x, i)`
            deco = self.ch.choice(['@fp.fpy', '@fp.fpy', '@fp.fpy(ctx=fp.FP64)'])
            body = self.ch.choice(['(p0, p1)', '(p0, p1 + 0)', '(p0 * 1, p1)', '(max(p0, p1), min(p0, p1))'])
            self.lines += [deco, 'def hp(p0, p1):', f'    return {body}', '']
            self.helpers.append(('hp', [('p0', 'R'), ('p1', 'R')], 'T', deco != '@fp.fpy', False, {}))
        prog = super().program()
        if self.use_globals:
            prog.src = GLOBAL_SRC + prog.src
        prog.features = set(self.features)
        return prog


def gen_program(ch, profile=None, **kw) -> Program:
    return C07Gen(ch, profile, **kw).program()
