from vlib.progen import Chooser, RandChooser, HypChooser
def gen_case(ch, shard=0):
    raise NotImplementedError
